package interp

// Engine additions for C13/C38 (per-channel batching, channel medium).
//
// vFireTimerRaw() bool — advance the virtual clock to the earliest pending
// timer and fire it WITHOUT letting the woken threads run (vFireTimer settles
// afterwards). The woken goroutine stays in the run queue until the harness
// thread blocks, yields or settles. This is how a harness puts a "late timer
// fire" on the table: the timer channel already holds its value, but the
// goroutine that waits for it has not yet taken the lock when the harness
// performs the next operation (size flush, delWriter, close).
//
// The intrinsic is declared body-less in the harness file that uses it (it is
// not part of harness/api/sym.go.tmpl), so such harnesses are "native": false.

func init() {
	intrinsics["vFireTimerRaw"] = func(fr *frame, a []value) value {
		return fr.i.sched.fireNextTimer()
	}
}
