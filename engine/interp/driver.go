package interp

// Loading /repo with harness overlays, exploring all paths of a harness with
// a pool of workers, collecting results.

import (
	"fmt"
	"go/token"
	"go/types"
	"os"
	"sort"
	"strings"
	"sync"
	"time"

	"golang.org/x/tools/go/packages"
	"golang.org/x/tools/go/ssa"
	"golang.org/x/tools/go/ssa/ssautil"
)

// Config holds the bounds and options of one exploration.
type Config struct {
	Workers         int
	MaxDecisions    int   // per path (unwinding bound on symbolic branches)
	MaxUnwind       int   // back-edges per frame activation
	MaxSteps        int64 // instructions per path
	MaxPaths        int   // per harness
	MaxSchedPoints  int
	MaxPreemptTargets int // a preemption may switch to one of the first N runnable threads
	MaxSymLen       int
	IteIndexMin     int // arrays longer than this use ite chains for symbolic loads
	SolverTimeoutMs int
	Solver          string
	SelectChoice    bool
	Preempt         int
	Verbose         bool
	Twin            bool // replace every property assertion by false (vacuity twin)
	Params          map[string]int
	KnownOpen       map[string]bool
	NoInitPrefixes  []string
	RunInitFuncs    []string // package paths whose explicit init#N functions are executed
	MaxViolations   int
	StopOnViolation bool
}

func DefaultConfig() Config {
	return Config{
		Workers:         16,
		MaxDecisions:    4000,
		MaxUnwind:       1 << 22,
		MaxSteps:        20_000_000,
		MaxPaths:        200_000,
		MaxSchedPoints:  400,
		MaxPreemptTargets: 3,
		MaxSymLen:       64,
		IteIndexMin:     4,
		SolverTimeoutMs: 10_000,
		Solver:          "z3",
		Params:          map[string]int{},
		KnownOpen:       map[string]bool{},
		MaxViolations:   8,
		NoInitPrefixes: []string{
			"github.com/prometheus/", "google.golang.org/", "github.com/google/cel-go", "cel.dev/",
			"github.com/antlr4-go/", "github.com/redis/", "net/http", "net", "crypto/", "os", "syscall",
			"runtime", "internal/", "github.com/maypok86/", "golang.org/x/", "github.com/segmentio/",
			"github.com/stretchr/", "testing", "reflect", "log", "mime", "vendor/", "compress/",
			"github.com/planetscale/", "github.com/mailru/",
			"github.com/centrifugal/centrifuge/internal/controlpb", "encoding/json", "text/", "html/",
			"go.yaml.in/", "github.com/josharian/", "regexp", "database/", "embed", "flag", "io/fs", "path",
		},
	}
}

// Program is a loaded and SSA-built package set.
type Program struct {
	sh    *shared
	Pkgs  []*packages.Package
	SSA   []*ssa.Package
	Fset  *token.FileSet
	LoadS float64
}

// Load type-checks pattern (relative to dir) with overlay files injected and
// builds SSA for the whole program.
func Load(dir string, patterns []string, overlay map[string][]byte, goBin string, tags string) (*Program, error) {
	t0 := time.Now()
	env := append([]string{}, os.Environ()...)
	env = append(env, "GOFLAGS=-mod=mod", "GOPROXY=off", "GOTOOLCHAIN=local", "GOWORK=off")
	if goBin != "" {
		os.Setenv("PATH", goBin+":"+os.Getenv("PATH"))
		env = append(env, "PATH="+os.Getenv("PATH"))
	}
	cfg := &packages.Config{Mode: packages.LoadAllSyntax, Dir: dir, Env: env, Overlay: overlay}
	if tags != "" {
		cfg.BuildFlags = []string{"-tags=" + tags}
	}
	pkgs, err := packages.Load(cfg, patterns...)
	if err != nil {
		return nil, err
	}
	var errs []string
	packages.Visit(pkgs, nil, func(p *packages.Package) {
		for _, e := range p.Errors {
			errs = append(errs, e.Error())
		}
	})
	if len(errs) > 0 {
		if len(errs) > 20 {
			errs = errs[:20]
		}
		return nil, fmt.Errorf("load errors:\n%s", strings.Join(errs, "\n"))
	}
	prog, spkgs := ssautil.AllPackages(pkgs, ssa.InstantiateGenerics)
	prog.Build()
	sh := &shared{prog: prog, sizes: &types.StdSizes{WordSize: 8, MaxAlign: 8}}
	if rt := prog.ImportedPackage("runtime"); rt != nil {
		sh.runtimeErrorString = rt.Type("errorString").Object().Type()
	} else {
		sh.runtimeErrorString = errorType
	}
	initReflect(sh)
	return &Program{sh: sh, Pkgs: pkgs, SSA: spkgs, Fset: prog.Fset, LoadS: time.Since(t0).Seconds()}, nil
}

// FindFunc looks up a package-level function by name in the initial packages.
func (p *Program) FindFunc(name string) *ssa.Function {
	for _, sp := range p.SSA {
		if sp == nil {
			continue
		}
		if f := sp.Func(name); f != nil {
			return f
		}
	}
	return nil
}

// PathSample is a summary of one explored path kept as evidence.
type PathSample struct {
	Decisions string            `json:"decisions"`
	Status    string            `json:"status"`
	Inputs    map[string]uint64 `json:"inputs"`
	Asserts   int               `json:"asserts_reached"`
	Steps     int64             `json:"steps"`
}

// HarnessResult aggregates one harness exploration.
type HarnessResult struct {
	Harness        string         `json:"harness"`
	Paths          int            `json:"paths"`
	PathsOK        int            `json:"paths_ok"`
	PathsWithProp  int            `json:"paths_with_assertions"`
	Infeasible     int            `json:"paths_infeasible"`
	Unsupported    int            `json:"paths_unsupported"`
	LimitHit       int            `json:"paths_limit"`
	Internal       int            `json:"paths_internal_error"`
	KnownPaths     int            `json:"paths_known_finding"`
	Queries        int            `json:"solver_queries"`
	SolverUnknown  int            `json:"solver_unknown"`
	SolverErrors   int            `json:"solver_errors"`
	SolverS        float64        `json:"solver_s"`
	WallS          float64        `json:"wall_s"`
	Asserts        int            `json:"assertions_checked"`
	Implicit       int            `json:"implicit_checks"`
	Steps          int64          `json:"instructions"`
	MaxDecisions   int            `json:"max_decisions_on_a_path"`
	Covers         map[string]int `json:"cover_points"`
	Problems       []string       `json:"problems,omitempty"`
	Cuts           []string       `json:"cuts,omitempty"`
	InitProblems   []string       `json:"init_problems,omitempty"`
	Functions      map[string]int `json:"functions_encoded"`
	Models         map[string]int `json:"models_invoked"`
	Samples        []PathSample   `json:"samples"`
	Violations     []*Violation   `json:"violations,omitempty"`
	Known          []string       `json:"known_findings,omitempty"`
	Exhaustive     bool           `json:"exhaustive"`
	InputsPerPath  int            `json:"max_symbolic_inputs"`
}

// Explorer runs one harness to exhaustion.
type Explorer struct {
	cfg  Config
	prog *Program
	fn   *ssa.Function

	mu       sync.Mutex
	cond     *sync.Cond
	work     []workItem
	active   int
	stop     bool
	res      *HarnessResult
	covered  map[string]bool
	problems map[string]int
	cuts     map[string]bool
	initP    map[string]bool
	known    map[string]bool
	vioKeys  map[string]bool
}

func NewExplorer(prog *Program, fn *ssa.Function, cfg Config) *Explorer {
	e := &Explorer{cfg: cfg, prog: prog, fn: fn,
		covered: map[string]bool{}, problems: map[string]int{}, cuts: map[string]bool{}, initP: map[string]bool{},
		known: map[string]bool{}, vioKeys: map[string]bool{}}
	e.cond = sync.NewCond(&e.mu)
	e.res = &HarnessResult{Harness: fn.Name(), Covers: map[string]int{}, Functions: map[string]int{}, Models: map[string]int{}}
	return e
}

func (e *Explorer) enqueue(w workItem) {
	e.mu.Lock()
	e.work = append(e.work, w)
	e.mu.Unlock()
	e.cond.Signal()
}

func (e *Explorer) noteUnknown() {
	e.mu.Lock()
	e.res.SolverUnknown++
	e.mu.Unlock()
}

func (e *Explorer) noteCut(s string) {
	e.mu.Lock()
	e.cuts[s] = true
	e.mu.Unlock()
}

func (e *Explorer) noteInitProblem(pkg, msg string) {
	e.mu.Lock()
	if len(msg) > 200 {
		msg = msg[:200]
	}
	e.initP[pkg+": "+msg] = true
	e.mu.Unlock()
}

func (e *Explorer) noteKnown(region, label string) {
	e.mu.Lock()
	e.known[region+" ("+label+")"] = true
	e.mu.Unlock()
}

func (e *Explorer) knownOpen(region string) bool { return e.cfg.KnownOpen[region] }

func (e *Explorer) isCovered(label string) bool {
	e.mu.Lock()
	defer e.mu.Unlock()
	return e.covered[label]
}

func (e *Explorer) noInit(path string) bool {
	// golang.org/x/sync (singleflight's errGoexit sentinel) has plain
	// package-level initialisers that must run
	if strings.HasPrefix(path, "golang.org/x/sync/") || path == "internal/strconv" {
		// internal/strconv (go1.26: the implementation of strconv) keeps its
		// power-of-ten tables in package-level variables
		return false
	}
	for _, p := range e.cfg.NoInitPrefixes {
		if path == p || strings.HasPrefix(path, p) {
			if strings.HasPrefix(path, "internal/") {
				// std internal packages
				return true
			}
			return true
		}
	}
	return false
}

func (e *Explorer) runsInitFuncs(path string) bool {
	for _, p := range e.cfg.RunInitFuncs {
		if p == path {
			return true
		}
	}
	return false
}

// inertNilIface reports whether a method call on a nil interface of this
// method's package is treated as an inert no-op (metrics only).
func (e *Explorer) inertNilIface(m *types.Func) bool {
	if m.Pkg() == nil {
		return false
	}
	return strings.HasPrefix(m.Pkg().Path(), "github.com/prometheus/")
}

// Run explores all paths and returns the aggregated result.
func (e *Explorer) Run() *HarnessResult {
	t0 := time.Now()
	e.work = []workItem{{}}
	n := e.cfg.Workers
	if n < 1 {
		n = 1
	}
	var wg sync.WaitGroup
	for w := 0; w < n; w++ {
		wg.Add(1)
		go func() {
			defer wg.Done()
			sol, err := newSolver(e.cfg.Solver, e.cfg.SolverTimeoutMs)
			if err != nil {
				e.mu.Lock()
				e.problems["cannot start solver: "+err.Error()]++
				e.stop = true
				e.mu.Unlock()
				e.cond.Broadcast()
				return
			}
			defer func() {
				e.mu.Lock()
				e.res.Queries += sol.queries
				e.res.SolverErrors += sol.errors
				e.res.SolverS += sol.elapsed.Seconds()
				e.mu.Unlock()
				sol.close()
			}()
			for {
				e.mu.Lock()
				for len(e.work) == 0 && e.active > 0 && !e.stop {
					e.cond.Wait()
				}
				if e.stop || len(e.work) == 0 {
					e.mu.Unlock()
					e.cond.Broadcast()
					return
				}
				item := e.work[len(e.work)-1]
				e.work = e.work[:len(e.work)-1]
				e.active++
				e.mu.Unlock()

				e.runPath(sol, item, nil)

				e.mu.Lock()
				e.active--
				if e.res.Paths >= e.cfg.MaxPaths && len(e.work) > 0 {
					e.problems[fmt.Sprintf("path limit %d reached with work left", e.cfg.MaxPaths)]++
					e.stop = true
				}
				e.mu.Unlock()
				e.cond.Broadcast()
			}
		}()
	}
	wg.Wait()
	r := e.res
	r.WallS = time.Since(t0).Seconds()
	for k, v := range e.problems {
		r.Problems = append(r.Problems, fmt.Sprintf("%s (x%d)", k, v))
	}
	sort.Strings(r.Problems)
	for k := range e.cuts {
		r.Cuts = append(r.Cuts, k)
	}
	sort.Strings(r.Cuts)
	for k := range e.initP {
		r.InitProblems = append(r.InitProblems, k)
	}
	sort.Strings(r.InitProblems)
	for k := range e.known {
		r.Known = append(r.Known, k)
	}
	sort.Strings(r.Known)
	r.Exhaustive = !e.stop && len(r.Problems) == 0 && r.Unsupported == 0 && r.LimitHit == 0 && r.Internal == 0
	return r
}

// ReplayConcrete executes the harness once with every input fixed.
func (e *Explorer) ReplayConcrete(inputs map[string]uint64) (*Violation, string) {
	sol, err := newSolver(e.cfg.Solver, e.cfg.SolverTimeoutMs)
	if err != nil {
		return nil, "cannot start solver: " + err.Error()
	}
	defer sol.close()
	m := model{}
	for k, v := range inputs {
		m[k] = v
	}
	st, msg, v := e.runPath(sol, workItem{}, m)
	if st == pathViolation {
		return v, ""
	}
	return nil, fmt.Sprintf("status=%d %s", st, msg)
}

func newInterp(sh *shared, e *Explorer) *interpreter {
	return &interpreter{
		shared:    sh,
		globals:   make(map[*ssa.Global]*value),
		initState: make(map[*ssa.Package]int),
		exp:       e,
		funcs:     make(map[*ssa.Function]struct{}),
		models:    make(map[string]int),
		stubs:     make(map[string]value),
		pools:     make(map[*value][]value),
		numerals:  make(map[string]sym),
	}
}

func (e *Explorer) runPath(sol *solver, item workItem, concrete model) (pathStatus, string, *Violation) {
	sol.reset()
	i := newInterp(e.prog.sh, e)
	p := &pathCtx{tc: newTctx(), sol: sol, exp: e, harness: e.fn.Name(), prefix: item.prefix, model: item.model, concrete: concrete,
		regions: map[string]*term{}}
	if p.model == nil {
		p.model = model{}
	}
	i.path = p
	s := newScheduler(i)
	s.preempt = e.cfg.Preempt
	i.sched = s
	fn := e.fn
	main := s.spawn("main", func() {
		call(i, nil, token.NoPos, fn, nil)
	})
	s.runq = nil
	s.cur = main
	main.resume <- true
	out := <-s.outcome
	s.killAll()

	status := pathOK
	msg := ""
	switch {
	case out.abort != nil:
		status = out.abort.status
		msg = out.abort.msg
	case out.panic != nil:
		status = pathInternal
		msg = fmt.Sprintf("engine panic: %v\n%s", out.panic, out.stack)
	}

	e.mu.Lock()
	defer e.mu.Unlock()
	r := e.res
	if concrete != nil {
		return status, msg, p.violation
	}
	r.Paths++
	r.Asserts += p.asserts
	r.Implicit += p.implicit
	r.Steps += p.steps
	if len(p.decisions) > r.MaxDecisions {
		r.MaxDecisions = len(p.decisions)
	}
	if len(p.inputs) > r.InputsPerPath {
		r.InputsPerPath = len(p.inputs)
	}
	for k := range p.covers {
		e.covered[k] = true
		r.Covers[k]++
	}
	for f := range i.funcs {
		if _, ok := r.Functions[f.String()]; !ok {
			n := 0
			for _, b := range f.Blocks {
				n += len(b.Instrs)
			}
			r.Functions[f.String()] = n
		}
	}
	for k, v := range i.models {
		r.Models[k] += v
	}
	stName := "ok"
	switch status {
	case pathOK:
		r.PathsOK++
		if p.asserts > 0 {
			r.PathsWithProp++
		}
	case pathViolation:
		stName = "violation"
		if p.asserts > 0 {
			r.PathsWithProp++
		}
		if v := p.violation; v != nil {
			key := v.Kind + "|" + v.Label
			if !e.vioKeys[key] {
				e.vioKeys[key] = true
				r.Violations = append(r.Violations, v)
			}
			if e.cfg.StopOnViolation || len(r.Violations) >= e.cfg.MaxViolations {
				e.stop = true
			}
		}
	case pathInfeasible:
		stName = "infeasible"
		r.Infeasible++
	case pathKnown:
		stName = "known-finding"
		r.KnownPaths++
	case pathUnsupported:
		stName = "unsupported"
		r.Unsupported++
		e.problems["unsupported: "+firstLine(msg)]++
	case pathLimit:
		stName = "limit"
		r.LimitHit++
		e.problems["limit: "+firstLine(msg)]++
	case pathInternal:
		stName = "internal"
		r.Internal++
		e.problems["internal: "+msg]++
	}
	if len(r.Samples) < 6 || (status == pathOK && p.asserts > 0 && len(r.Samples) < 10) {
		in, _ := p.witness(p.model)
		if len(in) > 40 {
			in = trimMap(in, 40)
		}
		r.Samples = append(r.Samples, PathSample{Decisions: p.decisionString(), Status: stName, Inputs: in, Asserts: p.asserts, Steps: p.steps})
	}
	return status, msg, p.violation
}

func trimMap(m map[string]uint64, n int) map[string]uint64 {
	keys := make([]string, 0, len(m))
	for k := range m {
		keys = append(keys, k)
	}
	sort.Strings(keys)
	out := make(map[string]uint64, n)
	for _, k := range keys[:n] {
		out[k] = m[k]
	}
	return out
}

func firstLine(s string) string {
	if k := strings.IndexByte(s, '\n'); k >= 0 {
		return s[:k]
	}
	return s
}
