package interp

// float64-of-int64 model, companion of the numeral-token model (models_c21.go).
//
// The engine has no symbolic floating point. The one float computation that a
// numeral token can reach cheaply is "parse the numeral as a float and convert
// it back to an integer": strconv.ParseFloat(FormatInt(x,10), 64) is the
// float64 nearest to x (round to nearest even), and int64(f) truncates (exact
// here: every float64 of magnitude >= 2^53 is an integer; below that the value
// is x itself). symF64 stands for float64(x); the only operations defined on
// it are the conversions back to an integer kind and to float64. Anything else
// ends the path as unsupported.

import (
	"go/types"
	"strconv"
)

type symF64 struct{ x sym } // float64(x), x a symbolic int64

func init() {
	externals["strconv.ParseFloat"] = func(fr *frame, a []value) value {
		if s, ok := concreteString(a[0]); ok {
			if x, ok := fr.i.numerals[s]; ok {
				if bits, _ := a[1].(int); bits == 64 {
					return tuple{value(symF64{x}), iface{}}
				}
			}
			// a concrete, well-formed numeral: the host's ParseFloat is the
			// reference (the interpreted internal/strconv needs runtime
			// support this engine does not model); malformed input takes the
			// interpreted path for its error value
			if bits, _ := a[1].(int); bits == 64 {
				if f, err := strconv.ParseFloat(s, 64); err == nil {
					return tuple{value(f), iface{}}
				}
			}
		}
		return interpretBody(fr, a)
	}
}

// f64OfInt64Trunc builds int64(float64(x)) for a 64-bit signed term x, with
// amd64 semantics for the one out-of-range case (float64 2^63 converts to
// MinInt64).
func (c *tctx) f64OfInt64Trunc(x *term) *term {
	zero := c.bv(0, 64)
	neg := c.cmp(opSlt, x, zero)
	abs := c.ite(neg, c.neg(x), x) // as unsigned; MinInt64 -> 2^63
	// round abs to 53 significant bits, nearest even
	rounded := abs
	for d := uint(1); d <= 11; d++ {
		// abs in [2^(52+d), 2^(53+d)): drop d low bits
		lo := c.bv(uint64(1)<<(52+d), 64)
		var inRange *term
		if d == 11 {
			inRange = c.not(c.cmp(opUlt, abs, lo)) // abs >= 2^63 (only 2^63 itself)
		} else {
			hi := c.bv(uint64(1)<<(53+d), 64)
			inRange = c.and(c.not(c.cmp(opUlt, abs, lo)), c.cmp(opUlt, abs, hi))
		}
		mask := c.bv((uint64(1)<<d)-1, 64)
		half := c.bv(uint64(1)<<(d-1), 64)
		unit := c.bv(uint64(1)<<d, 64)
		rem := c.bin(opBvand, abs, mask)
		base := c.bin(opBvand, abs, c.bvnot(mask))
		odd := c.not(c.eq(c.bin(opBvand, base, unit), zero))
		up := c.or(c.cmp(opUlt, half, rem), c.and(c.eq(rem, half), odd))
		r := c.ite(up, c.bin(opAdd, base, unit), base)
		rounded = c.ite(inRange, r, rounded)
	}
	// rounded <= 2^63. Positive 2^63 is out of int64 range: amd64 yields MinInt64,
	// which is also the bit pattern of 2^63; negative: -rounded.
	return c.ite(neg, c.neg(rounded), rounded)
}

// convSymF64 implements ssa.Convert on a symF64.
func (i *interpreter) convSymF64(dst types.Type, f symF64) value {
	b, ok := dst.Underlying().(*types.Basic)
	if !ok {
		i.path.unsupported("conversion of float64(symbolic int) to %v", dst)
	}
	switch b.Kind() {
	case types.Float64:
		return f
	case types.Int64, types.Int:
		c := i.path.tc
		return mkVal(b.Kind(), c.f64OfInt64Trunc(f.x.t))
	}
	i.path.unsupported("conversion of float64(symbolic int) to %v", dst)
	return nil
}
