package interp

// Numeral-token model for strconv.FormatInt / strconv.ParseInt on SYMBOLIC
// integers (needed by C21: the ordered map-state cursor is
// FormatInt(score,10) + "\x00" + key and is parsed back with ParseInt).
//
// Strings have a concrete length in this engine, so the decimal text of a
// symbolic integer cannot be represented. Instead
//
//	FormatInt(x, 10) with x symbolic  returns a fresh concrete token string
//	    "{int#<n>}" (no NUL, not a numeral) and remembers token -> x;
//	ParseInt(tok, 10, 64)            returns (x, nil) for a remembered token.
//
// Every other call (concrete integer, other base/bit size, any string that
// is not a remembered token, symbolic strings) runs the real, interpreted
// strconv code. Assumptions introduced: ParseInt(FormatInt(x,10),10,64) == x
// with a nil error, and the decimal text of an int64 contains no NUL byte;
// the code under test does not inspect the numeral in any other way (if it
// does, the real strconv code sees a non-numeral and fails visibly).

import (
	"fmt"
	"go/types"

	"golang.org/x/tools/go/ssa"
)

// interpretBody runs the real body of fr.fn (the tail of callSSA), for
// models that only take over some argument shapes.
func interpretBody(fr *frame, args []value) value {
	fn := fr.fn
	if fn.Blocks == nil {
		fr.i.path.unsupported("no code for function: %s", fn)
	}
	fr.i.funcs[fn] = struct{}{}
	fr.env = make(map[ssa.Value]value)
	fr.block = fn.Blocks[0]
	fr.locals = make([]value, len(fn.Locals))
	for k, l := range fn.Locals {
		fr.locals[k] = zero(deref(l.Type()))
		fr.env[l] = &fr.locals[k]
	}
	for k, p := range fn.Params {
		fr.env[p] = args[k]
	}
	for fr.block != nil {
		runFrame(fr)
	}
	return fr.result
}

// concreteString returns the Go string of a string value all of whose bytes
// are concrete.
func concreteString(x value) (string, bool) {
	switch x := x.(type) {
	case string:
		return x, true
	case sstr:
		bs := make([]byte, len(x))
		for k, e := range x {
			b, ok := e.(uint8)
			if !ok {
				return "", false
			}
			bs[k] = b
		}
		return string(bs), true
	}
	return "", false
}

func init() {
	externals["strconv.FormatInt"] = func(fr *frame, a []value) value {
		x, isSymbolic := a[0].(sym)
		base, baseConcrete := a[1].(int)
		if !isSymbolic || !baseConcrete || base != 10 || x.k != types.Int64 {
			return interpretBody(fr, a)
		}
		tok := fmt.Sprintf("{int#%d}", len(fr.i.numerals)+1)
		fr.i.numerals[tok] = x
		return tok
	}
	externals["strconv.ParseInt"] = func(fr *frame, a []value) value {
		if s, ok := concreteString(a[0]); ok {
			if x, ok := fr.i.numerals[s]; ok {
				base, _ := a[1].(int)
				bits, _ := a[2].(int)
				if base == 10 && bits == 64 {
					return tuple{value(x), iface{}}
				}
			}
		}
		return interpretBody(fr, a)
	}
}
