package interp

// Strings with symbolic bytes, ordered maps, and symbolic-aware equality.

import (
	"fmt"
	"go/types"
	"unsafe"

	"golang.org/x/tools/go/ssa"
)

// sstr is a string of concrete length whose bytes may be symbolic
// (each element is uint8 or sym{Uint8}). It is immutable.
type sstr []value

func isStr(x value) bool {
	switch x.(type) {
	case string, sstr:
		return true
	}
	return false
}

func strLen(x value) int {
	switch x := x.(type) {
	case string:
		return len(x)
	case sstr:
		return len(x)
	}
	panic(fmt.Sprintf("strLen: %T", x))
}

func strBytes(x value) []value {
	switch x := x.(type) {
	case string:
		out := make([]value, len(x))
		for i := 0; i < len(x); i++ {
			out[i] = x[i]
		}
		return out
	case sstr:
		out := make([]value, len(x))
		copy(out, x)
		return out
	}
	panic(fmt.Sprintf("strBytes: %T", x))
}

func strAt(x value, i int) value {
	switch x := x.(type) {
	case string:
		return x[i]
	case sstr:
		return x[i]
	}
	panic(fmt.Sprintf("strAt: %T", x))
}

// mkStr builds a string value from bytes (copying), concrete if possible.
func mkStr(b []value) value {
	allc := true
	for _, e := range b {
		if _, ok := e.(uint8); !ok {
			allc = false
			break
		}
	}
	if allc {
		bs := make([]byte, len(b))
		for i, e := range b {
			bs[i] = e.(uint8)
		}
		return string(bs)
	}
	out := make(sstr, len(b))
	copy(out, b)
	return out
}

func strSlice(x value, lo, hi int) value {
	switch x := x.(type) {
	case string:
		return x[lo:hi]
	case sstr:
		return mkStr(x[lo:hi])
	}
	panic("strSlice")
}

func strConcat(x, y value) value {
	if xs, ok := x.(string); ok {
		if ys, ok := y.(string); ok {
			return xs + ys
		}
	}
	return mkStr(append(strBytes(x), strBytes(y)...))
}

// strEq returns x == y as bool or sym.
func (i *interpreter) strEq(x, y value) value {
	if xs, ok := x.(string); ok {
		if ys, ok := y.(string); ok {
			return xs == ys
		}
	}
	n := strLen(x)
	if n != strLen(y) {
		return false
	}
	c := i.path.tc
	acc := c.tTrue
	for k := 0; k < n; k++ {
		acc = c.and(acc, c.eq(c.termOf(strAt(x, k)), c.termOf(strAt(y, k))))
		if acc.isConst() && acc.k == 0 {
			return false
		}
	}
	return mkVal(types.Bool, acc)
}

// strLess returns x < y (lexicographic, bytewise) as bool or sym.
func (i *interpreter) strLess(x, y value) value {
	if xs, ok := x.(string); ok {
		if ys, ok := y.(string); ok {
			return xs < ys
		}
	}
	c := i.path.tc
	nx, ny := strLen(x), strLen(y)
	n := nx
	if ny < n {
		n = ny
	}
	// from the end: less_k = x[k]<y[k] || (x[k]==y[k] && less_{k+1})
	res := c.boolc(nx < ny)
	for k := n - 1; k >= 0; k-- {
		a, b := c.termOf(strAt(x, k)), c.termOf(strAt(y, k))
		res = c.or(c.cmp(opUlt, a, b), c.and(c.eq(a, b), res))
	}
	return mkVal(types.Bool, res)
}

// ---------------------------------------------------------------------------
// ordered maps

// smap is an insertion-ordered map. Concrete scalar/string/pointer keys are
// indexed by a host map; other keys (symbolic, struct, interface, array) are
// found by a linear scan with symbolic-aware equality.
type smap struct {
	keyT  types.Type
	keys  []value
	vals  []value
	dead  []bool
	ndead int
	index map[value]int // simple concrete key -> position
	other []int         // positions of non-simple keys
}

type tomb struct{}

func simpleKey(k value) bool {
	switch k.(type) {
	case bool, int, int8, int16, int32, int64, uint, uint8, uint16, uint32, uint64, uintptr, string, *value, *vchan:
		return true
	}
	return false
}

func (m *smap) length() int {
	if m == nil {
		return 0
	}
	return len(m.keys) - m.ndead
}

// find returns the index of key in m or -1, branching on symbolic equality.
func (i *interpreter) mapFind(m *smap, key value) int {
	if m == nil {
		return -1
	}
	if simpleKey(key) {
		if k, ok := m.index[key]; ok {
			return k
		}
		for _, k := range m.other {
			if !m.dead[k] && i.truth(i.eqv(m.keyT, m.keys[k], key)) {
				return k
			}
		}
		return -1
	}
	for k := range m.keys {
		if !m.dead[k] && i.truth(i.eqv(m.keyT, m.keys[k], key)) {
			return k
		}
	}
	return -1
}

func (i *interpreter) mapInsert(m *smap, key, v value) {
	if m == nil {
		panic(targetPanic{runtimeError("assignment to entry in nil map")})
	}
	if k := i.mapFind(m, key); k >= 0 {
		m.vals[k] = v
		return
	}
	pos := len(m.keys)
	m.keys = append(m.keys, key)
	m.vals = append(m.vals, v)
	m.dead = append(m.dead, false)
	if simpleKey(key) {
		if m.index == nil {
			m.index = make(map[value]int)
		}
		m.index[key] = pos
	} else {
		m.other = append(m.other, pos)
	}
}

func (i *interpreter) mapDelete(m *smap, key value) {
	if m == nil {
		return
	}
	k := i.mapFind(m, key)
	if k < 0 {
		return
	}
	if simpleKey(m.keys[k]) {
		delete(m.index, m.keys[k])
	} else {
		for j, p := range m.other {
			if p == k {
				m.other = append(m.other[:j:j], m.other[j+1:]...)
				break
			}
		}
	}
	m.dead[k] = true
	m.keys[k] = tomb{}
	m.vals[k] = nil
	m.ndead++
	if m.ndead > 32 && m.ndead > len(m.keys)/2 {
		m.compact()
	}
}

func (m *smap) compact() {
	nk, nv := m.keys[:0:0], m.vals[:0:0]
	m.index = make(map[value]int)
	m.other = nil
	for k := range m.keys {
		if m.dead[k] {
			continue
		}
		pos := len(nk)
		nk = append(nk, m.keys[k])
		nv = append(nv, m.vals[k])
		if simpleKey(m.keys[k]) {
			m.index[m.keys[k]] = pos
		} else {
			m.other = append(m.other, pos)
		}
	}
	m.keys, m.vals = nk, nv
	m.dead = make([]bool, len(nk))
	m.ndead = 0
}

func (m *smap) clear() {
	m.keys, m.vals, m.dead, m.index, m.other, m.ndead = nil, nil, nil, nil, nil, 0
}

// liveKeys returns a snapshot of the keys in insertion order.
func (m *smap) liveKeys() []value {
	if m == nil {
		return nil
	}
	out := make([]value, 0, m.length())
	for k := range m.keys {
		if !m.dead[k] {
			out = append(out, m.keys[k])
		}
	}
	return out
}

func (m *smap) clone() *smap {
	n := &smap{keyT: m.keyT}
	for k := range m.keys {
		if m.dead[k] {
			continue
		}
		pos := len(n.keys)
		n.keys = append(n.keys, m.keys[k])
		n.vals = append(n.vals, m.vals[k])
		n.dead = append(n.dead, false)
		if simpleKey(m.keys[k]) {
			if n.index == nil {
				n.index = make(map[value]int)
			}
			n.index[m.keys[k]] = pos
		} else {
			n.other = append(n.other, pos)
		}
	}
	return n
}

// smapIter iterates over a snapshot of the keys; entries deleted during
// iteration are skipped, entries added are not visited (allowed by the spec).
type smapIter struct {
	i    *interpreter
	m    *smap
	keys []value
	pos  int
}

func (it *smapIter) next() tuple {
	for it.pos < len(it.keys) {
		k := it.keys[it.pos]
		it.pos++
		if simpleKey(k) {
			if j, ok := it.m.index[k]; ok {
				return tuple{true, k, it.m.vals[j]}
			}
			continue
		}
		for _, j := range it.m.other {
			if !it.m.dead[j] && sameKey(it.m.keys[j], k) {
				return tuple{true, k, it.m.vals[j]}
			}
		}
	}
	return tuple{false, nil, nil}
}

func sameKey(a, b value) bool {
	defer func() { recover() }()
	switch a := a.(type) {
	case sym:
		bs, ok := b.(sym)
		return ok && bs.t == a.t
	case sstr:
		bs, ok := b.(sstr)
		if !ok || len(bs) != len(a) {
			return false
		}
		for i := range a {
			if !sameKey(a[i], bs[i]) {
				return false
			}
		}
		return true
	case structure:
		bs, ok := b.(structure)
		if !ok || len(bs) != len(a) {
			return false
		}
		for i := range a {
			if !sameKey(a[i], bs[i]) {
				return false
			}
		}
		return true
	case array:
		bs, ok := b.(array)
		if !ok || len(bs) != len(a) {
			return false
		}
		for i := range a {
			if !sameKey(a[i], bs[i]) {
				return false
			}
		}
		return true
	case iface:
		bs, ok := b.(iface)
		return ok && sameType(a.t, bs.t) && (a.t == nil || sameKey(a.v, bs.v))
	}
	return a == b
}

// ---------------------------------------------------------------------------
// equality

// eqv returns x == y for static type t as bool or sym{Bool}.
func (i *interpreter) eqv(t types.Type, x, y value) value {
	switch x := x.(type) {
	case sym:
		return i.symBinopEq(x, y)
	case string:
		return i.strEq(x, y)
	case sstr:
		return i.strEq(x, y)
	case structure:
		ys := y.(structure)
		var st *types.Struct
		if t != nil {
			st, _ = t.Underlying().(*types.Struct)
		}
		var acc value = true
		for k := range x {
			var ft types.Type
			if st != nil {
				f := st.Field(k)
				if f.Name() == "_" {
					continue
				}
				ft = f.Type()
			}
			acc = i.vand(acc, i.eqv(ft, x[k], ys[k]))
			if b, ok := acc.(bool); ok && !b {
				return false
			}
		}
		return acc
	case array:
		ya := y.(array)
		var et types.Type
		if t != nil {
			if at, ok := t.Underlying().(*types.Array); ok {
				et = at.Elem()
			}
		}
		var acc value = true
		for k := range x {
			acc = i.vand(acc, i.eqv(et, x[k], ya[k]))
			if b, ok := acc.(bool); ok && !b {
				return false
			}
		}
		return acc
	case iface:
		yi := y.(iface)
		if !sameType(x.t, yi.t) {
			return false
		}
		if x.t == nil {
			return true
		}
		if !types.Comparable(x.t) {
			panic(targetPanic{runtimeError("comparing uncomparable type " + x.t.String())})
		}
		return i.eqv(x.t, x.v, yi.v)
	case *value:
		return x == y.(*value)
	case *vchan:
		return x == y.(*vchan)
	case unsafe.Pointer:
		return x == y.(unsafe.Pointer)
	case rtype:
		return x.eq(t, y)
	case *smap:
		return (x != nil) == (y.(*smap) != nil)
	case []value:
		return (x != nil) == (y.([]value) != nil)
	case *ssa.Function:
		switch y := y.(type) {
		case *ssa.Function:
			return (x != nil) == (y != nil)
		case *closure:
			return x == nil && y == nil
		}
	case *closure:
		switch y := y.(type) {
		case *ssa.Function:
			return (x != nil) == (y != nil)
		case *closure:
			return x == y
		}
	}
	if isSym(y) {
		return i.symBinopEq(y.(sym), x)
	}
	if sy, ok := y.(sstr); ok {
		return i.strEq(x, sy)
	}
	if _, ok := kindOf(x); ok {
		return x == y
	}
	switch x.(type) {
	case float32, float64, complex64, complex128:
		return x == y
	}
	panic(fmt.Sprintf("eqv: unhandled %T vs %T (type %v)", x, y, t))
}

func (i *interpreter) symBinopEq(x sym, y value) value {
	c := i.path.tc
	return mkVal(types.Bool, c.eq(x.t, c.termOf(y)))
}
