package interp

// Deterministic cooperative scheduler for interpreted goroutines, with
// interpreter-level mutexes, channels, conds, wait groups and virtual timers.
// Exactly one interpreted thread runs at a time (baton passing); scheduling
// choices are made through pathCtx so that they fork like any other input.

import (
	"fmt"
	"sort"
	"strings"
	"sync"
)

type threadKill struct{}

type thread struct {
	id      int
	name    string
	resume  chan bool // true = run, false = killed
	done    bool
	blocked bool
	waitOn  string
	top     *frame // innermost interpreted frame (diagnostics only)
	settling bool  // inside vSettle: not a preemption target
}

type vtimer struct {
	when    int64
	seq     int
	fn      func() // runs on the firing thread's stack (must not block)
	stopped bool
	fired   bool
}

type scheduler struct {
	i        *interpreter
	threads  []*thread
	cur      *thread
	runq     []*thread
	now      int64
	timers   []*vtimer
	timerSeq int
	preempt  int // remaining preemption budget
	points   int // scheduling points seen
	killed   bool
	wg       sync.WaitGroup
	outcome  chan pathOutcome
	mutexes  map[*value]*vmutex
	rw       map[*value]*vrwmutex
	conds    map[*value]*vcond
	wgs      map[*value]*vwaitgroup
	onces    map[*value]*vonce
	timerTab map[*value]*timerRec
	autoTime bool
}

type pathOutcome struct {
	abort *pathAbort
	panic any // uncaught target panic / internal error
	stack string
}

func newScheduler(i *interpreter) *scheduler {
	return &scheduler{
		i:       i,
		outcome: make(chan pathOutcome, 64),
		mutexes: make(map[*value]*vmutex),
		rw:      make(map[*value]*vrwmutex),
		conds:   make(map[*value]*vcond),
		wgs:     make(map[*value]*vwaitgroup),
		onces:   make(map[*value]*vonce),
		now:     1_700_000_000 * 1_000_000_000,
		autoTime: true,
	}
}

// spawn creates a thread running body. The new thread is appended to the run
// queue; the caller keeps running.
func (s *scheduler) spawn(name string, body func()) *thread {
	t := &thread{id: len(s.threads), name: name, resume: make(chan bool, 1)}
	s.threads = append(s.threads, t)
	s.runq = append(s.runq, t)
	s.wg.Add(1)
	go func() {
		defer s.wg.Done()
		if ok := <-t.resume; !ok {
			t.done = true
			return
		}
		defer func() {
			t.done = true
			r := recover()
			if r == nil {
				// normal exit: pass the baton on
				s.exitThread(t)
				return
			}
			switch r := r.(type) {
			case threadKill:
				return
			case pathAbort:
				s.outcome <- pathOutcome{abort: &r}
			case targetPanic:
				s.uncaughtPanic(r)
			default:
				s.outcome <- pathOutcome{panic: r, stack: hostStack()}
			}
		}()
		body()
	}()
	return t
}

// uncaughtPanic turns a target panic that no frame recovered into a
// violation (a crash of the program), unless it lies in a known region.
func (s *scheduler) uncaughtPanic(tp targetPanic) {
	p := s.i.path
	msg := panicString(tp)
	defer func() {
		r := recover()
		switch r := r.(type) {
		case nil:
			ab := pathAbort{pathKnown, "panic: " + msg}
			s.outcome <- pathOutcome{abort: &ab}
		case pathAbort:
			if p.violation != nil {
				p.violation.Detail = msg
				p.violation.Trace = append(p.violation.Trace, p.panicStack...)
			}
			s.outcome <- pathOutcome{abort: &r}
		default:
			s.outcome <- pathOutcome{panic: r, stack: hostStack()}
		}
	}()
	p.failOrKnown(p.tc.tTrue, "panic: "+msg, "panic")
}

// exitThread is called on the exiting thread's goroutine.
func (s *scheduler) exitThread(t *thread) {
	if t.id == 0 {
		// main harness thread finished: path complete
		s.outcome <- pathOutcome{}
		return
	}
	next := s.pickNext()
	if next == nil {
		// nothing can run: main must be blocked
		ab := pathAbort{pathViolation, "deadlock"}
		s.i.path.violationNoPanic("deadlock", "deadlock", s.describeBlocked())
		s.outcome <- pathOutcome{abort: &ab}
		return
	}
	s.cur = next
	next.resume <- true
}

func (s *scheduler) describeBlocked() string {
	str := ""
	for _, t := range s.threads {
		if !t.done {
			str += fmt.Sprintf("[thread %d %s blocked on %s] ", t.id, t.name, t.waitOn)
		}
	}
	return str
}

// pickNext removes and returns the next runnable thread, firing virtual
// timers if nothing is runnable. nil means global deadlock.
func (s *scheduler) pickNext() *thread {
	for {
		if len(s.runq) > 0 {
			t := s.runq[0]
			s.runq = s.runq[1:]
			return t
		}
		if !s.autoTime || !s.fireNextTimer() {
			return nil
		}
	}
}

// switchTo hands the baton to next and parks the current thread until it is
// resumed.
func (s *scheduler) switchTo(next *thread) {
	me := s.cur
	if next == me {
		return
	}
	s.cur = next
	next.resume <- true
	if ok := <-me.resume; !ok {
		panic(threadKill{})
	}
}

// block parks the current thread until some other thread calls wake on it.
func (s *scheduler) block(why string) {
	me := s.cur
	me.blocked = true
	me.waitOn = why
	next := s.pickNext()
	if next == nil {
		s.i.path.fail("deadlock", "deadlock", s.describeBlocked(), s.i.path.model)
	}
	s.switchTo(next)
	me.waitOn = ""
}

func (s *scheduler) wake(t *thread) {
	if t.blocked && !t.done {
		t.blocked = false
		s.runq = append(s.runq, t)
	}
}

// yield lets every other runnable thread run before the caller continues.
func (s *scheduler) yield() {
	if len(s.runq) == 0 {
		return
	}
	me := s.cur
	next := s.runq[0]
	s.runq = append(s.runq[1:], me)
	s.switchTo(next)
}

// settle runs the other threads until none of them is runnable.
func (s *scheduler) settle() {
	me := s.cur
	me.settling = true
	for len(s.runq) > 0 {
		s.yield()
	}
	me.settling = false
}

// schedPoint is called at synchronisation operations. With preemption budget
// left and other runnable threads, whether to preempt (and to whom) is a
// symbolic choice.
func (s *scheduler) schedPoint(what string) {
	if s.preempt <= 0 || len(s.runq) == 0 {
		return
	}
	// points are counted only while a preemption budget is active (vPreempt
	// resets the counter), so harness set-up does not eat into the bound
	s.points++
	if s.points > s.i.path.exp.cfg.MaxSchedPoints {
		s.i.path.exp.noteCut(fmt.Sprintf("more than %d scheduling points with preemption budget left: later points not explored", s.i.path.exp.cfg.MaxSchedPoints))
		return
	}
	// candidates: runnable threads that are not waiting in vSettle
	var cand []int
	for idx, t := range s.runq {
		if !t.settling {
			cand = append(cand, idx)
		}
	}
	n := len(cand)
	if max := s.i.path.exp.cfg.MaxPreemptTargets; max > 0 && n > max {
		n = max
	}
	if n == 0 {
		return
	}
	k := s.i.path.choose(n+1, "sched")
	if k == 0 {
		return
	}
	s.preempt--
	me := s.cur
	ri := cand[k-1]
	next := s.runq[ri]
	s.runq = append(s.runq[:ri], s.runq[ri+1:]...)
	s.runq = append(s.runq, me)
	where := ""
	if me.top != nil {
		st := targetStack(me.top)
		if len(st) > 8 {
			st = st[:8]
		}
		where = " in " + strings.Join(st, " <- ")
	}
	s.i.path.trace = append(s.i.path.trace, fmt.Sprintf("preempt T%d(%s)->T%d(%s) at %s%s", me.id, me.name, next.id, next.name, what, where))
	s.switchTo(next)
}

// killAll terminates every parked thread (called by the driver after the
// path's outcome is known; no thread is running at that time).
func (s *scheduler) killAll() {
	s.killed = true
	for _, t := range s.threads {
		if !t.done {
			select {
			case t.resume <- false:
			default:
			}
		}
	}
	s.wg.Wait()
}

// ---------------------------------------------------------------------------
// virtual time

func (s *scheduler) addTimer(d int64, fn func()) *vtimer {
	if d < 0 {
		d = 0
	}
	s.timerSeq++
	t := &vtimer{when: s.now + d, seq: s.timerSeq, fn: fn}
	s.timers = append(s.timers, t)
	return t
}

func (s *scheduler) pendingTimers() []*vtimer {
	var out []*vtimer
	for _, t := range s.timers {
		if !t.stopped && !t.fired {
			out = append(out, t)
		}
	}
	sort.SliceStable(out, func(i, j int) bool {
		if out[i].when != out[j].when {
			return out[i].when < out[j].when
		}
		return out[i].seq < out[j].seq
	})
	s.timers = out
	return out
}

// fireNextTimer advances the clock to the earliest pending timer and fires it.
func (s *scheduler) fireNextTimer() bool {
	p := s.pendingTimers()
	if len(p) == 0 {
		return false
	}
	t := p[0]
	if t.when > s.now {
		s.now = t.when
	}
	t.fired = true
	t.fn()
	return true
}

// advance moves the clock forward by d, firing due timers in order and
// letting woken/spawned threads run to quiescence after each.
func (s *scheduler) advance(d int64) {
	target := s.now + d
	for {
		p := s.pendingTimers()
		if len(p) == 0 || p[0].when > target {
			break
		}
		t := p[0]
		if t.when > s.now {
			s.now = t.when
		}
		t.fired = true
		t.fn()
		s.settle()
	}
	s.now = target
}

// ---------------------------------------------------------------------------
// mutexes

type vmutex struct {
	locked  bool
	owner   *thread
	waiters []*thread
}

func (s *scheduler) mutex(p *value) *vmutex {
	m := s.mutexes[p]
	if m == nil {
		m = &vmutex{}
		s.mutexes[p] = m
	}
	return m
}

func (s *scheduler) lock(p *value) {
	s.schedPoint("Lock")
	m := s.mutex(p)
	for m.locked {
		m.waiters = append(m.waiters, s.cur)
		s.block("mutex")
	}
	m.locked = true
	m.owner = s.cur
}

func (s *scheduler) tryLock(p *value) bool {
	m := s.mutex(p)
	if m.locked {
		return false
	}
	m.locked = true
	m.owner = s.cur
	return true
}

func (s *scheduler) unlock(p *value) {
	m := s.mutex(p)
	if !m.locked {
		panic(targetPanic{"sync: unlock of unlocked mutex"})
	}
	m.locked = false
	m.owner = nil
	ws := m.waiters
	m.waiters = nil
	for _, w := range ws {
		s.wake(w)
	}
}

type vrwmutex struct {
	writer  bool
	readers int
	waiters []*thread
}

func (s *scheduler) rwmutex(p *value) *vrwmutex {
	m := s.rw[p]
	if m == nil {
		m = &vrwmutex{}
		s.rw[p] = m
	}
	return m
}

func (s *scheduler) rwLock(p *value) {
	s.schedPoint("RWLock")
	m := s.rwmutex(p)
	for m.writer || m.readers > 0 {
		m.waiters = append(m.waiters, s.cur)
		s.block("rwmutex.Lock")
	}
	m.writer = true
}

func (s *scheduler) rwUnlock(p *value) {
	m := s.rwmutex(p)
	if !m.writer {
		panic(targetPanic{"sync: Unlock of unlocked RWMutex"})
	}
	m.writer = false
	s.rwWakeAll(m)
}

func (s *scheduler) rwRLock(p *value) {
	s.schedPoint("RLock")
	m := s.rwmutex(p)
	for m.writer {
		m.waiters = append(m.waiters, s.cur)
		s.block("rwmutex.RLock")
	}
	m.readers++
}

func (s *scheduler) rwRUnlock(p *value) {
	m := s.rwmutex(p)
	if m.readers <= 0 {
		panic(targetPanic{"sync: RUnlock of unlocked RWMutex"})
	}
	m.readers--
	if m.readers == 0 {
		s.rwWakeAll(m)
	}
}

func (s *scheduler) rwWakeAll(m *vrwmutex) {
	ws := m.waiters
	m.waiters = nil
	for _, w := range ws {
		s.wake(w)
	}
}

// ---------------------------------------------------------------------------
// cond, waitgroup, once

type vcond struct {
	waiters []*condWaiter
}

type condWaiter struct {
	t        *thread
	signaled bool
}

func (s *scheduler) cond(p *value) *vcond {
	c := s.conds[p]
	if c == nil {
		c = &vcond{}
		s.conds[p] = c
	}
	return c
}

// condWait: unlockFn/lockFn operate on the cond's Locker.
func (s *scheduler) condWait(p *value, unlockFn, lockFn func()) {
	c := s.cond(p)
	w := &condWaiter{t: s.cur}
	c.waiters = append(c.waiters, w)
	unlockFn()
	for !w.signaled {
		s.block("cond.Wait")
	}
	lockFn()
}

func (s *scheduler) condSignal(p *value) {
	c := s.cond(p)
	if len(c.waiters) > 0 {
		w := c.waiters[0]
		c.waiters = c.waiters[1:]
		w.signaled = true
		s.wake(w.t)
	}
}

func (s *scheduler) condBroadcast(p *value) {
	c := s.cond(p)
	ws := c.waiters
	c.waiters = nil
	for _, w := range ws {
		w.signaled = true
		s.wake(w.t)
	}
}

type vwaitgroup struct {
	n       int64
	waiters []*thread
}

func (s *scheduler) waitgroup(p *value) *vwaitgroup {
	w := s.wgs[p]
	if w == nil {
		w = &vwaitgroup{}
		s.wgs[p] = w
	}
	return w
}

func (s *scheduler) wgAdd(p *value, d int64) {
	w := s.waitgroup(p)
	w.n += d
	if w.n < 0 {
		panic(targetPanic{"sync: negative WaitGroup counter"})
	}
	if w.n == 0 {
		ws := w.waiters
		w.waiters = nil
		for _, t := range ws {
			s.wake(t)
		}
	}
}

func (s *scheduler) wgWait(p *value) {
	s.schedPoint("wg.Wait")
	w := s.waitgroup(p)
	for w.n > 0 {
		w.waiters = append(w.waiters, s.cur)
		s.block("wg.Wait")
	}
}

type vonce struct {
	done    bool
	running bool
	waiters []*thread
}

// ---------------------------------------------------------------------------
// channels

type selState struct {
	done   bool
	chosen int
	val    value
	ok     bool
	closed bool // completed by close (for senders: panic)
	t      *thread
}

type chanWaiter struct {
	sel *selState
	idx int
	val value // for senders
}

type vchan struct {
	id     int
	cap    int
	buf    []value
	closed bool
	recvq  []*chanWaiter
	sendq  []*chanWaiter
	elemT  any
}

func popWaiter(q *[]*chanWaiter) *chanWaiter {
	for len(*q) > 0 {
		w := (*q)[0]
		*q = (*q)[1:]
		if !w.sel.done {
			return w
		}
	}
	return nil
}

func hasWaiter(q []*chanWaiter) bool {
	for _, w := range q {
		if !w.sel.done {
			return true
		}
	}
	return false
}

func (s *scheduler) complete(w *chanWaiter, v value, ok bool) {
	w.sel.done = true
	w.sel.chosen = w.idx
	w.sel.val = v
	w.sel.ok = ok
	s.wake(w.sel.t)
}

// trySend attempts a non-blocking send.
func (s *scheduler) trySend(ch *vchan, v value) bool {
	if ch == nil {
		return false
	}
	if ch.closed {
		panic(targetPanic{"send on closed channel"})
	}
	if w := popWaiter(&ch.recvq); w != nil {
		s.complete(w, v, true)
		return true
	}
	if len(ch.buf) < ch.cap {
		ch.buf = append(ch.buf, v)
		return true
	}
	return false
}

// tryRecv attempts a non-blocking receive.
func (s *scheduler) tryRecv(ch *vchan) (value, bool, bool) {
	if ch == nil {
		return nil, false, false
	}
	if len(ch.buf) > 0 {
		v := ch.buf[0]
		ch.buf = ch.buf[1:]
		if w := popWaiter(&ch.sendq); w != nil {
			ch.buf = append(ch.buf, w.val)
			s.complete(w, nil, true)
		}
		return v, true, true
	}
	if w := popWaiter(&ch.sendq); w != nil {
		v := w.val
		s.complete(w, nil, true)
		return v, true, true
	}
	if ch.closed {
		return nil, false, true
	}
	return nil, false, false
}

func (s *scheduler) send(ch *vchan, v value) {
	s.schedPoint("chan send")
	if s.trySend(ch, v) {
		return
	}
	sel := &selState{t: s.cur}
	if ch != nil {
		ch.sendq = append(ch.sendq, &chanWaiter{sel: sel, val: v})
	}
	for !sel.done {
		s.block("chan send")
	}
	if sel.closed {
		panic(targetPanic{"send on closed channel"})
	}
}

// recv returns (value or nil when closed, ok).
func (s *scheduler) recv(ch *vchan) (value, bool) {
	s.schedPoint("chan recv")
	if v, ok, ready := s.tryRecv(ch); ready {
		return v, ok
	}
	sel := &selState{t: s.cur}
	if ch != nil {
		ch.recvq = append(ch.recvq, &chanWaiter{sel: sel})
	}
	for !sel.done {
		s.block("chan recv")
	}
	return sel.val, sel.ok
}

func (s *scheduler) closeChan(ch *vchan) {
	s.schedPoint("chan close")
	if ch == nil {
		panic(targetPanic{"close of nil channel"})
	}
	if ch.closed {
		panic(targetPanic{"close of closed channel"})
	}
	ch.closed = true
	for {
		w := popWaiter(&ch.recvq)
		if w == nil {
			break
		}
		s.complete(w, nil, false)
	}
	for {
		w := popWaiter(&ch.sendq)
		if w == nil {
			break
		}
		w.sel.closed = true
		s.complete(w, nil, false)
	}
}

type selCase struct {
	ch   *vchan
	send bool
	val  value
}

// selectOp implements select. It returns the chosen index (-1 = default),
// the received value (nil if closed) and recvOK.
func (s *scheduler) selectOp(cases []selCase, blocking bool) (int, value, bool) {
	s.schedPoint("select")
	// ready cases
	var ready []int
	for i, c := range cases {
		if c.ch == nil {
			continue
		}
		if c.send {
			if c.ch.closed || hasWaiter(c.ch.recvq) || len(c.ch.buf) < c.ch.cap {
				ready = append(ready, i)
			}
		} else {
			if len(c.ch.buf) > 0 || hasWaiter(c.ch.sendq) || c.ch.closed {
				ready = append(ready, i)
			}
		}
	}
	if len(ready) > 0 {
		k := 0
		if len(ready) > 1 && s.i.path.exp.cfg.SelectChoice {
			k = s.i.path.choose(len(ready), "select")
		}
		i := ready[k]
		c := cases[i]
		if c.send {
			if !s.trySend(c.ch, c.val) {
				panic("select: ready send failed")
			}
			return i, nil, false
		}
		v, ok, rdy := s.tryRecv(c.ch)
		if !rdy {
			panic("select: ready recv failed")
		}
		return i, v, ok
	}
	if !blocking {
		return -1, nil, false
	}
	sel := &selState{t: s.cur}
	for i, c := range cases {
		if c.ch == nil {
			continue
		}
		w := &chanWaiter{sel: sel, idx: i, val: c.val}
		if c.send {
			c.ch.sendq = append(c.ch.sendq, w)
		} else {
			c.ch.recvq = append(c.ch.recvq, w)
		}
	}
	for !sel.done {
		s.block("select")
	}
	if sel.closed && cases[sel.chosen].send {
		panic(targetPanic{"send on closed channel"})
	}
	return sel.chosen, sel.val, sel.ok
}
