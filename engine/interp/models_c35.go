package interp

// Engine extensions added for C35 (internal/redispartition):
//
//  1. If-conversion (state merging) of *pure* two-armed branches on a symbolic
//     condition, for an explicit list of functions. Without it the bit loop of
//     crc16 forks once per bit (2^24 paths for three symbolic bytes) and
//     SlotToNode forks once per tag. With it `if c { x = e1 } else { x = e2 }`
//     becomes x = ite(c, e1, e2) on one path, which is the same function of
//     the inputs (both arms are evaluated, neither can have an effect).
//     Accepted shapes (everything else falls back to ordinary forking):
//       - diamond: both successors have the branching block as only
//         predecessor, consist of pure scalar instructions and jump to the
//         same join block;
//       - triangle: one successor is the join block itself;
//       - return pair: both successors are pure and end in a single-result
//         scalar Return.
//     "Pure scalar instruction" = BinOp / UnOp (not load, not receive) /
//     Convert / ChangeType over scalars. A division whose divisor could be
//     zero under the current path condition makes the arm impure (so a
//     run-time panic of the real code is never masked or invented).
//
//  2. Width reduction of integer division/remainder whose operands are
//     provably small by a syntactic interval analysis of the term DAG
//     (e.g. 16384 / int(uint8 var)): the 64-bit bvsdiv is replaced by a
//     division on the needed number of bits, sign-extended. Purely a
//     solver-cost optimisation; equal as a function (see divNarrow).

import (
	"go/token"
	"go/types"
	"slices"

	"golang.org/x/tools/go/ssa"
)

// ifConvertFuncs lists the functions in which pure branches are merged.
var ifConvertFuncs = map[string]bool{
	"github.com/centrifugal/centrifuge/internal/redispartition.crc16":      true,
	"github.com/centrifugal/centrifuge/internal/redispartition.SlotToNode": true,
}

// pureArm reports whether block b (entered only from `from`) consists of pure
// scalar instructions followed by a Jump or a single-result Return.
func pureArm(b, from *ssa.BasicBlock) bool {
	if len(b.Preds) != 1 || b.Preds[0] != from || len(b.Instrs) == 0 {
		return false
	}
	for k, in := range b.Instrs {
		last := k == len(b.Instrs)-1
		switch in := in.(type) {
		case *ssa.DebugRef:
		case *ssa.BinOp:
			if !isBasicScalar(in.X.Type()) || !isBasicScalar(in.Y.Type()) {
				return false
			}
			if in.Op == token.SHL || in.Op == token.SHR {
				// a negative symbolic shift count panics: only constant counts
				if _, ok := in.Y.(*ssa.Const); !ok {
					return false
				}
			}
		case *ssa.UnOp:
			if in.Op == token.MUL || in.Op == token.ARROW || !isBasicScalar(in.X.Type()) {
				return false
			}
		case *ssa.Convert:
			if !isBasicScalar(in.X.Type()) || !isBasicScalar(in.Type()) {
				return false
			}
		case *ssa.ChangeType:
			if !isBasicScalar(in.X.Type()) {
				return false
			}
		case *ssa.Jump:
			return last
		case *ssa.Return:
			return last && len(in.Results) == 1 && isBasicScalar(in.Results[0].Type())
		default:
			return false
		}
		if last {
			return false
		}
	}
	return false
}

func isBasicScalar(t types.Type) bool {
	b, ok := t.Underlying().(*types.Basic)
	if !ok {
		return false
	}
	return b.Info()&(types.IsInteger|types.IsBoolean) != 0
}

// evalArm evaluates the non-terminator instructions of a pure arm into the
// frame's environment (SSA names are unique, so nothing is overwritten).
// It gives up (false) when a division's divisor may be zero.
func (i *interpreter) evalArm(fr *frame, b *ssa.BasicBlock) bool {
	for _, in := range b.Instrs[:len(b.Instrs)-1] {
		if bo, ok := in.(*ssa.BinOp); ok && (bo.Op == token.QUO || bo.Op == token.REM) {
			y := fr.get(bo.Y)
			if s, ok := y.(sym); ok {
				p := i.path
				z := p.tc.eq(s.t, p.tc.bv(0, s.t.w))
				if z.isConst() && z.k != 0 {
					return false
				}
				if !z.isConst() {
					if p.eval(z) != 0 {
						return false
					}
					if sat, _ := p.query(z); sat {
						return false
					}
				}
			} else if _, ok := kindOf(y); !ok || scalarBits(y) == 0 {
				return false
			}
		}
		if _, ok := in.(*ssa.DebugRef); ok {
			continue
		}
		visitInstr(fr, in)
	}
	return true
}

func (i *interpreter) iteValue(c *term, a, b value) (value, bool) {
	ka, oka := kindOf(a)
	kb, okb := kindOf(b)
	if !oka || !okb || ka != kb {
		return nil, false
	}
	tc := i.path.tc
	return mkVal(ka, tc.ite(c, tc.termOf(a), tc.termOf(b))), true
}

// ifConvert tries to execute the If instruction at the end of fr.block as a
// merge. It returns (continuation, true) when it did.
func (i *interpreter) ifConvert(fr *frame, instr *ssa.If, cond sym) (continuation, bool) {
	if !ifConvertFuncs[fnKey(fr.fn)] {
		return 0, false
	}
	here := fr.block
	tb, fb := here.Succs[0], here.Succs[1]
	if tb == fb {
		return 0, false
	}
	tPure, fPure := pureArm(tb, here), pureArm(fb, here)

	// return pair
	if tPure && fPure {
		rt, okT := tb.Instrs[len(tb.Instrs)-1].(*ssa.Return)
		rf, okF := fb.Instrs[len(fb.Instrs)-1].(*ssa.Return)
		if okT && okF {
			if !i.evalArm(fr, tb) || !i.evalArm(fr, fb) {
				return 0, false
			}
			v, ok := i.iteValue(cond.t, fr.get(rt.Results[0]), fr.get(rf.Results[0]))
			if !ok {
				return 0, false
			}
			i.models["gosym.if-conversion"]++
			fr.result = v
			fr.block = nil
			return kReturn, true
		}
		if okT || okF {
			return 0, false
		}
	}

	// diamond / triangle
	var join *ssa.BasicBlock
	var predT, predF *ssa.BasicBlock // predecessor of join on the true / false side
	switch {
	case tPure && fPure && tb.Succs[0] == fb.Succs[0]:
		join, predT, predF = tb.Succs[0], tb, fb
	case tPure && len(tb.Succs) == 1 && tb.Succs[0] == fb:
		join, predT, predF = fb, tb, here
	case fPure && len(fb.Succs) == 1 && fb.Succs[0] == tb:
		join, predT, predF = tb, here, fb
	default:
		return 0, false
	}
	if join == here {
		return 0, false
	}
	idxT, idxF := slices.Index(join.Preds, predT), slices.Index(join.Preds, predF)
	if idxT < 0 || idxF < 0 || idxT == idxF {
		return 0, false
	}
	// all phis of the join must merge scalars
	var phis []*ssa.Phi
	first := 0
	for k, in := range join.Instrs {
		ph, ok := in.(*ssa.Phi)
		if !ok {
			first = k
			break
		}
		if !isBasicScalar(ph.Type()) {
			return 0, false
		}
		phis = append(phis, ph)
	}
	if predT != here && !i.evalArm(fr, predT) {
		return 0, false
	}
	if predF != here && !i.evalArm(fr, predF) {
		return 0, false
	}
	merged := make([]value, len(phis))
	for k, ph := range phis {
		v, ok := i.iteValue(cond.t, fr.get(ph.Edges[idxT]), fr.get(ph.Edges[idxF]))
		if !ok {
			return 0, false
		}
		merged[k] = v
	}
	for k, ph := range phis {
		fr.env[ph] = merged[k]
	}
	i.models["gosym.if-conversion"]++
	// continue with the non-phi part of the join block
	if join.Index <= here.Index {
		fr.backedges++
	}
	fr.prevBlock, fr.block = predT, join
	p := i.path
	rest := join.Instrs[first:]
	p.steps += int64(len(rest))
	if p.steps > i.exp.cfg.MaxSteps {
		p.abort(pathLimit, "step limit %d exceeded", i.exp.cfg.MaxSteps)
	}
	for _, in := range rest {
		switch visitInstr(fr, in) {
		case kReturn:
			return kReturn, true
		case kJump:
			return kJump, true
		}
	}
	panic("ifConvert: join block without terminator")
}

// ---------------------------------------------------------------------------
// interval analysis and division narrowing

type ival struct{ lo, hi int64 }

const ivalLimit = int64(1) << 40 // intervals are only tracked inside (-2^40, 2^40)

// rangeOf returns an interval containing the SIGNED value of t (sign-extended
// from t.w bits) for every assignment, or false when nothing useful is known.
func rangeOf(t *term, depth int) (ival, bool) {
	if t.w == 0 || depth > 24 {
		return ival{}, false
	}
	clamp := func(lo, hi int64) (ival, bool) {
		if lo > hi || lo <= -ivalLimit || hi >= ivalLimit {
			return ival{}, false
		}
		// must be representable at width w, otherwise wrap-around is possible
		if t.w < 64 {
			min, max := -(int64(1) << (t.w - 1)), (int64(1)<<(t.w-1))-1
			if lo < min || hi > max {
				return ival{}, false
			}
		}
		return ival{lo, hi}, true
	}
	switch t.op {
	case opConst:
		v := sext64(t.k, t.w)
		return clamp(v, v)
	case opVar:
		if t.w <= 32 {
			return clamp(-(int64(1) << (t.w - 1)), (int64(1)<<(t.w-1))-1)
		}
		return ival{}, false
	case opZext:
		if t.a.w >= 40 {
			return ival{}, false
		}
		if r, ok := rangeOf(t.a, depth+1); ok && r.lo >= 0 {
			return clamp(r.lo, r.hi)
		}
		return clamp(0, (int64(1)<<t.a.w)-1)
	case opSext:
		if r, ok := rangeOf(t.a, depth+1); ok {
			return clamp(r.lo, r.hi)
		}
		return ival{}, false
	case opExtract:
		// low bits of a value that fits (signed) in those bits: unchanged
		if t.k&0xff == 0 {
			if r, ok := rangeOf(t.a, depth+1); ok {
				return clamp(r.lo, r.hi)
			}
		}
		return ival{}, false
	case opIte:
		a, ok1 := rangeOf(t.b, depth+1)
		b, ok2 := rangeOf(t.c, depth+1)
		if !ok1 || !ok2 {
			return ival{}, false
		}
		return clamp(min(a.lo, b.lo), max(a.hi, b.hi))
	case opAdd, opSub, opMul, opSdiv, opSrem, opUdiv, opUrem:
		a, ok1 := rangeOf(t.a, depth+1)
		b, ok2 := rangeOf(t.b, depth+1)
		if !ok1 || !ok2 {
			return ival{}, false
		}
		switch t.op {
		case opAdd:
			return clamp(a.lo+b.lo, a.hi+b.hi)
		case opSub:
			return clamp(a.lo-b.hi, a.hi-b.lo)
		case opMul:
			if max(-a.lo, a.hi) >= 1<<20 || max(-b.lo, b.hi) >= 1<<20 {
				return ival{}, false
			}
			p := []int64{a.lo * b.lo, a.lo * b.hi, a.hi * b.lo, a.hi * b.hi}
			return clamp(slices.Min(p), slices.Max(p))
		case opSdiv:
			// |x/y| <= |x| for y != 0; bvsdiv by zero gives 1 or -1
			switch {
			case b.lo >= 1:
				return clamp(min(a.lo, 0), max(a.hi, 0))
			case b.lo >= 0:
				return clamp(min(a.lo, -1), max(a.hi, 1))
			}
			m := max(a.hi, -a.lo, 1)
			return clamp(-m, m)
		case opSrem:
			// sign of x, |r| <= |x|, |r| < |y|; bvsrem by zero gives x
			if b.lo >= 1 {
				return clamp(max(min(a.lo, 0), -(b.hi-1)), min(max(a.hi, 0), b.hi-1))
			}
			return clamp(min(a.lo, 0), max(a.hi, 0))
		case opUdiv:
			if a.lo >= 0 && b.lo >= 1 {
				return clamp(0, a.hi)
			}
		case opUrem:
			if a.lo >= 0 && b.lo >= 0 {
				return clamp(0, a.hi)
			}
		}
	}
	return ival{}, false
}

// divNarrow builds x op y (op one of bvsdiv, bvsrem, bvudiv, bvurem) at the
// smallest sufficient width when both operands have known small ranges:
//
//	signed:   sdiv_W(x,y) = sext_W(sdiv_n(x[n-1:0], y[n-1:0]))  if -2^(n-1) < x,y < 2^(n-1)
//	unsigned: same with zext when 0 <= x,y < 2^(n-1)
//
// (the quotient's magnitude is at most |x| and the remainder's at most |x|;
// the excluded value -2^(n-1) rules out the overflowing quotient; for y = 0
// SMT-LIB fixes the results to ±1 resp. x at every width, which commute with
// the extension as well).
func (c *tctx) divNarrow(op opcode, x, y *term) *term {
	if x.w < 16 || (x.isConst() && y.isConst()) {
		return c.bin(op, x, y)
	}
	rx, ok1 := rangeOf(x, 0)
	ry, ok2 := rangeOf(y, 0)
	if !ok1 || !ok2 {
		return c.bin(op, x, y)
	}
	signed := op == opSdiv || op == opSrem
	if !signed && (rx.lo < 0 || ry.lo < 0) {
		return c.bin(op, x, y)
	}
	m := max(rx.hi, ry.hi, -rx.lo, -ry.lo)
	n := uint8(2)
	for int64(1)<<(n-1) <= m {
		n++
	}
	// now -2^(n-1) < lo and hi < 2^(n-1)
	if n+8 > x.w {
		return c.bin(op, x, y)
	}
	r := c.bin(op, c.extract(x, n-1, 0), c.extract(y, n-1, 0))
	if signed {
		return c.sextT(r, x.w)
	}
	return c.zext(r, x.w)
}
