package interp

// Models added for C33 (Redis PUB/SUB payload parsing).
//
//   - strconv's error path clones the offending string through
//     internal/stringslite.Clone, which is written with unsafe.String; strings
//     are immutable values here, so a clone is the identity.
//   - (*strconv.NumError).Error quotes the offending string with strconv.Quote.
//     Quoting a symbolic string forks on every byte class (printable, escape,
//     UTF-8 length, ...) although the text only ends up in an error message.
//     Like the fmt models, Quote is given approximate text: the string between
//     double quotes, without escaping.
func init() {
	externals["internal/stringslite.Clone"] = func(fr *frame, a []value) value { return a[0] }
	externals["strconv.Quote"] = func(fr *frame, a []value) value {
		return strConcat(strConcat("\"", a[0]), "\"")
	}
}
