package interp

import (
	"go/types"

	"golang.org/x/tools/go/ssa"
)

// Models needed by property C15 (internal/filter).
//
// github.com/quagmt/udecimal converts its string argument to []byte through
// unsafe.Slice(unsafe.StringData(s), len(s)); the parser only reads the
// bytes, so the same copy model as internal/convert.StringToBytes is exact.

func init() {
	externals["github.com/quagmt/udecimal.unsafeStringToBytes"] = func(fr *frame, a []value) value { return strBytes(a[0]) }
}

// lookupMethodOpt is (*ssa.Program).LookupMethod for an exported method name
// that returns nil instead of panicking when the type has no such method
// (fmt.Errorf("... %d", uint8(19)) in udecimal's package initialiser reached
// the panic through fmtArg).
func (i *interpreter) lookupMethodOpt(t types.Type, name string) *ssa.Function {
	sel := i.prog.MethodSets.MethodSet(t).Lookup(nil, name)
	if sel == nil {
		return nil
	}
	return i.prog.MethodValue(sel)
}
