// Copyright 2013 The Go Authors. All rights reserved.
// Use of this source code is governed by a BSD-style
// license that can be found in the LICENSE file.

package interp

import (
	"bytes"
	"fmt"
	"go/constant"
	"go/token"
	"go/types"
	"os"
	"unicode/utf8"
	"unsafe"

	"golang.org/x/tools/go/ssa"
)

// If the target program panics, the interpreter panics with this type.
type targetPanic struct {
	v value
}

func (p targetPanic) String() string {
	return toString(p.v)
}

// If the target program calls exit, the interpreter panics with this type.
type exitPanic int

// constValue returns the value of the constant with the
// dynamic type tag appropriate for c.Type().
func constValue(c *ssa.Const) value {
	if c.Value == nil {
		return zero(c.Type()) // typed zero
	}
	// c is not a type parameter so it's underlying type is basic.

	if t, ok := c.Type().Underlying().(*types.Basic); ok {
		// TODO(adonovan): eliminate untyped constants from SSA form.
		switch t.Kind() {
		case types.Bool, types.UntypedBool:
			return constant.BoolVal(c.Value)
		case types.Int, types.UntypedInt:
			// Assume sizeof(int) is same on host and target.
			return int(c.Int64())
		case types.Int8:
			return int8(c.Int64())
		case types.Int16:
			return int16(c.Int64())
		case types.Int32, types.UntypedRune:
			return int32(c.Int64())
		case types.Int64:
			return c.Int64()
		case types.Uint:
			// Assume sizeof(uint) is same on host and target.
			return uint(c.Uint64())
		case types.Uint8:
			return uint8(c.Uint64())
		case types.Uint16:
			return uint16(c.Uint64())
		case types.Uint32:
			return uint32(c.Uint64())
		case types.Uint64:
			return c.Uint64()
		case types.Uintptr:
			// Assume sizeof(uintptr) is same on host and target.
			return uintptr(c.Uint64())
		case types.Float32:
			return float32(c.Float64())
		case types.Float64, types.UntypedFloat:
			return c.Float64()
		case types.Complex64:
			return complex64(c.Complex128())
		case types.Complex128, types.UntypedComplex:
			return c.Complex128()
		case types.String, types.UntypedString:
			if c.Value.Kind() == constant.String {
				return constant.StringVal(c.Value)
			}
			return string(rune(c.Int64()))
		}
	}

	panic(fmt.Sprintf("constValue: %s", c))
}

// fitsInt returns true if x fits in type int according to sizes.
func fitsInt(x int64, sizes types.Sizes) bool {
	intSize := sizes.Sizeof(types.Typ[types.Int])
	if intSize < sizes.Sizeof(types.Typ[types.Int64]) {
		maxInt := int64(1)<<((intSize*8)-1) - 1
		minInt := -int64(1) << ((intSize * 8) - 1)
		return minInt <= x && x <= maxInt
	}
	return true
}

// asInt64 converts x, which must be an integer, to an int64.
//
// Callers that need a value directly usable as an int should combine this with fitsInt().
func asInt64(x value) int64 {
	switch x := x.(type) {
	case int:
		return int64(x)
	case int8:
		return int64(x)
	case int16:
		return int64(x)
	case int32:
		return int64(x)
	case int64:
		return x
	case uint:
		return int64(x)
	case uint8:
		return int64(x)
	case uint16:
		return int64(x)
	case uint32:
		return int64(x)
	case uint64:
		return int64(x)
	case uintptr:
		return int64(x)
	}
	panic(fmt.Sprintf("cannot convert %T to int64", x))
}

// asUint64 converts x, which must be an unsigned integer, to a uint64
// suitable for use as a bitwise shift count.
func asUint64(x value) uint64 {
	switch x := x.(type) {
	case uint:
		return uint64(x)
	case uint8:
		return uint64(x)
	case uint16:
		return uint64(x)
	case uint32:
		return uint64(x)
	case uint64:
		return x
	case uintptr:
		return uint64(x)
	}
	panic(fmt.Sprintf("cannot convert %T to uint64", x))
}

// asUnsigned returns the value of x, which must be an integer type, as its equivalent unsigned type,
// and returns true if x is non-negative.
func asUnsigned(x value) (value, bool) {
	switch x := x.(type) {
	case int:
		return uint(x), x >= 0
	case int8:
		return uint8(x), x >= 0
	case int16:
		return uint16(x), x >= 0
	case int32:
		return uint32(x), x >= 0
	case int64:
		return uint64(x), x >= 0
	case uint, uint8, uint32, uint64, uintptr:
		return x, true
	}
	panic(fmt.Sprintf("cannot convert %T to unsigned", x))
}

// zero returns a new "zero" value of the specified type.
func zero(t types.Type) value {
	switch t := t.(type) {
	case *types.Basic:
		if t.Kind() == types.UntypedNil {
			panic("untyped nil has no zero value")
		}
		if t.Info()&types.IsUntyped != 0 {
			// TODO(adonovan): make it an invariant that
			// this is unreachable.  Currently some
			// constants have 'untyped' types when they
			// should be defaulted by the typechecker.
			t = types.Default(t).(*types.Basic)
		}
		switch t.Kind() {
		case types.Bool:
			return false
		case types.Int:
			return int(0)
		case types.Int8:
			return int8(0)
		case types.Int16:
			return int16(0)
		case types.Int32:
			return int32(0)
		case types.Int64:
			return int64(0)
		case types.Uint:
			return uint(0)
		case types.Uint8:
			return uint8(0)
		case types.Uint16:
			return uint16(0)
		case types.Uint32:
			return uint32(0)
		case types.Uint64:
			return uint64(0)
		case types.Uintptr:
			return uintptr(0)
		case types.Float32:
			return float32(0)
		case types.Float64:
			return float64(0)
		case types.Complex64:
			return complex64(0)
		case types.Complex128:
			return complex128(0)
		case types.String:
			return ""
		case types.UnsafePointer:
			return unsafe.Pointer(nil)
		default:
			panic(fmt.Sprint("zero for unexpected type:", t))
		}
	case *types.Pointer:
		return (*value)(nil)
	case *types.Array:
		a := make(array, t.Len())
		for i := range a {
			a[i] = zero(t.Elem())
		}
		return a
	case *types.Named:
		return zero(t.Underlying())
	case *types.Alias:
		return zero(types.Unalias(t))
	case *types.Interface:
		return iface{} // nil type, methodset and value
	case *types.Slice:
		return []value(nil)
	case *types.Struct:
		s := make(structure, t.NumFields())
		for i := range s {
			s[i] = zero(t.Field(i).Type())
		}
		return s
	case *types.Tuple:
		if t.Len() == 1 {
			return zero(t.At(0).Type())
		}
		s := make(tuple, t.Len())
		for i := range s {
			s[i] = zero(t.At(i).Type())
		}
		return s
	case *types.Chan:
		return (*vchan)(nil)
	case *types.Map:
		return (*smap)(nil)
	case *types.Signature:
		return (*ssa.Function)(nil)
	}
	panic(fmt.Sprint("zero: unexpected ", t))
}

// slice returns x[lo:hi:max].  Any of lo, hi and max may be nil.
// Bounds are checked explicitly; symbolic bounds are checked by the solver
// and then concretized.
func (i *interpreter) slice(x, lo, hi, max value) value {
	var Len, Cap int
	isString := false
	switch x := x.(type) {
	case string:
		Len = len(x)
		Cap = Len
		isString = true
	case sstr:
		Len = len(x)
		Cap = Len
		isString = true
	case []value:
		Len = len(x)
		Cap = cap(x)
	case *value: // *array
		if x == nil {
			nilDeref()
		}
		a := (*x).(array)
		Len = len(a)
		Cap = cap(a)
	default:
		panic(fmt.Sprintf("slice: unexpected X type: %T", x))
	}

	// Go checks: 0 <= lo <= hi <= max <= cap (for strings hi <= len).
	limit := Cap
	var lv, hv, mv value = int(0), int(Len), int(Cap)
	if lo != nil {
		lv = lo
	}
	if hi != nil {
		hv = hi
	}
	if max != nil {
		mv = max
	}
	anySym := isSym(lv) || isSym(hv) || isSym(mv)
	if anySym {
		c := i.path.tc
		tl, th, tm := i.asInt64Term(lv), i.asInt64Term(hv), i.asInt64Term(mv)
		ok := c.and(c.cmp(opSle, c.bv(0, 64), tl), c.and(c.cmp(opSle, tl, th), c.and(c.cmp(opSle, th, tm), c.cmp(opSle, tm, c.bv(uint64(limit), 64)))))
		i.path.implicit++
		if !i.path.branch(ok) {
			panic(targetPanic{runtimeError("slice bounds out of range")})
		}
	}
	l, h, m := i.concInt(lv), i.concInt(hv), i.concInt(mv)
	if !(0 <= l && l <= h && h <= m && m <= int64(limit)) {
		panic(targetPanic{runtimeError(fmt.Sprintf("slice bounds out of range [%d:%d:%d] with capacity %d", l, h, m, limit))})
	}
	_ = isString
	switch x := x.(type) {
	case string:
		return x[l:h]
	case sstr:
		return mkStr(x[l:h])
	case []value:
		if x == nil {
			return x
		}
		return x[l:h:m]
	case *value: // *array
		a := (*x).(array)
		return []value(a)[l:h:m]
	}
	panic("unreachable")
}

// asInt64Term returns the 64-bit (sign- or zero-extended) term of an integer.
func (i *interpreter) asInt64Term(x value) *term {
	c := i.path.tc
	if s, ok := x.(sym); ok {
		if s.t.w == 64 {
			return s.t
		}
		if kindSigned(s.k) {
			return c.sextT(s.t, 64)
		}
		return c.zext(s.t, 64)
	}
	return c.bv(uint64(asInt64(x)), 64)
}

// lookup returns x[idx] where x is a map.
func (i *interpreter) lookup(instr *ssa.Lookup, x, idx value) value {
	switch x := x.(type) {
	case *smap:
		var v value
		k := i.mapFind(x, idx)
		ok := k >= 0
		if ok {
			v = x.vals[k]
		} else {
			v = zero(instr.X.Type().Underlying().(*types.Map).Elem())
		}
		if instr.CommaOk {
			v = tuple{v, ok}
		}
		return v
	case string, sstr:
		return i.indexString(x, idx)
	}
	panic(fmt.Sprintf("unexpected x type in Lookup: %T", x))
}

// binop implements all arithmetic and logical binary operators for
// numeric datatypes and strings.  Both operands must have identical
// dynamic type.
func (i *interpreter) binop(op token.Token, t types.Type, x, y value) value {
	if isSym(x) || isSym(y) {
		return i.symBinop(op, x, y)
	}
	if isStr(x) && isStr(y) {
		if _, ok := x.(sstr); ok || func() bool { _, ok := y.(sstr); return ok }() {
			switch op {
			case token.ADD:
				return strConcat(x, y)
			case token.EQL:
				return i.strEq(x, y)
			case token.NEQ:
				return i.vnot(i.strEq(x, y))
			case token.LSS:
				return i.strLess(x, y)
			case token.GTR:
				return i.strLess(y, x)
			case token.LEQ:
				return i.vnot(i.strLess(y, x))
			case token.GEQ:
				return i.vnot(i.strLess(x, y))
			}
		}
	}
	switch op {
	case token.QUO, token.REM:
		if _, ok := kindOf(y); ok && scalarBits(y) == 0 {
			panic(targetPanic{runtimeError("integer divide by zero")})
		}
	}
	switch op {
	case token.ADD:
		switch x.(type) {
		case int:
			return x.(int) + y.(int)
		case int8:
			return x.(int8) + y.(int8)
		case int16:
			return x.(int16) + y.(int16)
		case int32:
			return x.(int32) + y.(int32)
		case int64:
			return x.(int64) + y.(int64)
		case uint:
			return x.(uint) + y.(uint)
		case uint8:
			return x.(uint8) + y.(uint8)
		case uint16:
			return x.(uint16) + y.(uint16)
		case uint32:
			return x.(uint32) + y.(uint32)
		case uint64:
			return x.(uint64) + y.(uint64)
		case uintptr:
			return x.(uintptr) + y.(uintptr)
		case float32:
			return x.(float32) + y.(float32)
		case float64:
			return x.(float64) + y.(float64)
		case complex64:
			return x.(complex64) + y.(complex64)
		case complex128:
			return x.(complex128) + y.(complex128)
		case string:
			return x.(string) + y.(string)
		}

	case token.SUB:
		switch x.(type) {
		case int:
			return x.(int) - y.(int)
		case int8:
			return x.(int8) - y.(int8)
		case int16:
			return x.(int16) - y.(int16)
		case int32:
			return x.(int32) - y.(int32)
		case int64:
			return x.(int64) - y.(int64)
		case uint:
			return x.(uint) - y.(uint)
		case uint8:
			return x.(uint8) - y.(uint8)
		case uint16:
			return x.(uint16) - y.(uint16)
		case uint32:
			return x.(uint32) - y.(uint32)
		case uint64:
			return x.(uint64) - y.(uint64)
		case uintptr:
			return x.(uintptr) - y.(uintptr)
		case float32:
			return x.(float32) - y.(float32)
		case float64:
			return x.(float64) - y.(float64)
		case complex64:
			return x.(complex64) - y.(complex64)
		case complex128:
			return x.(complex128) - y.(complex128)
		}

	case token.MUL:
		switch x.(type) {
		case int:
			return x.(int) * y.(int)
		case int8:
			return x.(int8) * y.(int8)
		case int16:
			return x.(int16) * y.(int16)
		case int32:
			return x.(int32) * y.(int32)
		case int64:
			return x.(int64) * y.(int64)
		case uint:
			return x.(uint) * y.(uint)
		case uint8:
			return x.(uint8) * y.(uint8)
		case uint16:
			return x.(uint16) * y.(uint16)
		case uint32:
			return x.(uint32) * y.(uint32)
		case uint64:
			return x.(uint64) * y.(uint64)
		case uintptr:
			return x.(uintptr) * y.(uintptr)
		case float32:
			return x.(float32) * y.(float32)
		case float64:
			return x.(float64) * y.(float64)
		case complex64:
			return x.(complex64) * y.(complex64)
		case complex128:
			return x.(complex128) * y.(complex128)
		}

	case token.QUO:
		switch x.(type) {
		case int:
			return x.(int) / y.(int)
		case int8:
			return x.(int8) / y.(int8)
		case int16:
			return x.(int16) / y.(int16)
		case int32:
			return x.(int32) / y.(int32)
		case int64:
			return x.(int64) / y.(int64)
		case uint:
			return x.(uint) / y.(uint)
		case uint8:
			return x.(uint8) / y.(uint8)
		case uint16:
			return x.(uint16) / y.(uint16)
		case uint32:
			return x.(uint32) / y.(uint32)
		case uint64:
			return x.(uint64) / y.(uint64)
		case uintptr:
			return x.(uintptr) / y.(uintptr)
		case float32:
			return x.(float32) / y.(float32)
		case float64:
			return x.(float64) / y.(float64)
		case complex64:
			return x.(complex64) / y.(complex64)
		case complex128:
			return x.(complex128) / y.(complex128)
		}

	case token.REM:
		switch x.(type) {
		case int:
			return x.(int) % y.(int)
		case int8:
			return x.(int8) % y.(int8)
		case int16:
			return x.(int16) % y.(int16)
		case int32:
			return x.(int32) % y.(int32)
		case int64:
			return x.(int64) % y.(int64)
		case uint:
			return x.(uint) % y.(uint)
		case uint8:
			return x.(uint8) % y.(uint8)
		case uint16:
			return x.(uint16) % y.(uint16)
		case uint32:
			return x.(uint32) % y.(uint32)
		case uint64:
			return x.(uint64) % y.(uint64)
		case uintptr:
			return x.(uintptr) % y.(uintptr)
		}

	case token.AND:
		switch x.(type) {
		case int:
			return x.(int) & y.(int)
		case int8:
			return x.(int8) & y.(int8)
		case int16:
			return x.(int16) & y.(int16)
		case int32:
			return x.(int32) & y.(int32)
		case int64:
			return x.(int64) & y.(int64)
		case uint:
			return x.(uint) & y.(uint)
		case uint8:
			return x.(uint8) & y.(uint8)
		case uint16:
			return x.(uint16) & y.(uint16)
		case uint32:
			return x.(uint32) & y.(uint32)
		case uint64:
			return x.(uint64) & y.(uint64)
		case uintptr:
			return x.(uintptr) & y.(uintptr)
		}

	case token.OR:
		switch x.(type) {
		case int:
			return x.(int) | y.(int)
		case int8:
			return x.(int8) | y.(int8)
		case int16:
			return x.(int16) | y.(int16)
		case int32:
			return x.(int32) | y.(int32)
		case int64:
			return x.(int64) | y.(int64)
		case uint:
			return x.(uint) | y.(uint)
		case uint8:
			return x.(uint8) | y.(uint8)
		case uint16:
			return x.(uint16) | y.(uint16)
		case uint32:
			return x.(uint32) | y.(uint32)
		case uint64:
			return x.(uint64) | y.(uint64)
		case uintptr:
			return x.(uintptr) | y.(uintptr)
		}

	case token.XOR:
		switch x.(type) {
		case int:
			return x.(int) ^ y.(int)
		case int8:
			return x.(int8) ^ y.(int8)
		case int16:
			return x.(int16) ^ y.(int16)
		case int32:
			return x.(int32) ^ y.(int32)
		case int64:
			return x.(int64) ^ y.(int64)
		case uint:
			return x.(uint) ^ y.(uint)
		case uint8:
			return x.(uint8) ^ y.(uint8)
		case uint16:
			return x.(uint16) ^ y.(uint16)
		case uint32:
			return x.(uint32) ^ y.(uint32)
		case uint64:
			return x.(uint64) ^ y.(uint64)
		case uintptr:
			return x.(uintptr) ^ y.(uintptr)
		}

	case token.AND_NOT:
		switch x.(type) {
		case int:
			return x.(int) &^ y.(int)
		case int8:
			return x.(int8) &^ y.(int8)
		case int16:
			return x.(int16) &^ y.(int16)
		case int32:
			return x.(int32) &^ y.(int32)
		case int64:
			return x.(int64) &^ y.(int64)
		case uint:
			return x.(uint) &^ y.(uint)
		case uint8:
			return x.(uint8) &^ y.(uint8)
		case uint16:
			return x.(uint16) &^ y.(uint16)
		case uint32:
			return x.(uint32) &^ y.(uint32)
		case uint64:
			return x.(uint64) &^ y.(uint64)
		case uintptr:
			return x.(uintptr) &^ y.(uintptr)
		}

	case token.SHL:
		u, ok := asUnsigned(y)
		if !ok {
			panic(targetPanic{runtimeError("negative shift amount")})
		}
		y := asUint64(u)
		switch x.(type) {
		case int:
			return x.(int) << y
		case int8:
			return x.(int8) << y
		case int16:
			return x.(int16) << y
		case int32:
			return x.(int32) << y
		case int64:
			return x.(int64) << y
		case uint:
			return x.(uint) << y
		case uint8:
			return x.(uint8) << y
		case uint16:
			return x.(uint16) << y
		case uint32:
			return x.(uint32) << y
		case uint64:
			return x.(uint64) << y
		case uintptr:
			return x.(uintptr) << y
		}

	case token.SHR:
		u, ok := asUnsigned(y)
		if !ok {
			panic(targetPanic{runtimeError("negative shift amount")})
		}
		y := asUint64(u)
		switch x.(type) {
		case int:
			return x.(int) >> y
		case int8:
			return x.(int8) >> y
		case int16:
			return x.(int16) >> y
		case int32:
			return x.(int32) >> y
		case int64:
			return x.(int64) >> y
		case uint:
			return x.(uint) >> y
		case uint8:
			return x.(uint8) >> y
		case uint16:
			return x.(uint16) >> y
		case uint32:
			return x.(uint32) >> y
		case uint64:
			return x.(uint64) >> y
		case uintptr:
			return x.(uintptr) >> y
		}

	case token.LSS:
		switch x.(type) {
		case int:
			return x.(int) < y.(int)
		case int8:
			return x.(int8) < y.(int8)
		case int16:
			return x.(int16) < y.(int16)
		case int32:
			return x.(int32) < y.(int32)
		case int64:
			return x.(int64) < y.(int64)
		case uint:
			return x.(uint) < y.(uint)
		case uint8:
			return x.(uint8) < y.(uint8)
		case uint16:
			return x.(uint16) < y.(uint16)
		case uint32:
			return x.(uint32) < y.(uint32)
		case uint64:
			return x.(uint64) < y.(uint64)
		case uintptr:
			return x.(uintptr) < y.(uintptr)
		case float32:
			return x.(float32) < y.(float32)
		case float64:
			return x.(float64) < y.(float64)
		case string:
			return x.(string) < y.(string)
		}

	case token.LEQ:
		switch x.(type) {
		case int:
			return x.(int) <= y.(int)
		case int8:
			return x.(int8) <= y.(int8)
		case int16:
			return x.(int16) <= y.(int16)
		case int32:
			return x.(int32) <= y.(int32)
		case int64:
			return x.(int64) <= y.(int64)
		case uint:
			return x.(uint) <= y.(uint)
		case uint8:
			return x.(uint8) <= y.(uint8)
		case uint16:
			return x.(uint16) <= y.(uint16)
		case uint32:
			return x.(uint32) <= y.(uint32)
		case uint64:
			return x.(uint64) <= y.(uint64)
		case uintptr:
			return x.(uintptr) <= y.(uintptr)
		case float32:
			return x.(float32) <= y.(float32)
		case float64:
			return x.(float64) <= y.(float64)
		case string:
			return x.(string) <= y.(string)
		}

	case token.EQL:
		return i.eqv(t, x, y)

	case token.NEQ:
		return i.vnot(i.eqv(t, x, y))

	case token.GTR:
		switch x.(type) {
		case int:
			return x.(int) > y.(int)
		case int8:
			return x.(int8) > y.(int8)
		case int16:
			return x.(int16) > y.(int16)
		case int32:
			return x.(int32) > y.(int32)
		case int64:
			return x.(int64) > y.(int64)
		case uint:
			return x.(uint) > y.(uint)
		case uint8:
			return x.(uint8) > y.(uint8)
		case uint16:
			return x.(uint16) > y.(uint16)
		case uint32:
			return x.(uint32) > y.(uint32)
		case uint64:
			return x.(uint64) > y.(uint64)
		case uintptr:
			return x.(uintptr) > y.(uintptr)
		case float32:
			return x.(float32) > y.(float32)
		case float64:
			return x.(float64) > y.(float64)
		case string:
			return x.(string) > y.(string)
		}

	case token.GEQ:
		switch x.(type) {
		case int:
			return x.(int) >= y.(int)
		case int8:
			return x.(int8) >= y.(int8)
		case int16:
			return x.(int16) >= y.(int16)
		case int32:
			return x.(int32) >= y.(int32)
		case int64:
			return x.(int64) >= y.(int64)
		case uint:
			return x.(uint) >= y.(uint)
		case uint8:
			return x.(uint8) >= y.(uint8)
		case uint16:
			return x.(uint16) >= y.(uint16)
		case uint32:
			return x.(uint32) >= y.(uint32)
		case uint64:
			return x.(uint64) >= y.(uint64)
		case uintptr:
			return x.(uintptr) >= y.(uintptr)
		case float32:
			return x.(float32) >= y.(float32)
		case float64:
			return x.(float64) >= y.(float64)
		case string:
			return x.(string) >= y.(string)
		}
	}
	panic(fmt.Sprintf("invalid binary op: %T %s %T", x, op, y))
}

func (i *interpreter) unop(instr *ssa.UnOp, x value) value {
	if s, ok := x.(sym); ok {
		return i.symUnop(instr.Op, s)
	}
	switch instr.Op {
	case token.ARROW: // receive
		ch, _ := x.(*vchan)
		v, ok := i.sched.recv(ch)
		if !ok {
			v = zero(instr.X.Type().Underlying().(*types.Chan).Elem())
		}
		if instr.CommaOk {
			v = tuple{v, ok}
		}
		return v
	case token.SUB:
		switch x := x.(type) {
		case int:
			return -x
		case int8:
			return -x
		case int16:
			return -x
		case int32:
			return -x
		case int64:
			return -x
		case uint:
			return -x
		case uint8:
			return -x
		case uint16:
			return -x
		case uint32:
			return -x
		case uint64:
			return -x
		case uintptr:
			return -x
		case float32:
			return -x
		case float64:
			return -x
		case complex64:
			return -x
		case complex128:
			return -x
		}
	case token.MUL:
		switch p := x.(type) {
		case *value:
			if p == nil {
				nilDeref()
			}
			return load(deref(instr.X.Type()), p)
		case *symref:
			return i.symLoad(p)
		}
		panic(fmt.Sprintf("load from %T", x))
	case token.NOT:
		return !x.(bool)
	case token.XOR:
		switch x := x.(type) {
		case int:
			return ^x
		case int8:
			return ^x
		case int16:
			return ^x
		case int32:
			return ^x
		case int64:
			return ^x
		case uint:
			return ^x
		case uint8:
			return ^x
		case uint16:
			return ^x
		case uint32:
			return ^x
		case uint64:
			return ^x
		case uintptr:
			return ^x
		}
	}
	panic(fmt.Sprintf("invalid unary op %s %T", instr.Op, x))
}

// typeAssert checks whether dynamic type of itf is instr.AssertedType.
// It returns the extracted value on success, and panics on failure,
// unless instr.CommaOk, in which case it always returns a "value,ok" tuple.
func typeAssert(instr *ssa.TypeAssert, itf iface) value {
	var v value
	err := ""
	if itf.t == nil {
		err = fmt.Sprintf("interface conversion: interface is nil, not %s", instr.AssertedType)

	} else if idst, ok := instr.AssertedType.Underlying().(*types.Interface); ok {
		v = itf
		err = checkInterface(idst, itf)

	} else if types.Identical(itf.t, instr.AssertedType) {
		v = itf.v // extract value

	} else {
		err = fmt.Sprintf("interface conversion: interface is %s, not %s", itf.t, instr.AssertedType)
	}
	// Note: if instr.Underlying==true ever becomes reachable from interp check that
	// types.Identical(itf.t.Underlying(), instr.AssertedType)

	if err != "" {
		if !instr.CommaOk {
			panic(targetPanic{runtimeError(err)})
		}
		return tuple{zero(instr.AssertedType), false}
	}
	if instr.CommaOk {
		return tuple{v, true}
	}
	return v
}

// callBuiltin interprets a call to builtin fn with arguments args,
// returning its result.
func callBuiltin(caller *frame, fn *ssa.Builtin, args []value) value {
	i := caller.i
	switch fn.Name() {
	case "append":
		if len(args) == 1 {
			return args[0]
		}
		if isStr(args[1]) {
			// append([]byte, ...string) []byte
			arg0 := args[0].([]value)
			return append(arg0, strBytes(args[1])...)
		}
		// append([]T, ...[]T) []T
		return append(args[0].([]value), args[1].([]value)...)

	case "copy": // copy([]T, []T) int or copy([]byte, string) int
		src := args[1]
		if isStr(src) {
			src = strBytes(src)
		}
		return copy(args[0].([]value), src.([]value))

	case "close": // close(chan T)
		ch, _ := args[0].(*vchan)
		i.sched.closeChan(ch)
		return nil

	case "delete": // delete(map[K]value, K)
		i.mapDelete(args[0].(*smap), args[1])
		return nil

	case "clear":
		switch x := args[0].(type) {
		case *smap:
			if x != nil {
				x.clear()
			}
		case []value:
			if len(x) > 0 {
				et := fn.Type().(*types.Signature).Params().At(0).Type().Underlying().(*types.Slice).Elem()
				for k := range x {
					x[k] = zero(et)
				}
			}
		}
		return nil

	case "print", "println": // print(any, ...)
		ln := fn.Name() == "println"
		var buf bytes.Buffer
		for i, arg := range args {
			if i > 0 && ln {
				buf.WriteRune(' ')
			}
			buf.WriteString(toString(arg))
		}
		if ln {
			buf.WriteRune('\n')
		}
		if i.exp.cfg.Verbose {
			os.Stderr.Write(buf.Bytes())
		}
		return nil

	case "len":
		switch x := args[0].(type) {
		case string:
			return len(x)
		case sstr:
			return len(x)
		case array:
			return len(x)
		case *value:
			return len((*x).(array))
		case []value:
			return len(x)
		case *smap:
			return x.length()
		case *vchan:
			if x == nil {
				return 0
			}
			return len(x.buf)
		default:
			panic(fmt.Sprintf("len: illegal operand: %T", x))
		}

	case "cap":
		switch x := args[0].(type) {
		case array:
			return cap(x)
		case *value:
			return cap((*x).(array))
		case []value:
			return cap(x)
		case *vchan:
			if x == nil {
				return 0
			}
			return x.cap
		default:
			panic(fmt.Sprintf("cap: illegal operand: %T", x))
		}

	case "min":
		return foldLeft(i.min, args)
	case "max":
		return foldLeft(i.max, args)

	case "real":
		switch c := args[0].(type) {
		case complex64:
			return real(c)
		case complex128:
			return real(c)
		default:
			panic(fmt.Sprintf("real: illegal operand: %T", c))
		}

	case "imag":
		switch c := args[0].(type) {
		case complex64:
			return imag(c)
		case complex128:
			return imag(c)
		default:
			panic(fmt.Sprintf("imag: illegal operand: %T", c))
		}

	case "complex":
		switch f := args[0].(type) {
		case float32:
			return complex(f, args[1].(float32))
		case float64:
			return complex(f, args[1].(float64))
		default:
			panic(fmt.Sprintf("complex: illegal operand: %T", f))
		}

	case "panic":
		// ssa.Panic handles most cases; this is only for "go
		// panic" or "defer panic".
		panic(targetPanic{args[0]})

	case "recover":
		return doRecover(caller)

	case "ssa:wrapnilchk":
		recv := args[0]
		if recv.(*value) == nil {
			recvType := args[1]
			methodName := args[2]
			panic(targetPanic{runtimeError(fmt.Sprintf("value method (%s).%s called using nil *%s pointer",
				recvType, methodName, recvType))})
		}
		return recv

	case "ssa:deferstack":
		return &caller.defers

	// package unsafe: byte slices are []value, so a *byte is a *value into
	// such a backing array and host-level unsafe.Slice recovers the window.
	// Strings are immutable values here: StringData points into a fresh copy,
	// String copies (the model internal/convert already uses).
	case "StringData":
		b := strBytes(args[0])
		if len(b) == 0 {
			return (*value)(nil)
		}
		return &b[0]
	case "SliceData":
		b := args[0].([]value)
		if cap(b) == 0 {
			return (*value)(nil)
		}
		return &b[:1][0]
	case "Slice":
		p := args[0].(*value)
		n := int(i.concInt(args[1]))
		if p == nil {
			if n != 0 {
				panic(targetPanic{runtimeError("unsafe.Slice: ptr is nil and len is not zero")})
			}
			return []value(nil)
		}
		if n < 0 {
			panic(targetPanic{runtimeError("unsafe.Slice: len out of range")})
		}
		return unsafe.Slice(p, n)
	case "String":
		p := args[0].(*value)
		n := int(i.concInt(args[1]))
		if p == nil || n == 0 {
			return ""
		}
		return mkStr(append([]value(nil), unsafe.Slice(p, n)...))
	}

	panic("unknown built-in: " + fn.Name())
}

type stringIter struct {
	i   *interpreter
	s   value
	pos int
}

func (it *stringIter) next() tuple {
	n := strLen(it.s)
	if it.pos >= n {
		return tuple{false, nil, nil}
	}
	start := it.pos
	if cs, ok := it.s.(string); ok {
		r, sz := utf8.DecodeRuneInString(cs[start:])
		it.pos += sz
		return tuple{true, start, r}
	}
	b := strAt(it.s, start)
	if cb, ok := b.(uint8); ok && cb < utf8.RuneSelf {
		it.pos++
		return tuple{true, start, rune(cb)}
	}
	if sb, ok := b.(sym); ok {
		c := it.i.path.tc
		if it.i.path.branch(c.cmp(opUlt, sb.t, c.bv(0x80, 8))) {
			it.pos++
			return tuple{true, start, mkVal(types.Int32, c.zext(sb.t, 32))}
		}
	}
	// multi-byte sequence with symbolic bytes: concretize up to 4 bytes
	end := start + 4
	if end > n {
		end = n
	}
	buf := make([]byte, 0, 4)
	for k := start; k < end; k++ {
		buf = append(buf, byte(it.i.concInt(strAt(it.s, k))))
		if utf8.FullRune(buf) {
			break
		}
	}
	r, sz := utf8.DecodeRune(buf)
	it.pos += sz
	return tuple{true, start, r}
}

func (i *interpreter) rangeIter(x value) iter {
	switch x := x.(type) {
	case *smap:
		it := &smapIter{i: i, m: x}
		if x != nil {
			it.keys = x.liveKeys()
		} else {
			it.m = &smap{}
		}
		return it
	case string, sstr:
		return &stringIter{i: i, s: x}
	}
	panic(fmt.Sprintf("cannot range over %T", x))
}

// widen widens a basic typed value x to the widest type of its
// category, one of:
//
//	bool, int64, uint64, float64, complex128, string.
//
// This is inefficient but reduces the size of the cross-product of
// cases we have to consider.
func widen(x value) value {
	switch y := x.(type) {
	case bool, int64, uint64, float64, complex128, string, unsafe.Pointer:
		return x
	case int:
		return int64(y)
	case int8:
		return int64(y)
	case int16:
		return int64(y)
	case int32:
		return int64(y)
	case uint:
		return uint64(y)
	case uint8:
		return uint64(y)
	case uint16:
		return uint64(y)
	case uint32:
		return uint64(y)
	case uintptr:
		return uint64(y)
	case float32:
		return float64(y)
	case complex64:
		return complex128(y)
	}
	panic(fmt.Sprintf("cannot widen %T", x))
}

// conv converts the value x of type t_src to type t_dst and returns
// the result.
// Possible cases are described with the ssa.Convert operator.
func (i *interpreter) conv(t_dst, t_src types.Type, x value) value {
	ut_src := t_src.Underlying()
	ut_dst := t_dst.Underlying()

	if sx, ok := x.(sym); ok {
		if b, ok := ut_dst.(*types.Basic); ok {
			return i.symConv(b.Kind(), sx)
		}
		i.path.unsupported("conversion of symbolic scalar to %v", t_dst)
	}
	if f, ok := x.(symF64); ok {
		return i.convSymF64(t_dst, f)
	}
	if ss, ok := x.(sstr); ok {
		switch ut_dst := ut_dst.(type) {
		case *types.Slice:
			if ut_dst.Elem().Underlying().(*types.Basic).Kind() == types.Byte {
				return strBytes(ss)
			}
			i.path.unsupported("[]rune(symbolic string)")
		case *types.Basic:
			if ut_dst.Kind() == types.String {
				return ss
			}
		}
	}

	// Destination type is not an "untyped" type.
	if b, ok := ut_dst.(*types.Basic); ok && b.Info()&types.IsUntyped != 0 {
		panic("oops: conversion to 'untyped' type: " + b.String())
	}

	// Nor is it an interface type.
	if _, ok := ut_dst.(*types.Interface); ok {
		if _, ok := ut_src.(*types.Interface); ok {
			panic("oops: Convert should be ChangeInterface")
		} else {
			panic("oops: Convert should be MakeInterface")
		}
	}

	// Remaining conversions:
	//    + untyped string/number/bool constant to a specific
	//      representation.
	//    + conversions between non-complex numeric types.
	//    + conversions between complex numeric types.
	//    + integer/[]byte/[]rune -> string.
	//    + string -> []byte/[]rune.
	//
	// All are treated the same: first we extract the value to the
	// widest representation (int64, uint64, float64, complex128,
	// or string), then we convert it to the desired type.

	switch ut_src := ut_src.(type) {
	case *types.Pointer:
		switch ut_dst := ut_dst.(type) {
		case *types.Basic:
			// *value to unsafe.Pointer?
			if ut_dst.Kind() == types.UnsafePointer {
				return unsafe.Pointer(x.(*value))
			}
		}

	case *types.Slice:
		// []byte or []rune -> string
		switch ut_src.Elem().Underlying().(*types.Basic).Kind() {
		case types.Byte:
			return mkStr(x.([]value))

		case types.Rune:
			x := x.([]value)
			r := make([]rune, 0, len(x))
			for i := range x {
				r = append(r, x[i].(rune))
			}
			return string(r)
		}

	case *types.Basic:
		x = widen(x)

		// integer -> string?
		if ut_src.Info()&types.IsInteger != 0 {
			if ut_dst, ok := ut_dst.(*types.Basic); ok && ut_dst.Kind() == types.String {
				return fmt.Sprintf("%c", x)
			}
		}

		// string -> []rune, []byte or string?
		if s, ok := x.(string); ok {
			switch ut_dst := ut_dst.(type) {
			case *types.Slice:
				var res []value
				switch ut_dst.Elem().Underlying().(*types.Basic).Kind() {
				case types.Rune:
					for _, r := range []rune(s) {
						res = append(res, r)
					}
					return res
				case types.Byte:
					for _, b := range []byte(s) {
						res = append(res, b)
					}
					return res
				}
			case *types.Basic:
				if ut_dst.Kind() == types.String {
					return x.(string)
				}
			}
			break // fail: no other conversions for string
		}

		// unsafe.Pointer -> *value
		if ut_src.Kind() == types.UnsafePointer {
			// TODO(adonovan): this is wrong and cannot
			// really be fixed with the current design.
			//
			// return (*value)(x.(unsafe.Pointer))
			// creates a new pointer of a different
			// type but the underlying interface value
			// knows its "true" type and so cannot be
			// meaningfully used through the new pointer.
			//
			// To make this work, the interpreter needs to
			// simulate the memory layout of a real
			// compiled implementation.
			//
			// To at least preserve type-safety, we'll
			// just return the zero value of the
			// destination type.
			return zero(t_dst)
		}

		// Conversions between complex numeric types?
		if ut_src.Info()&types.IsComplex != 0 {
			switch ut_dst.(*types.Basic).Kind() {
			case types.Complex64:
				return complex64(x.(complex128))
			case types.Complex128:
				return x.(complex128)
			}
			break // fail: no other conversions for complex
		}

		// Conversions between non-complex numeric types?
		if ut_src.Info()&types.IsNumeric != 0 {
			kind := ut_dst.(*types.Basic).Kind()
			switch x := x.(type) {
			case int64: // signed integer -> numeric?
				switch kind {
				case types.Int:
					return int(x)
				case types.Int8:
					return int8(x)
				case types.Int16:
					return int16(x)
				case types.Int32:
					return int32(x)
				case types.Int64:
					return int64(x)
				case types.Uint:
					return uint(x)
				case types.Uint8:
					return uint8(x)
				case types.Uint16:
					return uint16(x)
				case types.Uint32:
					return uint32(x)
				case types.Uint64:
					return uint64(x)
				case types.Uintptr:
					return uintptr(x)
				case types.Float32:
					return float32(x)
				case types.Float64:
					return float64(x)
				}

			case uint64: // unsigned integer -> numeric?
				switch kind {
				case types.Int:
					return int(x)
				case types.Int8:
					return int8(x)
				case types.Int16:
					return int16(x)
				case types.Int32:
					return int32(x)
				case types.Int64:
					return int64(x)
				case types.Uint:
					return uint(x)
				case types.Uint8:
					return uint8(x)
				case types.Uint16:
					return uint16(x)
				case types.Uint32:
					return uint32(x)
				case types.Uint64:
					return uint64(x)
				case types.Uintptr:
					return uintptr(x)
				case types.Float32:
					return float32(x)
				case types.Float64:
					return float64(x)
				}

			case float64: // floating point -> numeric?
				switch kind {
				case types.Int:
					return int(x)
				case types.Int8:
					return int8(x)
				case types.Int16:
					return int16(x)
				case types.Int32:
					return int32(x)
				case types.Int64:
					return int64(x)
				case types.Uint:
					return uint(x)
				case types.Uint8:
					return uint8(x)
				case types.Uint16:
					return uint16(x)
				case types.Uint32:
					return uint32(x)
				case types.Uint64:
					return uint64(x)
				case types.Uintptr:
					return uintptr(x)
				case types.Float32:
					return float32(x)
				case types.Float64:
					return float64(x)
				}
			}
		}
	}

	panic(fmt.Sprintf("unsupported conversion: %s  -> %s, dynamic type %T", t_src, t_dst, x))
}

// sliceToArrayPointer converts the value x of type slice to type t_dst
// a pointer to array and returns the result.
func sliceToArrayPointer(t_dst, t_src types.Type, x value) value {
	if _, ok := t_src.Underlying().(*types.Slice); ok {
		if ptr, ok := t_dst.Underlying().(*types.Pointer); ok {
			if arr, ok := ptr.Elem().Underlying().(*types.Array); ok {
				x := x.([]value)
				if arr.Len() > int64(len(x)) {
					panic("array length is greater than slice length")
				}
				if x == nil {
					return zero(t_dst)
				}
				v := value(array(x[:arr.Len()]))
				return &v
			}
		}
	}

	panic(fmt.Sprintf("unsupported conversion: %s  -> %s, dynamic type %T", t_src, t_dst, x))
}

// checkInterface checks that the method set of x implements the
// interface itype.
// On success it returns "", on failure, an error message.
func checkInterface(itype *types.Interface, x iface) string {
	if meth, _ := types.MissingMethod(x.t, itype, true); meth != nil {
		return fmt.Sprintf("interface conversion: %v is not %v: missing method %s",
			x.t, itype, meth.Name())
	}
	return "" // ok
}

func foldLeft(op func(value, value) value, args []value) value {
	x := args[0]
	for _, arg := range args[1:] {
		x = op(x, arg)
	}
	return x
}

func (i *interpreter) min(x, y value) value {
	switch x := x.(type) {
	case float32:
		return fmin(x, y.(float32))
	case float64:
		return fmin(x, y.(float64))
	}
	lt := i.binop(token.LSS, nil, y, x)
	if b, ok := lt.(bool); ok {
		if b {
			return y
		}
		return x
	}
	if v, ok := i.vite(lt.(sym).t, y, x); ok {
		return v
	}
	if i.truth(lt) {
		return y
	}
	return x
}

func (i *interpreter) max(x, y value) value {
	switch x := x.(type) {
	case float32:
		return fmax(x, y.(float32))
	case float64:
		return fmax(x, y.(float64))
	}
	gt := i.binop(token.GTR, nil, y, x)
	if b, ok := gt.(bool); ok {
		if b {
			return y
		}
		return x
	}
	if v, ok := i.vite(gt.(sym).t, y, x); ok {
		return v
	}
	if i.truth(gt) {
		return y
	}
	return x
}

// copied from $GOROOT/src/runtime/minmax.go

type floaty interface{ ~float32 | ~float64 }

func fmin[F floaty](x, y F) F {
	if y != y || y < x {
		return y
	}
	if x != x || x < y || x != 0 {
		return x
	}
	// x and y are both ±0
	// if either is -0, return -0; else return +0
	return forbits(x, y)
}

func fmax[F floaty](x, y F) F {
	if y != y || y > x {
		return y
	}
	if x != x || x > y || x != 0 {
		return x
	}
	// x and y are both ±0
	// if both are -0, return -0; else return +0
	return fandbits(x, y)
}

func forbits[F floaty](x, y F) F {
	switch unsafe.Sizeof(x) {
	case 4:
		*(*uint32)(unsafe.Pointer(&x)) |= *(*uint32)(unsafe.Pointer(&y))
	case 8:
		*(*uint64)(unsafe.Pointer(&x)) |= *(*uint64)(unsafe.Pointer(&y))
	}
	return x
}

func fandbits[F floaty](x, y F) F {
	switch unsafe.Sizeof(x) {
	case 4:
		*(*uint32)(unsafe.Pointer(&x)) &= *(*uint32)(unsafe.Pointer(&y))
	case 8:
		*(*uint64)(unsafe.Pointer(&x)) &= *(*uint64)(unsafe.Pointer(&y))
	}
	return x
}
