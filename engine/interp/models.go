package interp

// Models for code without an interpretable body (runtime-linked, assembly,
// unsafe), blanket stubs, and the harness intrinsics (v* functions).

import (
	"fmt"
	"go/token"
	"go/types"
	"strings"
	"unsafe"

	"golang.org/x/tools/go/ssa"
)

type externalFn func(fr *frame, args []value) value

var externals = map[string]externalFn{}

func noop(fr *frame, args []value) value { return nil }

func lookupExternal(i *interpreter, caller *frame, fn *ssa.Function, name string) externalFn {
	// package initialisation: shallow
	if fn.Synthetic == "package initializer" && caller != nil {
		return noop
	}
	if fn.Pkg != nil && strings.HasPrefix(fn.Name(), "init#") && fn.Signature.Recv() == nil {
		if !i.exp.runsInitFuncs(fn.Pkg.Pkg.Path()) {
			return noop
		}
	}
	if fn.Blocks == nil && fn.Signature.Recv() == nil {
		if in, ok := intrinsics[fn.Name()]; ok {
			return in
		}
	}
	if ext, ok := externals[name]; ok {
		return ext
	}
	// blanket stubs: metrics
	if strings.HasPrefix(name, "(*github.com/centrifugal/centrifuge.metrics).") ||
		(fn.Pkg != nil && strings.HasPrefix(fn.Pkg.Pkg.Path(), "github.com/prometheus/")) {
		res := fn.Signature.Results()
		return func(fr *frame, args []value) value { return inertResult(res) }
	}
	return nil
}

func fieldIndex(t types.Type, name string) int {
	st := t.Underlying().(*types.Struct)
	for k := 0; k < st.NumFields(); k++ {
		if st.Field(k).Name() == name {
			return k
		}
	}
	panic(fmt.Sprintf("no field %s in %v", name, t))
}

// recvStruct returns the struct pointed to by a method receiver argument.
func recvStruct(x value) structure {
	p := x.(*value)
	if p == nil {
		nilDeref()
	}
	return (*p).(structure)
}

func (i *interpreter) mkError(msg string) value {
	pkg := i.prog.ImportedPackage("errors")
	if pkg == nil {
		return iface{t: errorType, v: msg}
	}
	return call(i, nil, token.NoPos, pkg.Func("New"), []value{msg})
}

func goString(i *interpreter, x value) string {
	switch x := x.(type) {
	case string:
		return x
	case sstr:
		bs := make([]byte, len(x))
		for k, e := range x {
			if b, ok := e.(uint8); ok {
				bs[k] = b
			} else {
				bs[k] = '?'
			}
		}
		return string(bs)
	}
	return toString(x)
}

func init() {
	for k, v := range map[string]externalFn{
		// ---- sync
		"(*sync.Mutex).Lock":    func(fr *frame, a []value) value { fr.i.sched.lock(a[0].(*value)); return nil },
		"(*sync.Mutex).Unlock":  func(fr *frame, a []value) value { fr.i.sched.unlock(a[0].(*value)); return nil },
		"(*sync.Mutex).TryLock": func(fr *frame, a []value) value { return fr.i.sched.tryLock(a[0].(*value)) },
		"(*sync.RWMutex).Lock":    func(fr *frame, a []value) value { fr.i.sched.rwLock(a[0].(*value)); return nil },
		"(*sync.RWMutex).Unlock":  func(fr *frame, a []value) value { fr.i.sched.rwUnlock(a[0].(*value)); return nil },
		"(*sync.RWMutex).RLock":   func(fr *frame, a []value) value { fr.i.sched.rwRLock(a[0].(*value)); return nil },
		"(*sync.RWMutex).RUnlock": func(fr *frame, a []value) value { fr.i.sched.rwRUnlock(a[0].(*value)); return nil },
		"(*sync.RWMutex).TryLock": func(fr *frame, a []value) value {
			m := fr.i.sched.rwmutex(a[0].(*value))
			if m.writer || m.readers > 0 {
				return false
			}
			m.writer = true
			return true
		},
		"(*sync.RWMutex).TryRLock": func(fr *frame, a []value) value {
			m := fr.i.sched.rwmutex(a[0].(*value))
			if m.writer {
				return false
			}
			m.readers++
			return true
		},
		"(*sync.Once).Do": func(fr *frame, a []value) value {
			s := fr.i.sched
			p := a[0].(*value)
			o := s.onces[p]
			if o == nil {
				o = &vonce{}
				s.onces[p] = o
			}
			if o.done {
				return nil
			}
			for o.running {
				o.waiters = append(o.waiters, s.cur)
				s.block("once")
			}
			if o.done {
				return nil
			}
			o.running = true
			defer func() {
				o.running = false
				o.done = true
				for _, w := range o.waiters {
					s.wake(w)
				}
				o.waiters = nil
			}()
			call(fr.i, fr, token.NoPos, a[1], nil)
			return nil
		},
		"(*sync.WaitGroup).Add":  func(fr *frame, a []value) value { fr.i.sched.wgAdd(a[0].(*value), asInt64(a[1])); return nil },
		"(*sync.WaitGroup).Done": func(fr *frame, a []value) value { fr.i.sched.wgAdd(a[0].(*value), -1); return nil },
		"(*sync.WaitGroup).Wait": func(fr *frame, a []value) value { fr.i.sched.wgWait(a[0].(*value)); return nil },
		"(*sync.WaitGroup).Go": func(fr *frame, a []value) value {
			i := fr.i
			p := a[0].(*value)
			f := a[1]
			i.sched.wgAdd(p, 1)
			i.sched.spawn("wg.Go", func() {
				call(i, nil, token.NoPos, f, nil)
				i.sched.wgAdd(p, -1)
			})
			return nil
		},
		"(*sync.Cond).Wait": func(fr *frame, a []value) value {
			i := fr.i
			st := recvStruct(a[0])
			l := st[fieldIndexByName(st, fr.fn, "L")].(iface)
			lockM := i.findMethod(l.t, "Lock")
			unlockM := i.findMethod(l.t, "Unlock")
			i.sched.condWait(a[0].(*value),
				func() { call(i, fr, token.NoPos, unlockM, []value{l.v}) },
				func() { call(i, fr, token.NoPos, lockM, []value{l.v}) })
			return nil
		},
		"(*sync.Cond).Signal":    func(fr *frame, a []value) value { fr.i.sched.condSignal(a[0].(*value)); return nil },
		"(*sync.Cond).Broadcast": func(fr *frame, a []value) value { fr.i.sched.condBroadcast(a[0].(*value)); return nil },
		"(*sync.Pool).Get": func(fr *frame, a []value) value {
			i := fr.i
			p := a[0].(*value)
			if q := i.pools[p]; len(q) > 0 && i.exp.cfg.Params["pool_reuse"] != 0 {
				x := q[len(q)-1]
				i.pools[p] = q[:len(q)-1]
				return x
			}
			st := recvStruct(a[0])
			nf := st[fieldIndexByName(st, fr.fn, "New")]
			switch f := nf.(type) {
			case *ssa.Function:
				if f == nil {
					return iface{}
				}
			}
			return call(i, fr, token.NoPos, nf, nil)
		},
		"(*sync.Pool).Put": func(fr *frame, a []value) value {
			i := fr.i
			p := a[0].(*value)
			if i.exp.cfg.Params["pool_reuse"] != 0 {
				i.pools[p] = append(i.pools[p], a[1])
			}
			return nil
		},

		// ---- runtime
		"runtime.Gosched":      func(fr *frame, a []value) value { fr.i.sched.yield(); return nil },
		"runtime.KeepAlive":    noop,
		"runtime.SetFinalizer": noop,
		"runtime.GC":           noop,
		"runtime.NumCPU":       func(fr *frame, a []value) value { return 4 },
		"runtime.GOMAXPROCS":   func(fr *frame, a []value) value { return 4 },
		"runtime.NumGoroutine": func(fr *frame, a []value) value { return len(fr.i.sched.threads) },
		"runtime.Caller": func(fr *frame, a []value) value {
			return tuple{uintptr(0), "", 0, false}
		},
		"runtime.Stack":      func(fr *frame, a []value) value { return 0 },
		"runtime/debug.Stack": func(fr *frame, a []value) value { return []value(nil) },
		"os.Getenv":          func(fr *frame, a []value) value { return "" },
		"os.LookupEnv":       func(fr *frame, a []value) value { return tuple{"", false} },

		"(*internal/godebug.Setting).Value":         func(fr *frame, a []value) value { return "" },
		"(*internal/godebug.Setting).IncNonDefault": noop,

		// ---- time (runtime-linked hooks; the rest of package time is interpreted)
		"time.now": func(fr *frame, a []value) value {
			now := fr.i.sched.now
			return tuple{now / 1_000_000_000, int32(now % 1_000_000_000), now}
		},
		"time.runtimeNano": func(fr *frame, a []value) value { return fr.i.sched.now },
		"time.runtimeNow": func(fr *frame, a []value) value {
			now := fr.i.sched.now
			return tuple{now / 1_000_000_000, int32(now % 1_000_000_000), now}
		},
		"time.Sleep": func(fr *frame, a []value) value {
			s := fr.i.sched
			d := fr.i.concInt(a[0])
			if d <= 0 {
				s.yield()
				return nil
			}
			me := s.cur
			woken := false
			s.addTimer(d, func() { woken = true; s.wake(me) })
			for !woken {
				s.block("time.Sleep")
			}
			return nil
		},
		"time.newTimer":   extNewTimer,
		"time.stopTimer":  extStopTimer,
		"time.resetTimer": extResetTimer,
		"time.runtimeIsBubbled": func(fr *frame, a []value) value { return false },
		"(*time.Location).get": nil,

		// ---- errors / fmt
		"fmt.Sprintf": func(fr *frame, a []value) value { return fmtSprintf(fr.i, goString(fr.i, a[0]), a[1].([]value)) },
		"fmt.Sprint":  func(fr *frame, a []value) value { return fmtSprint(fr.i, a[0].([]value), false) },
		"fmt.Sprintln": func(fr *frame, a []value) value { return fmtSprint(fr.i, a[0].([]value), true) },
		"fmt.Errorf":  extErrorf,
		"fmt.Println": func(fr *frame, a []value) value { return tuple{0, iface{}} },
		"fmt.Printf":  func(fr *frame, a []value) value { return tuple{0, iface{}} },
		"fmt.Fprintf": func(fr *frame, a []value) value { return tuple{0, iface{}} },
		"errors.Is":   extErrorsIs,
		"errors.As":   extErrorsAs,

		// ---- internal/bytealg
		"internal/bytealg.IndexByte":       func(fr *frame, a []value) value { return fr.i.indexByte(a[0].([]value), a[1]) },
		"internal/bytealg.IndexByteString": func(fr *frame, a []value) value { return fr.i.indexByte(strBytes(a[0]), a[1]) },
		"internal/bytealg.LastIndexByte": func(fr *frame, a []value) value { return fr.i.lastIndexByte(a[0].([]value), a[1]) },
		"internal/bytealg.LastIndexByteString": func(fr *frame, a []value) value { return fr.i.lastIndexByte(strBytes(a[0]), a[1]) },
		"internal/bytealg.Count":           func(fr *frame, a []value) value { return fr.i.countByte(a[0].([]value), a[1]) },
		"internal/bytealg.CountString":     func(fr *frame, a []value) value { return fr.i.countByte(strBytes(a[0]), a[1]) },
		"internal/bytealg.Index":           func(fr *frame, a []value) value { return fr.i.indexSub(a[0].([]value), a[1].([]value)) },
		"internal/bytealg.IndexString":     func(fr *frame, a []value) value { return fr.i.indexSub(strBytes(a[0]), strBytes(a[1])) },
		"internal/bytealg.Equal": func(fr *frame, a []value) value {
			return fr.i.strEq(mkStr(a[0].([]value)), mkStr(a[1].([]value)))
		},
		"internal/bytealg.Compare": func(fr *frame, a []value) value {
			return fr.i.compareStr(mkStr(a[0].([]value)), mkStr(a[1].([]value)))
		},
		"internal/bytealg.CompareString": func(fr *frame, a []value) value { return fr.i.compareStr(a[0], a[1]) },
		"internal/bytealg.MakeNoZero": func(fr *frame, a []value) value {
			n := fr.i.concInt(a[0])
			s := make([]value, n)
			for k := range s {
				s[k] = uint8(0)
			}
			return s
		},
		"internal/stringslite.Index":     func(fr *frame, a []value) value { return fr.i.indexSub(strBytes(a[0]), strBytes(a[1])) },
		"internal/stringslite.IndexByte": func(fr *frame, a []value) value { return fr.i.indexByte(strBytes(a[0]), a[1]) },
		"strings.Index":                  func(fr *frame, a []value) value { return fr.i.indexSub(strBytes(a[0]), strBytes(a[1])) },
		"strings.Compare":                func(fr *frame, a []value) value { return fr.i.compareStr(a[0], a[1]) },
		"bytes.Index": func(fr *frame, a []value) value { return fr.i.indexSub(a[0].([]value), a[1].([]value)) },
		"bytes.Compare": func(fr *frame, a []value) value {
			return fr.i.compareStr(mkStr(a[0].([]value)), mkStr(a[1].([]value)))
		},
		"strings.Clone": func(fr *frame, a []value) value { return a[0] },
		"bytes.Clone": func(fr *frame, a []value) value {
			b := a[0].([]value)
			if b == nil {
				return b
			}
			return append([]value{}, b...)
		},

		// ---- strings.Builder (uses unsafe)
		"(*strings.Builder).String": func(fr *frame, a []value) value { return mkStr(builderBuf(a[0])) },
		"(*strings.Builder).Len":    func(fr *frame, a []value) value { return len(builderBuf(a[0])) },
		"(*strings.Builder).Cap":    func(fr *frame, a []value) value { return cap(builderBuf(a[0])) },
		"(*strings.Builder).Reset":  func(fr *frame, a []value) value { recvStruct(a[0])[1] = []value(nil); return nil },
		"(*strings.Builder).Grow":   noop,
		"(*strings.Builder).Write": func(fr *frame, a []value) value {
			st := recvStruct(a[0])
			st[1] = append(st[1].([]value), a[1].([]value)...)
			return tuple{len(a[1].([]value)), iface{}}
		},
		"(*strings.Builder).WriteString": func(fr *frame, a []value) value {
			st := recvStruct(a[0])
			st[1] = append(st[1].([]value), strBytes(a[1])...)
			return tuple{strLen(a[1]), iface{}}
		},
		"(*strings.Builder).WriteByte": func(fr *frame, a []value) value {
			st := recvStruct(a[0])
			st[1] = append(st[1].([]value), a[1])
			return iface{}
		},
		"(*strings.Builder).WriteRune": func(fr *frame, a []value) value {
			st := recvStruct(a[0])
			r := rune(fr.i.concInt(a[1]))
			s := string(r)
			st[1] = append(st[1].([]value), strBytes(s)...)
			return tuple{len(s), iface{}}
		},

		// ---- unsafe string/bytes helpers of the repository
		"github.com/centrifugal/centrifuge/internal/convert.StringToBytes": func(fr *frame, a []value) value { return strBytes(a[0]) },
		"github.com/centrifugal/centrifuge/internal/convert.BytesToString": func(fr *frame, a []value) value { return mkStr(a[0].([]value)) },

		// ---- sort (reflection based)
		"sort.Slice":       extSortSlice,
		"sort.SliceStable": extSortSlice,

		// ---- maps / slices runtime hooks
		"maps.clone": func(fr *frame, a []value) value {
			m, _ := a[0].(iface).v.(*smap)
			if m == nil {
				return a[0]
			}
			return iface{t: a[0].(iface).t, v: m.clone()}
		},

		// ---- math/bits fast paths
		"math/bits.Len64": func(fr *frame, a []value) value { return fr.i.bitsLen(a[0], 64) },
		"math/bits.Len32": func(fr *frame, a []value) value { return fr.i.bitsLen(a[0], 32) },
		"math/bits.Len16": func(fr *frame, a []value) value { return fr.i.bitsLen(a[0], 16) },
		"math/bits.Len8":  func(fr *frame, a []value) value { return fr.i.bitsLen(a[0], 8) },
		"math/bits.Len":   func(fr *frame, a []value) value { return fr.i.bitsLen(a[0], 64) },
		"math/bits.LeadingZeros64": func(fr *frame, a []value) value { return fr.i.binop(token.SUB, nil, 64, fr.i.bitsLen(a[0], 64)) },
		"math/bits.LeadingZeros32": func(fr *frame, a []value) value { return fr.i.binop(token.SUB, nil, 32, fr.i.bitsLen(a[0], 32)) },
		"math/bits.LeadingZeros16": func(fr *frame, a []value) value { return fr.i.binop(token.SUB, nil, 16, fr.i.bitsLen(a[0], 16)) },
		"math/bits.LeadingZeros8":  func(fr *frame, a []value) value { return fr.i.binop(token.SUB, nil, 8, fr.i.bitsLen(a[0], 8)) },
		"math/bits.LeadingZeros":   func(fr *frame, a []value) value { return fr.i.binop(token.SUB, nil, 64, fr.i.bitsLen(a[0], 64)) },
	} {
		if v != nil {
			externals[k] = v
		}
	}
	registerAtomics()
	registerIntrinsics()
}

func fieldIndexByName(st structure, fn *ssa.Function, name string) int {
	recv := fn.Signature.Recv().Type()
	return fieldIndex(deref(recv), name)
}

func builderBuf(x value) []value {
	st := recvStruct(x)
	b, _ := st[1].([]value)
	return b
}

// bitsLen returns the minimum number of bits to represent x as a Go int.
func (i *interpreter) bitsLen(x value, w uint8) value {
	if s, ok := x.(sym); ok {
		c := i.path.tc
		res := c.bv(0, 64)
		for k := uint8(0); k < w; k++ {
			bit := c.extract(s.t, k, k)
			res = c.ite(c.eq(bit, c.bv(1, 1)), c.bv(uint64(k+1), 64), res)
		}
		return mkVal(types.Int, res)
	}
	v := scalarBits(x) & mask(w)
	n := 0
	for v != 0 {
		n++
		v >>= 1
	}
	return n
}

func (i *interpreter) byteEq(a, b value) value {
	if x, ok := a.(uint8); ok {
		if y, ok := b.(uint8); ok {
			return x == y
		}
	}
	c := i.path.tc
	return mkVal(types.Bool, c.eq(c.termOf(a), c.termOf(b)))
}

func (i *interpreter) indexByte(s []value, c value) value {
	for k, b := range s {
		if i.truth(i.byteEq(b, c)) {
			return k
		}
	}
	return -1
}

func (i *interpreter) lastIndexByte(s []value, c value) value {
	for k := len(s) - 1; k >= 0; k-- {
		if i.truth(i.byteEq(s[k], c)) {
			return k
		}
	}
	return -1
}

func (i *interpreter) countByte(s []value, c value) value {
	n := 0
	for _, b := range s {
		if i.truth(i.byteEq(b, c)) {
			n++
		}
	}
	return n
}

func (i *interpreter) indexSub(s, sep []value) value {
	n := len(sep)
	for k := 0; k+n <= len(s); k++ {
		if i.truth(i.strEq(mkStr(s[k:k+n]), mkStr(sep))) {
			return k
		}
	}
	return -1
}

func (i *interpreter) compareStr(a, b value) value {
	if i.truth(i.strEq(a, b)) {
		return 0
	}
	if i.truth(i.strLess(a, b)) {
		return -1
	}
	return 1
}

// ---------------------------------------------------------------------------
// timers

type timerRec struct {
	vt     *vtimer
	f      value
	arg    value
	period int64
}

func timerTable(i *interpreter) map[*value]*timerRec {
	if i.sched.timerTab == nil {
		i.sched.timerTab = make(map[*value]*timerRec)
	}
	return i.sched.timerTab
}

func (i *interpreter) armTimer(p *value, rec *timerRec, when int64) {
	s := i.sched
	var fire func()
	fire = func() {
		call(i, nil, token.NoPos, rec.f, []value{rec.arg, uintptr(0), int64(0)})
		if rec.period > 0 {
			rec.vt = s.addTimer(rec.period, fire)
		}
	}
	rec.vt = s.addTimer(when-s.now, fire)
}

func extNewTimer(fr *frame, a []value) value {
	i := fr.i
	when := i.concInt(a[0])
	period := i.concInt(a[1])
	tt := fr.fn.Signature.Results().At(0).Type() // *time.Timer
	cell := zero(deref(tt))
	st := cell.(structure)
	st[fieldIndex(deref(tt), "initTimer")] = true
	p := &cell
	rec := &timerRec{f: a[2], arg: a[3], period: period}
	timerTable(i)[p] = rec
	i.armTimer(p, rec, when)
	return p
}

func extStopTimer(fr *frame, a []value) value {
	p := a[0].(*value)
	rec := timerTable(fr.i)[p]
	if rec == nil || rec.vt == nil {
		return false
	}
	active := !rec.vt.fired && !rec.vt.stopped
	rec.vt.stopped = true
	rec.period = 0
	return active
}

func extResetTimer(fr *frame, a []value) value {
	i := fr.i
	p := a[0].(*value)
	rec := timerTable(i)[p]
	if rec == nil {
		return false
	}
	active := rec.vt != nil && !rec.vt.fired && !rec.vt.stopped
	if rec.vt != nil {
		rec.vt.stopped = true
	}
	rec.period = i.concInt(a[2])
	i.armTimer(p, rec, i.concInt(a[1]))
	return active
}

// ---------------------------------------------------------------------------
// fmt / errors

func fmtArg(i *interpreter, x value) string {
	if it, ok := x.(iface); ok {
		if it.t == nil {
			return "<nil>"
		}
		// error / Stringer
		if m := i.findMethod(it.t, "Error"); m != nil && it.t != errorType {
			if p, ok := it.v.(*value); ok && p == nil {
				return "<nil>"
			}
			return goString(i, call(i, nil, token.NoPos, m, []value{it.v}))
		}
		if it.t == errorType {
			return goString(i, it.v)
		}
		x = it.v
	}
	switch v := x.(type) {
	case string:
		return v
	case sstr:
		return goString(i, v)
	case sym:
		return "?"
	}
	return toString(x)
}

func fmtSprintf(i *interpreter, format string, args []value) value {
	var sb strings.Builder
	ai := 0
	for k := 0; k < len(format); k++ {
		ch := format[k]
		if ch != '%' {
			sb.WriteByte(ch)
			continue
		}
		k++
		for k < len(format) && strings.IndexByte("+-# 0123456789.*", format[k]) >= 0 {
			k++
		}
		if k >= len(format) {
			break
		}
		if format[k] == '%' {
			sb.WriteByte('%')
			continue
		}
		if ai < len(args) {
			sb.WriteString(fmtArg(i, args[ai]))
			ai++
		} else {
			sb.WriteString("%!(MISSING)")
		}
	}
	return sb.String()
}

func fmtSprint(i *interpreter, args []value, ln bool) value {
	var sb strings.Builder
	for k, a := range args {
		if k > 0 && ln {
			sb.WriteByte(' ')
		}
		sb.WriteString(fmtArg(i, a))
	}
	if ln {
		sb.WriteByte('\n')
	}
	return sb.String()
}

func extErrorf(fr *frame, a []value) value {
	i := fr.i
	format := goString(i, a[0])
	args := a[1].([]value)
	msg := fmtSprintf(i, format, args)
	// %w: wrap the first error operand
	if strings.Contains(format, "%w") {
		for _, arg := range args {
			it, ok := arg.(iface)
			if !ok || it.t == nil {
				continue
			}
			if m := i.findMethod(it.t, "Error"); m != nil || it.t == errorType {
				if fp := i.prog.ImportedPackage("fmt"); fp != nil {
					if wt := fp.Type("wrapError"); wt != nil {
						var cell value = structure{msg, it}
						return iface{t: types.NewPointer(wt.Type()), v: &cell}
					}
				}
			}
		}
	}
	return i.mkError(goString(i, msg))
}

func (i *interpreter) unwrapErr(e iface) (iface, bool) {
	if e.t == nil || e.t == errorType {
		return iface{}, false
	}
	m := i.findMethod(e.t, "Unwrap")
	if m == nil {
		return iface{}, false
	}
	if m.Signature.Results().Len() != 1 || !isErrorType(m.Signature.Results().At(0).Type()) {
		return iface{}, false
	}
	r := call(i, nil, token.NoPos, m, []value{e.v}).(iface)
	return r, r.t != nil
}

func extErrorsIs(fr *frame, a []value) value {
	i := fr.i
	err, target := a[0].(iface), a[1].(iface)
	if err.t == nil || target.t == nil {
		return sameType(err.t, target.t)
	}
	comparable := types.Comparable(target.t)
	for {
		if comparable && sameType(err.t, target.t) {
			if i.truth(i.eqv(err.t, err.v, target.v)) {
				return true
			}
		}
		if err.t != errorType {
			if m := i.findMethod(err.t, "Is"); m != nil {
				if i.truth(call(i, fr, token.NoPos, m, []value{err.v, target})) {
					return true
				}
			}
		}
		next, ok := i.unwrapErr(err)
		if !ok {
			return false
		}
		err = next
	}
}

func extErrorsAs(fr *frame, a []value) value {
	i := fr.i
	err, target := a[0].(iface), a[1].(iface)
	if err.t == nil {
		return false
	}
	pt, ok := target.t.Underlying().(*types.Pointer)
	if !ok {
		panic(targetPanic{"errors: target must be a non-nil pointer"})
	}
	tp := target.v.(*value)
	want := pt.Elem()
	_, wantIface := want.Underlying().(*types.Interface)
	for {
		if wantIface {
			if types.AssignableTo(err.t, want) {
				*tp = err
				return true
			}
		} else if types.Identical(err.t, want) {
			store(want, tp, err.v)
			return true
		}
		next, ok := i.unwrapErr(err)
		if !ok {
			return false
		}
		err = next
	}
}

// ---------------------------------------------------------------------------
// sort.Slice: insertion sort through the real less function (forks on
// symbolic comparisons).

func extSortSlice(fr *frame, a []value) value {
	i := fr.i
	xs, _ := a[0].(iface).v.([]value)
	less := a[1]
	for n := 1; n < len(xs); n++ {
		for k := n; k > 0; k-- {
			if !i.truth(call(i, fr, token.NoPos, less, []value{k, k - 1})) {
				break
			}
			xs[k], xs[k-1] = xs[k-1], xs[k]
		}
	}
	return nil
}

// ---------------------------------------------------------------------------
// sync/atomic

func registerAtomics() {
	for _, k := range []string{"Int32", "Int64", "Uint32", "Uint64", "Uintptr"} {
		kind := k
		externals["sync/atomic.Load"+kind] = func(fr *frame, a []value) value {
			fr.i.sched.schedPoint("atomic.Load")
			return *mustPtr(a[0])
		}
		externals["sync/atomic.Store"+kind] = func(fr *frame, a []value) value {
			fr.i.sched.schedPoint("atomic.Store")
			*mustPtr(a[0]) = a[1]
			return nil
		}
		externals["sync/atomic.Add"+kind] = func(fr *frame, a []value) value {
			fr.i.sched.schedPoint("atomic.Add")
			p := mustPtr(a[0])
			*p = fr.i.binop(token.ADD, nil, *p, a[1])
			return *p
		}
		externals["sync/atomic.Swap"+kind] = func(fr *frame, a []value) value {
			fr.i.sched.schedPoint("atomic.Swap")
			p := mustPtr(a[0])
			old := *p
			*p = a[1]
			return old
		}
		externals["sync/atomic.CompareAndSwap"+kind] = func(fr *frame, a []value) value {
			fr.i.sched.schedPoint("atomic.CAS")
			p := mustPtr(a[0])
			ok := fr.i.truth(fr.i.eqv(nil, *p, a[1]))
			if ok {
				*p = a[2]
			}
			return ok
		}
		externals["sync/atomic.And"+kind] = func(fr *frame, a []value) value {
			p := mustPtr(a[0])
			old := *p
			*p = fr.i.binop(token.AND, nil, *p, a[1])
			return old
		}
		externals["sync/atomic.Or"+kind] = func(fr *frame, a []value) value {
			p := mustPtr(a[0])
			old := *p
			*p = fr.i.binop(token.OR, nil, *p, a[1])
			return old
		}
	}
	// atomic.Pointer[T]: the payload pointer is kept boxed in field v
	ptrField := func(a value) *value {
		st := recvStruct(a)
		return &st[len(st)-1]
	}
	ptrLoad := func(fr *frame, cell *value) value {
		if p, ok := (*cell).(*value); ok {
			return p
		}
		return (*value)(nil)
	}
	externals["(*sync/atomic.Pointer[T]).Load"] = func(fr *frame, a []value) value {
		fr.i.sched.schedPoint("atomic.Pointer.Load")
		return ptrLoad(fr, ptrField(a[0]))
	}
	externals["(*sync/atomic.Pointer[T]).Store"] = func(fr *frame, a []value) value {
		fr.i.sched.schedPoint("atomic.Pointer.Store")
		*ptrField(a[0]) = a[1]
		return nil
	}
	externals["(*sync/atomic.Pointer[T]).Swap"] = func(fr *frame, a []value) value {
		c := ptrField(a[0])
		old := ptrLoad(fr, c)
		*c = a[1]
		return old
	}
	externals["(*sync/atomic.Pointer[T]).CompareAndSwap"] = func(fr *frame, a []value) value {
		c := ptrField(a[0])
		if ptrLoad(fr, c).(*value) == a[1].(*value) {
			*c = a[2]
			return true
		}
		return false
	}
	// atomic.Value: the interface is kept in field v
	externals["(*sync/atomic.Value).Load"] = func(fr *frame, a []value) value {
		st := recvStruct(a[0])
		if it, ok := st[0].(iface); ok {
			return it
		}
		return iface{}
	}
	externals["(*sync/atomic.Value).Store"] = func(fr *frame, a []value) value {
		st := recvStruct(a[0])
		if a[1].(iface).t == nil {
			panic(targetPanic{"sync/atomic: store of nil value into Value"})
		}
		st[0] = a[1]
		return nil
	}
	externals["(*sync/atomic.Value).Swap"] = func(fr *frame, a []value) value {
		st := recvStruct(a[0])
		old, _ := st[0].(iface)
		st[0] = a[1]
		return old
	}
	externals["(*sync/atomic.Value).CompareAndSwap"] = func(fr *frame, a []value) value {
		st := recvStruct(a[0])
		old, _ := st[0].(iface)
		if fr.i.truth(fr.i.eqv(nil, old, a[1])) {
			st[0] = a[2]
			return true
		}
		return false
	}
	externals["sync/atomic.LoadPointer"] = func(fr *frame, a []value) value { return *mustPtr(a[0]) }
	externals["sync/atomic.StorePointer"] = func(fr *frame, a []value) value { *mustPtr(a[0]) = a[1]; return nil }
}

func mustPtr(x value) *value {
	p := x.(*value)
	if p == nil {
		nilDeref()
	}
	return p
}

var _ = unsafe.Pointer(nil)

// ---------------------------------------------------------------------------
// Codec stubs: the protocol encoders of the dependency are replaced by an
// injective tagging. The "encoded" []byte has one element, a msgHandle that
// carries a deep copy of the message; vDecoded turns it back into the message.

type msgHandle struct {
	kind string // "reply" | "push"
	msg  value  // *value pointing to the copied struct
	t    types.Type
}

func deepCopy(v value, memo map[*value]*value) value {
	switch x := v.(type) {
	case *value:
		if x == nil {
			return x
		}
		if c, ok := memo[x]; ok {
			return c
		}
		n := new(value)
		memo[x] = n
		*n = deepCopy(*x, memo)
		return n
	case structure:
		out := make(structure, len(x))
		for k := range x {
			out[k] = deepCopy(x[k], memo)
		}
		return out
	case array:
		out := make(array, len(x))
		for k := range x {
			out[k] = deepCopy(x[k], memo)
		}
		return out
	case []value:
		if x == nil {
			return x
		}
		out := make([]value, len(x))
		for k := range x {
			out[k] = deepCopy(x[k], memo)
		}
		return out
	case iface:
		return iface{t: x.t, v: deepCopy(x.v, memo)}
	case *smap:
		if x == nil {
			return x
		}
		out := x.clone()
		for k := range out.vals {
			out.vals[k] = deepCopy(out.vals[k], memo)
		}
		return out
	}
	return v
}

func encodeHandle(kind string) externalFn {
	return func(fr *frame, a []value) value {
		msg := a[1].(*value)
		if msg == nil {
			nilDeref()
		}
		cp := deepCopy(msg, map[*value]*value{}).(*value)
		h := msgHandle{kind: kind, msg: cp, t: fr.fn.Signature.Params().At(0).Type()}
		return tuple{[]value{h}, iface{}}
	}
}

func init() {
	const p = "github.com/centrifugal/protocol."
	externals["(*"+p+"JSONReplyEncoder).Encode"] = encodeHandle("reply")
	externals["(*"+p+"ProtobufReplyEncoder).Encode"] = encodeHandle("reply")
	externals["(*"+p+"JSONPushEncoder).Encode"] = encodeHandle("push")
	externals["(*"+p+"ProtobufPushEncoder).Encode"] = encodeHandle("push")
	// vDecoded(data []byte) any: the message behind an encoded handle, or nil
	intrinsics["vDecoded"] = func(fr *frame, a []value) value {
		b, _ := a[0].([]value)
		if len(b) == 1 {
			if h, ok := b[0].(msgHandle); ok {
				return iface{t: h.t, v: h.msg}
			}
		}
		return iface{}
	}
	externals["github.com/google/uuid.NewRandom"] = func(fr *frame, a []value) value {
		// fresh, pairwise distinct, deterministic ids
		fr.i.tokenSeq++
		t := fr.fn.Signature.Results().At(0).Type() // uuid.UUID = [16]byte
		arr := zero(t).(array)
		arr[0] = uint8(0xEE)
		arr[14] = uint8(fr.i.tokenSeq >> 8)
		arr[15] = uint8(fr.i.tokenSeq)
		return tuple{arr, iface{}}
	}
	externals["github.com/google/uuid.New"] = func(fr *frame, a []value) value {
		fr.i.tokenSeq++
		t := fr.fn.Signature.Results().At(0).Type()
		arr := zero(t).(array)
		arr[0] = uint8(0xEE)
		arr[14] = uint8(fr.i.tokenSeq >> 8)
		arr[15] = uint8(fr.i.tokenSeq)
		return arr
	}
	externals["os.Hostname"] = func(fr *frame, a []value) value { return tuple{"verif-host", iface{}} }
	externals["github.com/centrifugal/centrifuge.newMetricsRegistry"] = func(fr *frame, a []value) value {
		t := fr.fn.Signature.Results().At(0).Type()
		v := zero(deref(t))
		return tuple{&v, iface{}}
	}
}

func init() {
	// crypto/rand: a deterministic counter stream (distinct outputs per call)
	externals["crypto/rand.Read"] = func(fr *frame, a []value) value {
		b := a[0].([]value)
		fr.i.tokenSeq++
		seq := fr.i.tokenSeq
		for k := range b {
			b[k] = uint8((seq >> (8 * uint(len(b)-1-k))) & 0xff)
			if len(b)-1-k >= 4 {
				b[k] = uint8(0)
			}
		}
		return tuple{len(b), iface{}}
	}
	// saferand: deterministic low values (jitter etc. are not part of any claim)
	const sr = "(*github.com/centrifugal/centrifuge/internal/saferand.Rand)."
	externals[sr+"Int63n"] = func(fr *frame, a []value) value { return int64(0) }
	externals[sr+"Intn"] = func(fr *frame, a []value) value { return 0 }
	externals["math/rand.Intn"] = func(fr *frame, a []value) value { return 0 }
	externals["math/rand.Int63n"] = func(fr *frame, a []value) value { return int64(0) }
	externals["math/rand.Int63"] = func(fr *frame, a []value) value { return int64(0) }
	externals["math/rand.Float64"] = func(fr *frame, a []value) value { return float64(0) }
	externals["github.com/centrifugal/centrifuge/internal/saferand.New"] = func(fr *frame, a []value) value {
		t := fr.fn.Signature.Results().At(0).Type()
		v := zero(deref(t))
		return &v
	}
}

func init() {
	externals["context.WithValue"] = func(fr *frame, a []value) value {
		parent := a[0].(iface)
		if parent.t == nil {
			panic(targetPanic{"cannot create context from nil parent"})
		}
		vt := fr.i.prog.ImportedPackage("context").Type("valueCtx").Type()
		cell := zero(vt)
		st := cell.(structure)
		st[0] = parent
		st[1] = a[1]
		st[2] = a[2]
		return iface{t: types.NewPointer(vt), v: &cell}
	}
}

func init() {
	externals["time.syncTimer"] = func(fr *frame, a []value) value { return unsafe.Pointer(nil) }
}


// findMethod returns the exported method name of type t, or nil.
func (i *interpreter) findMethod(t types.Type, name string) *ssa.Function {
	if t == nil || t == errorType || t == rtypeType || t == inertType {
		return nil
	}
	sel := i.prog.MethodSets.MethodSet(t).Lookup(nil, name)
	if sel == nil {
		return nil
	}
	return i.prog.MethodValue(sel)
}
