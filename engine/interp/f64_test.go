package interp

import (
	"math"
	"math/rand"
	"testing"
)

// The BV encoding of int64(float64(x)) against the machine, on boundary and
// random values (evaluated by the engine's own term evaluator).
func TestF64OfInt64Trunc(t *testing.T) {
	c := newTctx()
	x := c.newVar("x", 64)
	f := c.f64OfInt64Trunc(x)
	vals := []int64{0, 1, -1, 1 << 53, 1<<53 + 1, 1<<53 + 2, 1<<53 + 3, -(1 << 53) - 1, 1<<54 + 2, 1<<54 + 6, 1<<62 + 255, 1<<62 + 256, 1<<62 + 257,
		math.MaxInt64, math.MaxInt64 - 511, math.MaxInt64 - 512, math.MaxInt64 - 513, math.MinInt64, math.MinInt64 + 1, math.MinInt64 + 512, math.MinInt64 + 513,
		1700000000000000001, 1700000000000000129, 1700000000000000128, 1700000000000000127}
	r := rand.New(rand.NewSource(1))
	for k := 0; k < 200000; k++ {
		v := int64(r.Uint64())
		v >>= uint(r.Intn(12))
		vals = append(vals, v, -v)
	}
	for _, v := range vals {
		want := int64(float64(v))
		if float64(v) >= 9.223372036854775807e18 {
			want = math.MinInt64 // amd64 result for the out-of-range conversion
		}
		got := int64(evalTerm(f, model{"x": uint64(v)}, map[int32]uint64{}))
		if got != want {
			t.Fatalf("x=%d: got %d want %d", v, got, want)
		}
	}
}
