// Copyright 2013 The Go Authors. All rights reserved.
// Use of this source code is governed by a BSD-style
// license that can be found in the LICENSE file.

package interp

// Emulated reflect and math functions inherited from x/tools' interp.

import (
	"math"
)

func init() {
	for k, v := range map[string]externalFn{
		"(reflect.Value).Bool":            ext۰reflect۰Value۰Bool,
		"(reflect.Value).CanAddr":         ext۰reflect۰Value۰CanAddr,
		"(reflect.Value).CanInterface":    ext۰reflect۰Value۰CanInterface,
		"(reflect.Value).Elem":            ext۰reflect۰Value۰Elem,
		"(reflect.Value).Field":           ext۰reflect۰Value۰Field,
		"(reflect.Value).Float":           ext۰reflect۰Value۰Float,
		"(reflect.Value).Index":           ext۰reflect۰Value۰Index,
		"(reflect.Value).Int":             ext۰reflect۰Value۰Int,
		"(reflect.Value).Interface":       ext۰reflect۰Value۰Interface,
		"(reflect.Value).IsNil":           ext۰reflect۰Value۰IsNil,
		"(reflect.Value).IsValid":         ext۰reflect۰Value۰IsValid,
		"(reflect.Value).Kind":            ext۰reflect۰Value۰Kind,
		"(reflect.Value).Len":             ext۰reflect۰Value۰Len,
		"(reflect.Value).MapIndex":        ext۰reflect۰Value۰MapIndex,
		"(reflect.Value).MapKeys":         ext۰reflect۰Value۰MapKeys,
		"(reflect.Value).NumField":        ext۰reflect۰Value۰NumField,
		"(reflect.Value).NumMethod":       ext۰reflect۰Value۰NumMethod,
		"(reflect.Value).Pointer":         ext۰reflect۰Value۰Pointer,
		"(reflect.Value).Set":             ext۰reflect۰Value۰Set,
		"(reflect.Value).String":          ext۰reflect۰Value۰String,
		"(reflect.Value).Type":            ext۰reflect۰Value۰Type,
		"(reflect.Value).Uint":            ext۰reflect۰Value۰Uint,
		"(reflect.error).Error":           ext۰reflect۰error۰Error,
		"(reflect.rtype).Bits":            ext۰reflect۰rtype۰Bits,
		"(reflect.rtype).Elem":            ext۰reflect۰rtype۰Elem,
		"(reflect.rtype).Field":           ext۰reflect۰rtype۰Field,
		"(reflect.rtype).In":              ext۰reflect۰rtype۰In,
		"(reflect.rtype).Kind":            ext۰reflect۰rtype۰Kind,
		"(reflect.rtype).NumField":        ext۰reflect۰rtype۰NumField,
		"(reflect.rtype).NumIn":           ext۰reflect۰rtype۰NumIn,
		"(reflect.rtype).NumMethod":       ext۰reflect۰rtype۰NumMethod,
		"(reflect.rtype).NumOut":          ext۰reflect۰rtype۰NumOut,
		"(reflect.rtype).Out":             ext۰reflect۰rtype۰Out,
		"(reflect.rtype).Size":            ext۰reflect۰rtype۰Size,
		"(reflect.rtype).String":          ext۰reflect۰rtype۰String,
		"math.Abs":                        ext۰math۰Abs,
		"math.Copysign":                   ext۰math۰Copysign,
		"math.Exp":                        ext۰math۰Exp,
		"math.Float32bits":                ext۰math۰Float32bits,
		"math.Float32frombits":            ext۰math۰Float32frombits,
		"math.Float64bits":                ext۰math۰Float64bits,
		"math.Float64frombits":            ext۰math۰Float64frombits,
		"math.Inf":                        ext۰math۰Inf,
		"math.IsNaN":                      ext۰math۰IsNaN,
		"math.Ldexp":                      ext۰math۰Ldexp,
		"math.Log":                        ext۰math۰Log,
		"math.Min":                        ext۰math۰Min,
		"math.NaN":                        ext۰math۰NaN,
		"math.Sqrt":                       ext۰math۰Sqrt,
		"reflect.New":                     ext۰reflect۰New,
		"reflect.SliceOf":                 ext۰reflect۰SliceOf,
		"reflect.TypeOf":                  ext۰reflect۰TypeOf,
		"reflect.ValueOf":                 ext۰reflect۰ValueOf,
		"reflect.Zero":                    ext۰reflect۰Zero,
	} {
		externals[k] = v
	}
}

func ext۰math۰Float64frombits(fr *frame, args []value) value {
	return math.Float64frombits(args[0].(uint64))
}

func ext۰math۰Float64bits(fr *frame, args []value) value {
	return math.Float64bits(args[0].(float64))
}

func ext۰math۰Float32frombits(fr *frame, args []value) value {
	return math.Float32frombits(args[0].(uint32))
}

func ext۰math۰Abs(fr *frame, args []value) value {
	return math.Abs(args[0].(float64))
}

func ext۰math۰Copysign(fr *frame, args []value) value {
	return math.Copysign(args[0].(float64), args[1].(float64))
}

func ext۰math۰Exp(fr *frame, args []value) value {
	return math.Exp(args[0].(float64))
}

func ext۰math۰Float32bits(fr *frame, args []value) value {
	return math.Float32bits(args[0].(float32))
}

func ext۰math۰Min(fr *frame, args []value) value {
	return math.Min(args[0].(float64), args[1].(float64))
}

func ext۰math۰NaN(fr *frame, args []value) value {
	return math.NaN()
}

func ext۰math۰IsNaN(fr *frame, args []value) value {
	return math.IsNaN(args[0].(float64))
}

func ext۰math۰Inf(fr *frame, args []value) value {
	return math.Inf(args[0].(int))
}

func ext۰math۰Ldexp(fr *frame, args []value) value {
	return math.Ldexp(args[0].(float64), args[1].(int))
}

func ext۰math۰Log(fr *frame, args []value) value {
	return math.Log(args[0].(float64))
}

func ext۰math۰Sqrt(fr *frame, args []value) value {
	return math.Sqrt(args[0].(float64))
}

