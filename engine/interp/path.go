package interp

// Per-path symbolic state: decision vector, path condition, cached model,
// forking by re-execution.

import (
	"fmt"
	"sort"
	"strings"
)

// dec is one recorded decision: the branch direction and, for
// concretizations, the candidate value the branch condition was built from.
type dec struct {
	b bool
	v uint64
}

type workItem struct {
	prefix []dec
	model  model
}

type inputRec struct {
	Name string
	t    *term
}

// Violation is a failed obligation with a concrete witness.
type Violation struct {
	Harness   string            `json:"harness"`
	Label     string            `json:"label"`
	Kind      string            `json:"kind"` // assert | panic | deadlock
	Inputs    map[string]uint64 `json:"inputs"`
	InputSeq  []string          `json:"input_order"`
	Decisions string            `json:"decisions"`
	Region    string            `json:"known_region,omitempty"`
	Detail    string            `json:"detail,omitempty"`
	Trace     []string          `json:"trace,omitempty"`
}

type pathStatus int

const (
	pathOK pathStatus = iota
	pathViolation
	pathInfeasible
	pathUnsupported
	pathLimit
	pathInternal
	pathKnown // ended in a known-finding region
)

// control-flow sentinels (host panics)
type pathAbort struct {
	status pathStatus
	msg    string
}

type pathCtx struct {
	tc        *tctx
	sol       *solver
	exp       *Explorer
	harness   string
	prefix    []dec
	pos       int
	decisions []dec
	model     model
	memo      map[int32]uint64
	pc        []*term
	pcSet     map[int32]bool // ids of the terms in pc
	inputs    []inputRec
	nameCount map[string]int
	steps     int64
	asserts   int // property assertions reached
	implicit  int // implicit checks discharged (symbolic)
	covers    map[string]bool
	regions   map[string]*term // known-finding regions marked on this path
	trace     []string
	concrete  model // non-nil: concrete replay mode (inputs fixed)
	forks     int
	violation *Violation
	knownHit  []string

	panicCaptured bool
	panicStack    []string
}

func (p *pathCtx) abort(st pathStatus, format string, args ...any) {
	panic(pathAbort{st, fmt.Sprintf(format, args...)})
}

func (p *pathCtx) unsupported(format string, args ...any) {
	panic(pathAbort{pathUnsupported, fmt.Sprintf(format, args...)})
}

func (p *pathCtx) eval(t *term) uint64 {
	if t.isConst() {
		return t.k
	}
	if p.memo == nil {
		p.memo = make(map[int32]uint64)
	}
	return evalTerm(t, p.model, p.memo)
}

func (p *pathCtx) setModel(m model) {
	p.model = m
	p.memo = nil
}

// fresh creates a named symbolic input of width w (0 = Bool).
func (p *pathCtx) fresh(name string, w uint8) *term {
	if p.nameCount == nil {
		p.nameCount = make(map[string]int)
	}
	n := p.nameCount[name]
	p.nameCount[name] = n + 1
	full := name
	if n > 0 {
		full = fmt.Sprintf("%s#%d", name, n)
	}
	if p.concrete != nil {
		v, ok := p.concrete[full]
		if !ok {
			v = 0
		}
		t := p.tc.bv(v, w)
		if w == 0 {
			t = p.tc.boolc(v != 0)
		}
		p.inputs = append(p.inputs, inputRec{full, t})
		return t
	}
	t := p.tc.newVar(full, w)
	p.inputs = append(p.inputs, inputRec{full, t})
	return t
}

func (p *pathCtx) addPC(t *term) {
	p.pc = append(p.pc, t)
	if p.pcSet == nil {
		p.pcSet = make(map[int32]bool)
	}
	p.pcSet[t.id] = true
	p.sol.assert(t)
}

// checkModel validates a solver model against the path condition with the
// engine's own evaluator (guards against parse errors and encoder bugs).
func (p *pathCtx) checkModel(m model, extra *term) {
	memo := make(map[int32]uint64)
	for _, c := range p.pc {
		if evalTerm(c, m, memo) == 0 {
			p.abort(pathInternal, "solver model does not satisfy path condition (term t%d)", c.id)
		}
	}
	if extra != nil && evalTerm(extra, m, memo) == 0 {
		p.abort(pathInternal, "solver model does not satisfy query term")
	}
}

// query checks pc ∧ extra. unknown results abort the path as a limit.
func (p *pathCtx) query(extra *term) (bool, model) {
	res, m := p.sol.check(extra, p.tc.vars)
	switch res {
	case resSat:
		p.checkModel(m, extra)
		return true, m
	case resUnsat:
		return false, nil
	}
	p.exp.noteUnknown()
	p.abort(pathLimit, "solver returned unknown")
	return false, nil
}

// branch decides a symbolic condition, forking when both sides are feasible.
func (p *pathCtx) branch(c *term) bool { return p.branchV(c, 0) }

func (p *pathCtx) branchV(c *term, val uint64) bool {
	if c.isConst() {
		return c.k != 0
	}
	if c.w != 0 {
		panic("branch on non-bool term")
	}
	if p.pos < len(p.prefix) {
		d := p.prefix[p.pos].b
		p.pos++
		if (p.eval(c) != 0) != d {
			p.abort(pathInternal, "replay divergence at decision %d", p.pos-1)
		}
		p.decisions = append(p.decisions, dec{d, val})
		if d {
			p.addPC(c)
		} else {
			p.addPC(p.tc.not(c))
		}
		return d
	}
	if len(p.decisions) >= p.exp.cfg.MaxDecisions {
		p.abort(pathLimit, "decision limit %d reached (unwinding bound)", p.exp.cfg.MaxDecisions)
	}
	mv := p.eval(c) != 0
	other, taken := c, p.tc.not(c)
	if mv {
		other, taken = taken, c
	}
	if p.pcSet[taken.id] {
		// the side taken by the current model is literally one of the path
		// constraints (terms are hash-consed), so the other side is
		// infeasible: no query, no new constraint.
		p.decisions = append(p.decisions, dec{mv, val})
		p.pos++
		return mv
	}
	if sat, m := p.query(other); sat {
		np := make([]dec, len(p.decisions)+1)
		copy(np, p.decisions)
		np[len(p.decisions)] = dec{!mv, val}
		p.exp.enqueue(workItem{np, m})
		p.forks++
	}
	p.decisions = append(p.decisions, dec{mv, val})
	p.pos++
	if mv {
		p.addPC(c)
	} else {
		p.addPC(p.tc.not(c))
	}
	return mv
}

// assume restricts the path to c; an infeasible assumption ends the path.
func (p *pathCtx) assume(c *term) {
	if c.isConst() {
		if c.k == 0 {
			p.abort(pathInfeasible, "assumption is false")
		}
		return
	}
	if p.eval(c) == 0 {
		if p.pos < len(p.prefix) {
			p.abort(pathInternal, "replay divergence: assumption false under stored model")
		}
		sat, m := p.query(c)
		if !sat {
			p.abort(pathInfeasible, "assumption infeasible")
		}
		p.setModel(m)
	}
	p.addPC(c)
}

func (p *pathCtx) decisionString() string {
	var sb strings.Builder
	for _, d := range p.decisions {
		if d.b {
			sb.WriteByte('1')
		} else {
			sb.WriteByte('0')
		}
	}
	return sb.String()
}

func (p *pathCtx) witness(m model) (map[string]uint64, []string) {
	memo := make(map[int32]uint64)
	out := make(map[string]uint64, len(p.inputs))
	var order []string
	for _, in := range p.inputs {
		out[in.Name] = evalTerm(in.t, m, memo)
		order = append(order, in.Name)
	}
	return out, order
}

func (p *pathCtx) fail(kind, label, detail string, m model) {
	in, order := p.witness(m)
	v := &Violation{Harness: p.harness, Label: label, Kind: kind, Inputs: in, InputSeq: order,
		Decisions: p.decisionString(), Detail: detail, Trace: append([]string(nil), p.trace...)}
	p.violation = v
	panic(pathAbort{pathViolation, label})
}

// assertProp checks a property assertion on this path for all inputs
// satisfying the path condition.
func (p *pathCtx) assertProp(c *term, label string) {
	p.asserts++
	if c.isConst() {
		if c.k == 0 {
			p.failOrKnown(p.tc.tTrue, label, "assert")
		}
		return
	}
	neg := p.tc.not(c)
	if p.eval(neg) != 0 {
		p.failOrKnown(neg, label, "assert")
	} else if p.pos < len(p.prefix) {
		// still inside the replayed prefix: the query was decided by the
		// run that created this prefix
	} else if sat, m := p.query(neg); sat {
		p.setModel(m)
		p.failOrKnown(neg, label, "assert")
	}
	p.addPC(c)
}

// failOrKnown reports a violation unless every violating input lies in a
// region listed as an open known finding.
func (p *pathCtx) failOrKnown(neg *term, label, kind string) {
	// regions marked on this path that are accepted as known findings
	var names []string
	for name := range p.regions {
		if p.exp.knownOpen(name) {
			names = append(names, name)
		}
	}
	sort.Strings(names)
	if len(names) == 0 {
		p.fail(kind, label, "", p.model)
	}
	outside := neg
	for _, n := range names {
		outside = p.tc.and(outside, p.tc.not(p.regions[n]))
	}
	if !outside.isConst() || outside.k != 0 {
		if outside.isConst() {
			p.fail(kind, label, "", p.model)
		}
		if p.eval(outside) != 0 {
			p.fail(kind, label, "", p.model)
		}
		if sat, m := p.query(outside); sat {
			p.setModel(m)
			p.fail(kind, label, "", m)
		}
	}
	// violation only inside known regions
	for _, n := range names {
		if p.eval(p.regions[n]) != 0 {
			p.exp.noteKnown(n, label)
			p.knownHit = append(p.knownHit, n)
		}
	}
	if len(p.knownHit) == 0 {
		p.exp.noteKnown(names[0], label)
	}
	// continue outside the known regions only
	for _, n := range names {
		c := p.tc.not(p.regions[n])
		if c.isConst() && c.k == 0 {
			panic(pathAbort{pathKnown, label})
		}
		if p.eval(c) == 0 {
			sat, m := p.query(c)
			if !sat {
				panic(pathAbort{pathKnown, label})
			}
			p.setModel(m)
		}
		p.addPC(c)
	}
}

func (p *pathCtx) cover(c *term, label string) {
	if p.covers == nil {
		p.covers = make(map[string]bool)
	}
	if p.covers[label] {
		return
	}
	if c.isConst() {
		if c.k != 0 {
			p.covers[label] = true
		}
		return
	}
	if p.eval(c) != 0 {
		p.covers[label] = true
		return
	}
	if p.exp.isCovered(label) {
		return
	}
	if p.pos < len(p.prefix) {
		return
	}
	if sat, _ := p.query(c); sat {
		p.covers[label] = true
	}
}

// concretize returns a concrete value for t on this path, forking over the
// alternatives (t == v is decided by branch, so every feasible value gets
// its own path).
func (p *pathCtx) concretize(t *term) uint64 {
	for {
		if t.isConst() {
			return t.k
		}
		var v uint64
		if p.pos < len(p.prefix) {
			v = p.prefix[p.pos].v
		} else {
			v = p.eval(t)
		}
		if p.branchV(p.tc.eq(t, p.tc.bv(v, t.w)), v) {
			return v
		}
	}
}
