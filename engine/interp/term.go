package interp

// SMT term DAG (QF_BV + Bool) with hash-consing, constant folding, a concrete
// evaluator (used to validate solver models and to avoid half of the
// feasibility queries) and SMT-LIB2 printing via incremental define-fun.

import (
	"fmt"
	"math/bits"
	"strings"
)

type opcode uint8

const (
	opVar opcode = iota
	opConst
	opNot
	opAnd
	opOr
	opIte
	opEq
	opUlt
	opUle
	opSlt
	opSle
	opAdd
	opSub
	opMul
	opUdiv
	opUrem
	opSdiv
	opSrem
	opBvand
	opBvor
	opBvxor
	opBvnot
	opNeg
	opShl
	opLshr
	opAshr
	opZext    // k = result width
	opSext    // k = result width
	opExtract // k = hi<<8|lo
	opConcat
)

var opNames = [...]string{
	opNot: "not", opAnd: "and", opOr: "or", opIte: "ite", opEq: "=",
	opUlt: "bvult", opUle: "bvule", opSlt: "bvslt", opSle: "bvsle",
	opAdd: "bvadd", opSub: "bvsub", opMul: "bvmul", opUdiv: "bvudiv", opUrem: "bvurem",
	opSdiv: "bvsdiv", opSrem: "bvsrem", opBvand: "bvand", opBvor: "bvor", opBvxor: "bvxor",
	opBvnot: "bvnot", opNeg: "bvneg", opShl: "bvshl", opLshr: "bvlshr", opAshr: "bvashr",
	opConcat: "concat",
}

// term is an immutable DAG node. w == 0 means sort Bool, otherwise
// (_ BitVec w) with 1 <= w <= 64.
type term struct {
	id      int32
	op      opcode
	w       uint8
	a, b, c *term
	k       uint64 // constant value (masked), or op parameter
	name    string // opVar
	defined bool   // already sent to the solver of this path
}

type termKey struct {
	op      opcode
	w       uint8
	a, b, c int32
	k       uint64
	name    string
}

// tctx is the per-path term factory.
type tctx struct {
	tab   map[termKey]*term
	next  int32
	vars  []*term
	tTrue *term
	tFals *term
}

func newTctx() *tctx {
	c := &tctx{tab: make(map[termKey]*term)}
	c.tTrue = c.mk(opConst, 0, nil, nil, nil, 1, "")
	c.tFals = c.mk(opConst, 0, nil, nil, nil, 0, "")
	return c
}

func tid(t *term) int32 {
	if t == nil {
		return -1
	}
	return t.id
}

func (c *tctx) mk(op opcode, w uint8, a, b, cc *term, k uint64, name string) *term {
	key := termKey{op, w, tid(a), tid(b), tid(cc), k, name}
	if t, ok := c.tab[key]; ok {
		return t
	}
	t := &term{id: c.next, op: op, w: w, a: a, b: b, c: cc, k: k, name: name}
	c.next++
	c.tab[key] = t
	if op == opVar {
		c.vars = append(c.vars, t)
	}
	return t
}

func mask(w uint8) uint64 {
	if w >= 64 {
		return ^uint64(0)
	}
	return (uint64(1) << w) - 1
}

func sext64(v uint64, w uint8) int64 {
	if w >= 64 {
		return int64(v)
	}
	sh := 64 - uint(w)
	return int64(v<<sh) >> sh
}

func (t *term) isConst() bool { return t.op == opConst }

func (c *tctx) newVar(name string, w uint8) *term {
	return c.mk(opVar, w, nil, nil, nil, 0, name)
}

func (c *tctx) bv(v uint64, w uint8) *term {
	return c.mk(opConst, w, nil, nil, nil, v&mask(w), "")
}

func (c *tctx) boolc(b bool) *term {
	if b {
		return c.tTrue
	}
	return c.tFals
}

func (c *tctx) not(a *term) *term {
	if a.isConst() {
		return c.boolc(a.k == 0)
	}
	if a.op == opNot {
		return a.a
	}
	return c.mk(opNot, 0, a, nil, nil, 0, "")
}

func (c *tctx) and(a, b *term) *term {
	if a.isConst() {
		if a.k == 0 {
			return c.tFals
		}
		return b
	}
	if b.isConst() {
		if b.k == 0 {
			return c.tFals
		}
		return a
	}
	if a == b {
		return a
	}
	return c.mk(opAnd, 0, a, b, nil, 0, "")
}

func (c *tctx) or(a, b *term) *term {
	if a.isConst() {
		if a.k != 0 {
			return c.tTrue
		}
		return b
	}
	if b.isConst() {
		if b.k != 0 {
			return c.tTrue
		}
		return a
	}
	if a == b {
		return a
	}
	return c.mk(opOr, 0, a, b, nil, 0, "")
}

func (c *tctx) ite(cond, a, b *term) *term {
	if cond.isConst() {
		if cond.k != 0 {
			return a
		}
		return b
	}
	if a == b {
		return a
	}
	if a.w == 0 && a.isConst() && b.isConst() {
		if a.k != 0 && b.k == 0 {
			return cond
		}
		if a.k == 0 && b.k != 0 {
			return c.not(cond)
		}
	}
	return c.mk(opIte, a.w, cond, a, b, 0, "")
}

func (c *tctx) eq(a, b *term) *term {
	if a == b {
		return c.tTrue
	}
	if a.isConst() && b.isConst() {
		return c.boolc(a.k == b.k)
	}
	if a.w != b.w {
		panic(fmt.Sprintf("eq: width mismatch %d vs %d", a.w, b.w))
	}
	if a.w == 0 {
		// boolean equality
		if a.isConst() {
			if a.k != 0 {
				return b
			}
			return c.not(b)
		}
		if b.isConst() {
			if b.k != 0 {
				return a
			}
			return c.not(a)
		}
	}
	if a.id > b.id {
		a, b = b, a
	}
	return c.mk(opEq, 0, a, b, nil, 0, "")
}

func evalCmp(op opcode, x, y uint64, w uint8) bool {
	switch op {
	case opUlt:
		return x < y
	case opUle:
		return x <= y
	case opSlt:
		return sext64(x, w) < sext64(y, w)
	case opSle:
		return sext64(x, w) <= sext64(y, w)
	}
	panic("evalCmp")
}

func (c *tctx) cmp(op opcode, a, b *term) *term {
	if a.w != b.w || a.w == 0 {
		panic(fmt.Sprintf("cmp: bad widths %d %d", a.w, b.w))
	}
	if a.isConst() && b.isConst() {
		return c.boolc(evalCmp(op, a.k, b.k, a.w))
	}
	if a == b {
		return c.boolc(op == opUle || op == opSle)
	}
	return c.mk(op, 0, a, b, nil, 0, "")
}

func evalBin(op opcode, x, y uint64, w uint8) uint64 {
	m := mask(w)
	switch op {
	case opAdd:
		return (x + y) & m
	case opSub:
		return (x - y) & m
	case opMul:
		return (x * y) & m
	case opUdiv:
		if y == 0 {
			return m
		}
		return (x / y) & m
	case opUrem:
		if y == 0 {
			return x
		}
		return (x % y) & m
	case opSdiv:
		sx, sy := sext64(x, w), sext64(y, w)
		if sy == 0 {
			if sx < 0 {
				return 1
			}
			return m
		}
		if sy == -1 {
			return uint64(-sx) & m
		}
		return uint64(sx/sy) & m
	case opSrem:
		sx, sy := sext64(x, w), sext64(y, w)
		if sy == 0 {
			return x
		}
		if sy == -1 {
			return 0
		}
		return uint64(sx%sy) & m
	case opBvand:
		return x & y
	case opBvor:
		return x | y
	case opBvxor:
		return x ^ y
	case opShl:
		if y >= uint64(w) {
			return 0
		}
		return (x << y) & m
	case opLshr:
		if y >= uint64(w) {
			return 0
		}
		return x >> y
	case opAshr:
		sx := sext64(x, w)
		if y >= uint64(w) {
			y = uint64(w) - 1
		}
		return uint64(sx>>y) & m
	}
	panic("evalBin")
}

func (c *tctx) bin(op opcode, a, b *term) *term {
	if a.w != b.w || a.w == 0 {
		panic(fmt.Sprintf("bin %s: bad widths %d %d", opNames[op], a.w, b.w))
	}
	if a.isConst() && b.isConst() {
		return c.bv(evalBin(op, a.k, b.k, a.w), a.w)
	}
	// light identities
	if op == opBvxor {
		// x^x = 0, (x^y)^y = x, (y^x)^y = x (terms are hash-consed); this
		// is what mask/unmask round trips of symbolic bytes reduce by
		if a == b {
			return c.bv(0, a.w)
		}
		if a.op == opBvxor {
			if a.a == b {
				return a.b
			}
			if a.b == b {
				return a.a
			}
		}
		if b.op == opBvxor {
			if b.a == a {
				return b.b
			}
			if b.b == a {
				return b.a
			}
		}
	}
	switch op {
	case opAdd, opBvor, opBvxor:
		if a.isConst() && a.k == 0 {
			return b
		}
		if b.isConst() && b.k == 0 {
			return a
		}
	case opSub, opShl, opLshr, opAshr:
		if b.isConst() && b.k == 0 {
			return a
		}
	case opBvand:
		if a.isConst() && a.k == 0 || b.isConst() && b.k == 0 {
			return c.bv(0, a.w)
		}
		if a.isConst() && a.k == mask(a.w) {
			return b
		}
		if b.isConst() && b.k == mask(a.w) {
			return a
		}
	case opMul:
		if a.isConst() && a.k == 1 {
			return b
		}
		if b.isConst() && b.k == 1 {
			return a
		}
		if a.isConst() && a.k == 0 || b.isConst() && b.k == 0 {
			return c.bv(0, a.w)
		}
	}
	return c.mk(op, a.w, a, b, nil, 0, "")
}

func (c *tctx) bvnot(a *term) *term {
	if a.isConst() {
		return c.bv(^a.k, a.w)
	}
	return c.mk(opBvnot, a.w, a, nil, nil, 0, "")
}

func (c *tctx) neg(a *term) *term {
	if a.isConst() {
		return c.bv(-a.k, a.w)
	}
	return c.mk(opNeg, a.w, a, nil, nil, 0, "")
}

func (c *tctx) zext(a *term, w uint8) *term {
	if a.w == w {
		return a
	}
	if a.w > w {
		panic("zext narrowing")
	}
	if a.isConst() {
		return c.bv(a.k, w)
	}
	return c.mk(opZext, w, a, nil, nil, uint64(w), "")
}

func (c *tctx) sextT(a *term, w uint8) *term {
	if a.w == w {
		return a
	}
	if a.w > w {
		panic("sext narrowing")
	}
	if a.isConst() {
		return c.bv(uint64(sext64(a.k, a.w)), w)
	}
	return c.mk(opSext, w, a, nil, nil, uint64(w), "")
}

// extract bits hi..lo (inclusive).
func (c *tctx) extract(a *term, hi, lo uint8) *term {
	w := hi - lo + 1
	if lo == 0 && w == a.w {
		return a
	}
	if a.isConst() {
		return c.bv(a.k>>lo, w)
	}
	if (a.op == opZext || a.op == opSext) && lo == 0 && w <= a.a.w {
		return c.extract(a.a, hi, 0)
	}
	return c.mk(opExtract, w, a, nil, nil, uint64(hi)<<8|uint64(lo), "")
}

func (c *tctx) concat(hi, lo *term) *term {
	w := hi.w + lo.w
	if w > 64 {
		panic("concat too wide")
	}
	if hi.isConst() && lo.isConst() {
		return c.bv(hi.k<<lo.w|lo.k, w)
	}
	return c.mk(opConcat, w, hi, lo, nil, 0, "")
}

// boolToBv turns a Bool term into a 1-bit vector (for ite-free encodings).
func (c *tctx) b2bv(a *term, w uint8) *term {
	return c.ite(a, c.bv(1, w), c.bv(0, w))
}

// ---------------------------------------------------------------------------
// Evaluation under a model (var name -> value). Unknown variables are 0.

type model map[string]uint64

func evalTerm(t *term, m model, memo map[int32]uint64) uint64 {
	if t.op == opConst {
		return t.k
	}
	if v, ok := memo[t.id]; ok {
		return v
	}
	var r uint64
	switch t.op {
	case opVar:
		r = m[t.name] & maskB(t.w)
	case opNot:
		r = 1 - evalTerm(t.a, m, memo)
	case opAnd:
		r = evalTerm(t.a, m, memo) & evalTerm(t.b, m, memo)
	case opOr:
		r = evalTerm(t.a, m, memo) | evalTerm(t.b, m, memo)
	case opIte:
		if evalTerm(t.a, m, memo) != 0 {
			r = evalTerm(t.b, m, memo)
		} else {
			r = evalTerm(t.c, m, memo)
		}
	case opEq:
		if evalTerm(t.a, m, memo) == evalTerm(t.b, m, memo) {
			r = 1
		}
	case opUlt, opUle, opSlt, opSle:
		if evalCmp(t.op, evalTerm(t.a, m, memo), evalTerm(t.b, m, memo), t.a.w) {
			r = 1
		}
	case opAdd, opSub, opMul, opUdiv, opUrem, opSdiv, opSrem, opBvand, opBvor, opBvxor, opShl, opLshr, opAshr:
		r = evalBin(t.op, evalTerm(t.a, m, memo), evalTerm(t.b, m, memo), t.w)
	case opBvnot:
		r = ^evalTerm(t.a, m, memo) & mask(t.w)
	case opNeg:
		r = -evalTerm(t.a, m, memo) & mask(t.w)
	case opZext:
		r = evalTerm(t.a, m, memo)
	case opSext:
		r = uint64(sext64(evalTerm(t.a, m, memo), t.a.w)) & mask(t.w)
	case opExtract:
		lo := uint8(t.k & 0xff)
		r = (evalTerm(t.a, m, memo) >> lo) & mask(t.w)
	case opConcat:
		r = evalTerm(t.a, m, memo)<<t.b.w | evalTerm(t.b, m, memo)
	default:
		panic("evalTerm: bad op")
	}
	memo[t.id] = r
	return r
}

func maskB(w uint8) uint64 {
	if w == 0 {
		return 1
	}
	return mask(w)
}

// ---------------------------------------------------------------------------
// SMT-LIB printing

func sortStr(w uint8) string {
	if w == 0 {
		return "Bool"
	}
	return fmt.Sprintf("(_ BitVec %d)", w)
}

func constStr(t *term) string {
	if t.w == 0 {
		if t.k != 0 {
			return "true"
		}
		return "false"
	}
	if t.w%4 == 0 {
		return fmt.Sprintf("#x%0*x", int(t.w/4), t.k)
	}
	return fmt.Sprintf("#b%0*b", int(t.w), t.k)
}

func (t *term) ref() string {
	switch t.op {
	case opConst:
		return constStr(t)
	case opVar:
		return "|" + t.name + "|"
	}
	return fmt.Sprintf("t%d", t.id)
}

func (t *term) body() string {
	switch t.op {
	case opZext:
		return fmt.Sprintf("((_ zero_extend %d) %s)", t.w-t.a.w, t.a.ref())
	case opSext:
		return fmt.Sprintf("((_ sign_extend %d) %s)", t.w-t.a.w, t.a.ref())
	case opExtract:
		return fmt.Sprintf("((_ extract %d %d) %s)", t.k>>8, t.k&0xff, t.a.ref())
	}
	var sb strings.Builder
	sb.WriteByte('(')
	sb.WriteString(opNames[t.op])
	for _, x := range [...]*term{t.a, t.b, t.c} {
		if x != nil {
			sb.WriteByte(' ')
			sb.WriteString(x.ref())
		}
	}
	sb.WriteByte(')')
	return sb.String()
}

// emitDefs appends to sb the declarations/definitions needed for t that have
// not been sent yet (post-order, iterative to survive deep DAGs).
func emitDefs(sb *strings.Builder, t *term) {
	type fr struct {
		t *term
		s int
	}
	stack := []fr{{t, 0}}
	for len(stack) > 0 {
		f := &stack[len(stack)-1]
		x := f.t
		if x.defined || x.op == opConst {
			stack = stack[:len(stack)-1]
			continue
		}
		kids := [...]*term{x.a, x.b, x.c}
		pushed := false
		for f.s < 3 {
			k := kids[f.s]
			f.s++
			if k != nil && !k.defined && k.op != opConst {
				stack = append(stack, fr{k, 0})
				pushed = true
				break
			}
		}
		if pushed {
			continue
		}
		x.defined = true
		if x.op == opVar {
			fmt.Fprintf(sb, "(declare-const |%s| %s)\n", x.name, sortStr(x.w))
		} else {
			fmt.Fprintf(sb, "(define-fun t%d () %s %s)\n", x.id, sortStr(x.w), x.body())
		}
		stack = stack[:len(stack)-1]
	}
}

func log2ceil(n int) uint8 {
	if n <= 1 {
		return 1
	}
	return uint8(bits.Len(uint(n - 1)))
}
