package interp

// Harness intrinsics: body-less functions declared in the overlay harness
// file of the package under test and intercepted here by name.

import (
	"fmt"
	"go/types"

	"golang.org/x/tools/go/ssa"
)

var intrinsics = map[string]externalFn{}

func (p *pathCtx) choose(n int, name string) int {
	if n <= 1 {
		return 0
	}
	w := log2ceil(n + 1) // the bound n itself must be representable at this width
	if w < 8 {
		w = 8
	}
	t := p.fresh(name, w)
	p.assume(p.tc.cmp(opUlt, t, p.tc.bv(uint64(n), w)))
	return int(p.concretize(t))
}

func (p *pathCtx) violationNoPanic(kind, label, detail string) {
	in, order := p.witness(p.model)
	p.violation = &Violation{Harness: p.harness, Label: label, Kind: kind, Inputs: in, InputSeq: order,
		Decisions: p.decisionString(), Detail: detail, Trace: append([]string(nil), p.trace...)}
}

func registerIntrinsics() {
	mkInt := func(kind types.BasicKind) externalFn {
		return func(fr *frame, a []value) value {
			p := fr.i.path
			t := p.fresh(goString(fr.i, a[0]), kindWidth(kind))
			return mkVal(kind, t)
		}
	}
	intrinsics["vBool"] = mkInt(types.Bool)
	intrinsics["vU8"] = mkInt(types.Uint8)
	intrinsics["vByte"] = mkInt(types.Uint8)
	intrinsics["vU16"] = mkInt(types.Uint16)
	intrinsics["vU32"] = mkInt(types.Uint32)
	intrinsics["vU64"] = mkInt(types.Uint64)
	intrinsics["vI8"] = mkInt(types.Int8)
	intrinsics["vI16"] = mkInt(types.Int16)
	intrinsics["vI32"] = mkInt(types.Int32)
	intrinsics["vI64"] = mkInt(types.Int64)
	intrinsics["vInt"] = mkInt(types.Int)
	intrinsics["vUint"] = mkInt(types.Uint)

	intrinsics["vAssume"] = func(fr *frame, a []value) value {
		p := fr.i.path
		p.assume(p.tc.termOf(a[0]))
		return nil
	}
	intrinsics["vAssert"] = func(fr *frame, a []value) value {
		p := fr.i.path
		c := p.tc.termOf(a[0])
		if fr.i.exp.cfg.Twin {
			c = p.tc.tFals
		}
		p.assertProp(c, goString(fr.i, a[1]))
		return nil
	}
	intrinsics["vCover"] = func(fr *frame, a []value) value {
		p := fr.i.path
		p.cover(p.tc.termOf(a[0]), goString(fr.i, a[1]))
		return nil
	}
	intrinsics["vKnown"] = func(fr *frame, a []value) value {
		p := fr.i.path
		name := goString(fr.i, a[0])
		c := p.tc.termOf(a[1])
		if old, ok := p.regions[name]; ok {
			c = p.tc.or(old, c)
		}
		p.regions[name] = c
		return nil
	}
	// vChoice(name, n) int in [0,n): concrete on each path
	intrinsics["vChoice"] = func(fr *frame, a []value) value {
		return fr.i.path.choose(int(asInt64(a[1])), goString(fr.i, a[0]))
	}
	// vRange(name, lo, hi) int: symbolic in [lo,hi]
	intrinsics["vRange"] = func(fr *frame, a []value) value {
		p := fr.i.path
		c := p.tc
		t := p.fresh(goString(fr.i, a[0]), 64)
		lo, hi := asInt64(a[1]), asInt64(a[2])
		p.assume(c.and(c.cmp(opSle, c.bv(uint64(lo), 64), t), c.cmp(opSle, t, c.bv(uint64(hi), 64))))
		return mkVal(types.Int, t)
	}
	intrinsics["vBytes"] = func(fr *frame, a []value) value {
		p := fr.i.path
		n := int(asInt64(a[1]))
		name := goString(fr.i, a[0])
		out := make([]value, n)
		for k := range out {
			out[k] = mkVal(types.Uint8, p.fresh(fmt.Sprintf("%s[%d]", name, k), 8))
		}
		return out
	}
	intrinsics["vString"] = func(fr *frame, a []value) value {
		p := fr.i.path
		n := int(asInt64(a[1]))
		name := goString(fr.i, a[0])
		out := make([]value, n)
		for k := range out {
			out[k] = mkVal(types.Uint8, p.fresh(fmt.Sprintf("%s[%d]", name, k), 8))
		}
		return mkStr(out)
	}
	// boolean combinators that do not branch
	intrinsics["vAnd"] = func(fr *frame, a []value) value { return fr.i.vand(a[0], a[1]) }
	intrinsics["vOr"] = func(fr *frame, a []value) value {
		return fr.i.vnot(fr.i.vand(fr.i.vnot(a[0]), fr.i.vnot(a[1])))
	}
	intrinsics["vNot"] = func(fr *frame, a []value) value { return fr.i.vnot(a[0]) }
	intrinsics["vImplies"] = func(fr *frame, a []value) value {
		return fr.i.vnot(fr.i.vand(a[0], fr.i.vnot(a[1])))
	}
	intrinsics["vIff"] = func(fr *frame, a []value) value { return fr.i.eqv(nil, a[0], a[1]) }
	intrinsics["vStrEq"] = func(fr *frame, a []value) value { return fr.i.strEq(a[0], a[1]) }
	intrinsics["vBytesEq"] = func(fr *frame, a []value) value {
		return fr.i.strEq(mkStr(a[0].([]value)), mkStr(a[1].([]value)))
	}
	intrinsics["vIteU64"] = func(fr *frame, a []value) value {
		if b, ok := a[0].(bool); ok {
			if b {
				return a[1]
			}
			return a[2]
		}
		v, _ := fr.i.vite(a[0].(sym).t, a[1], a[2])
		return v
	}
	intrinsics["vIteInt"] = intrinsics["vIteU64"]
	// concretization helpers
	intrinsics["vConcInt"] = func(fr *frame, a []value) value { return int(fr.i.concInt(a[0])) }
	intrinsics["vConcU64"] = func(fr *frame, a []value) value { return uint64(fr.i.concInt(a[0])) }
	intrinsics["vConcBool"] = func(fr *frame, a []value) value { return fr.i.truth(a[0]) }
	intrinsics["vConcString"] = func(fr *frame, a []value) value {
		bs := strBytes(a[0])
		for k := range bs {
			bs[k] = uint8(fr.i.concInt(bs[k]))
		}
		return mkStr(bs)
	}
	// scheduling / time
	intrinsics["vSettle"] = func(fr *frame, a []value) value { fr.i.sched.settle(); return nil }
	intrinsics["vYield"] = func(fr *frame, a []value) value { fr.i.sched.yield(); return nil }
	intrinsics["vAdvance"] = func(fr *frame, a []value) value {
		fr.i.sched.advance(fr.i.concInt(a[0]))
		return nil
	}
	intrinsics["vNowNano"] = func(fr *frame, a []value) value { return fr.i.sched.now }
	intrinsics["vPreempt"] = func(fr *frame, a []value) value {
		fr.i.sched.preempt = int(asInt64(a[0]))
		fr.i.sched.points = 0
		return nil
	}
	intrinsics["vAutoTime"] = func(fr *frame, a []value) value {
		fr.i.sched.autoTime = a[0].(bool)
		return nil
	}
	intrinsics["vPendingTimers"] = func(fr *frame, a []value) value { return len(fr.i.sched.pendingTimers()) }
	intrinsics["vFireTimer"] = func(fr *frame, a []value) value {
		ok := fr.i.sched.fireNextTimer()
		fr.i.sched.settle()
		return ok
	}
	// parameters (tier-dependent bounds)
	intrinsics["vParam"] = func(fr *frame, a []value) value {
		if v, ok := fr.i.exp.cfg.Params[goString(fr.i, a[0])]; ok {
			return v
		}
		return int(asInt64(a[1]))
	}
	intrinsics["vTrace"] = func(fr *frame, a []value) value {
		p := fr.i.path
		if len(p.trace) < 200 {
			p.trace = append(p.trace, goString(fr.i, a[0]))
		}
		return nil
	}
	// vStub(name, fn): from now on calls to the named function go to fn
	intrinsics["vStub"] = func(fr *frame, a []value) value {
		name := goString(fr.i, a[0])
		f := a[1].(iface).v
		switch f.(type) {
		case *ssa.Function, *closure:
		default:
			panic(fmt.Sprintf("vStub: not a function: %T", f))
		}
		fr.i.stubs[name] = f
		return nil
	}
	intrinsics["vUnstub"] = func(fr *frame, a []value) value {
		delete(fr.i.stubs, goString(fr.i, a[0]))
		return nil
	}
	intrinsics["vSymbolic"] = func(fr *frame, a []value) value { return true }
	// vInert(): an interface value whose methods are all no-ops
	intrinsics["vToken"] = func(fr *frame, a []value) value {
		fr.i.tokenSeq++
		return fmt.Sprintf("%s%d", goString(fr.i, a[0]), fr.i.tokenSeq)
	}
	intrinsics["vFail"] = func(fr *frame, a []value) value {
		p := fr.i.path
		p.assertProp(p.tc.tFals, goString(fr.i, a[0]))
		return nil
	}
	intrinsics["vUnreachable"] = intrinsics["vFail"]
}
