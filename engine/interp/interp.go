// Copyright 2013 The Go Authors. All rights reserved.
// Use of this source code is governed by a BSD-style
// license that can be found in the LICENSE file.

// Package interp is a symbolic executor for Go SSA, derived from
// golang.org/x/tools/go/ssa/interp (v0.50.0). The instruction semantics are
// those of the original interpreter; this fork adds symbolic scalar values
// backed by SMT terms, path forking by deterministic re-execution, explicit
// run-time checks (bounds, nil, division) as solver obligations, ordered
// maps, an interpreter-level scheduler with virtual time, and models for
// code that has no interpretable body.
package interp

import (
	"fmt"
	"go/token"
	"go/types"
	"os"
	"runtime"
	"runtime/debug"
	"slices"
	"strings"

	"golang.org/x/tools/go/ssa"
)

type continuation int

const (
	kNext continuation = iota
	kReturn
	kJump
)

// Mode is a bitmask of options affecting the interpreter.
type Mode uint

const (
	DisableRecover Mode = 1 << iota // Disable recover() in target programs; show interpreter crash instead.
	EnableTracing                   // Print a trace of all instructions as they are interpreted.
)

type methodSet map[string]*ssa.Function

// shared is the state common to all paths and workers (read-only after
// construction).
type shared struct {
	prog               *ssa.Program
	reflectPackage     *ssa.Package
	errorMethods       methodSet
	rtypeMethods       methodSet
	runtimeErrorString types.Type
	sizes              types.Sizes
	mode               Mode
}

// State of one path execution.
type interpreter struct {
	*shared
	globals   map[*ssa.Global]*value
	initState map[*ssa.Package]int
	path      *pathCtx
	sched     *scheduler
	exp       *Explorer
	funcs     map[*ssa.Function]struct{}
	models    map[string]int
	stubs     map[string]value // per-path stubs installed by the harness (fn name -> closure)
	chanSeq   int
	tokenSeq  int
	recorder  []value
	pools     map[*value][]value
	numerals  map[string]sym
}

type deferred struct {
	fn    value
	args  []value
	instr *ssa.Defer
	tail  *deferred
}

type frame struct {
	i                *interpreter
	caller           *frame
	fn               *ssa.Function
	block, prevBlock *ssa.BasicBlock
	env              map[ssa.Value]value // dynamic values of SSA variables
	locals           []value
	defers           *deferred
	result           value
	panicking        bool
	panic            any
	phitemps         []value // temporaries for parallel phi assignment
	backedges        int
}

func (fr *frame) get(key ssa.Value) value {
	switch key := key.(type) {
	case nil:
		// Hack; simplifies handling of optional attributes
		// such as ssa.Slice.{Low,High}.
		return nil
	case *ssa.Function, *ssa.Builtin:
		return key
	case *ssa.Const:
		return constValue(key)
	case *ssa.Global:
		return fr.i.global(key)
	}
	if r, ok := fr.env[key]; ok {
		return r
	}
	panic(fmt.Sprintf("get: no value for %T: %v", key, key.Name()))
}

// global returns the address of a package-level variable, allocating it
// lazily and initialising its package on first touch.
func (i *interpreter) global(g *ssa.Global) *value {
	if r, ok := i.globals[g]; ok {
		return r
	}
	cell := zero(deref(g.Type()))
	r := &cell
	i.globals[g] = r
	if g.Pkg != nil {
		i.ensureInit(g.Pkg)
	}
	return r
}

func deref(t types.Type) types.Type {
	if p, ok := t.Underlying().(*types.Pointer); ok {
		return p.Elem()
	}
	panic(fmt.Sprintf("deref: not a pointer: %v", t))
}

// ensureInit runs the package initialiser of pkg (shallowly: imported
// packages are initialised on demand when one of their globals is touched).
func (i *interpreter) ensureInit(pkg *ssa.Package) {
	if i.initState[pkg] != 0 {
		return
	}
	i.initState[pkg] = 1
	path := pkg.Pkg.Path()
	if i.exp.noInit(path) {
		i.initState[pkg] = 2
		return
	}
	init := pkg.Func("init")
	if init == nil || init.Blocks == nil {
		i.initState[pkg] = 2
		return
	}
	func() {
		defer func() {
			if r := recover(); r != nil {
				switch r := r.(type) {
				case pathAbort:
					if r.status == pathUnsupported {
						i.exp.noteInitProblem(path, r.msg)
						return
					}
					panic(r)
				case threadKill:
					panic(r)
				default:
					i.exp.noteInitProblem(path, fmt.Sprint(r))
				}
			}
		}()
		call(i, nil, token.NoPos, init, nil)
	}()
	i.initState[pkg] = 2
}

// runDefer runs a deferred call d.
// It always returns normally, but may set or clear fr.panic.
func (fr *frame) runDefer(d *deferred) {
	var ok bool
	defer func() {
		if !ok {
			r := recover()
			if isControl(r) {
				panic(r)
			}
			// Deferred call created a new state of panic.
			fr.panicking = true
			fr.panic = r
		}
	}()
	call(fr.i, fr, d.instr.Pos(), d.fn, d.args)
	ok = true
}

// isControl reports whether a host panic value is an engine control-flow
// sentinel that target code must never observe.
func isControl(r any) bool {
	switch r.(type) {
	case pathAbort, threadKill:
		return true
	}
	return false
}

// runDefers executes fr's deferred function calls in LIFO order.
func (fr *frame) runDefers() {
	for d := fr.defers; d != nil; d = d.tail {
		fr.runDefer(d)
	}
	fr.defers = nil
	if fr.panicking {
		panic(fr.panic) // new panic, or still panicking
	}
}

// lookupMethod returns the method set for type typ, which may be one
// of the interpreter's fake types.
func lookupMethod(i *interpreter, typ types.Type, meth *types.Func) *ssa.Function {
	switch typ {
	case rtypeType:
		return i.rtypeMethods[meth.Id()]
	case errorType:
		return i.errorMethods[meth.Id()]
	}
	return i.prog.LookupMethod(typ, meth.Pkg(), meth.Name())
}

func nilDeref() {
	panic(targetPanic{runtimeError("invalid memory address or nil pointer dereference")})
}

// visitInstr interprets a single ssa.Instruction within the activation
// record frame.  It returns a continuation value indicating where to
// read the next instruction from.
func visitInstr(fr *frame, instr ssa.Instruction) continuation {
	i := fr.i
	switch instr := instr.(type) {
	case *ssa.DebugRef:
		// no-op

	case *ssa.UnOp:
		fr.env[instr] = i.unop(instr, fr.get(instr.X))

	case *ssa.BinOp:
		fr.env[instr] = i.binop(instr.Op, instr.X.Type(), fr.get(instr.X), fr.get(instr.Y))

	case *ssa.Call:
		fn, args := prepareCall(fr, &instr.Call)
		fr.env[instr] = call(fr.i, fr, instr.Pos(), fn, args)

	case *ssa.ChangeInterface:
		fr.env[instr] = fr.get(instr.X)

	case *ssa.ChangeType:
		fr.env[instr] = fr.get(instr.X) // (can't fail)

	case *ssa.Convert:
		fr.env[instr] = i.conv(instr.Type(), instr.X.Type(), fr.get(instr.X))

	case *ssa.SliceToArrayPointer:
		fr.env[instr] = sliceToArrayPointer(instr.Type(), instr.X.Type(), fr.get(instr.X))

	case *ssa.MakeInterface:
		fr.env[instr] = iface{t: instr.X.Type(), v: fr.get(instr.X)}

	case *ssa.Extract:
		fr.env[instr] = fr.get(instr.Tuple).(tuple)[instr.Index]

	case *ssa.Slice:
		fr.env[instr] = i.slice(fr.get(instr.X), fr.get(instr.Low), fr.get(instr.High), fr.get(instr.Max))

	case *ssa.Return:
		switch len(instr.Results) {
		case 0:
		case 1:
			fr.result = fr.get(instr.Results[0])
		default:
			var res []value
			for _, r := range instr.Results {
				res = append(res, fr.get(r))
			}
			fr.result = tuple(res)
		}
		fr.block = nil
		return kReturn

	case *ssa.RunDefers:
		fr.runDefers()

	case *ssa.Panic:
		panic(targetPanic{fr.get(instr.X)})

	case *ssa.Send:
		ch, _ := fr.get(instr.Chan).(*vchan)
		i.sched.send(ch, fr.get(instr.X))

	case *ssa.Store:
		addr := fr.get(instr.Addr)
		switch addr := addr.(type) {
		case *value:
			if addr == nil {
				nilDeref()
			}
			store(deref(instr.Addr.Type()), addr, fr.get(instr.Val))
		case *symref:
			i.symStore(addr, fr.get(instr.Val))
		default:
			panic(fmt.Sprintf("store to %T", addr))
		}

	case *ssa.If:
		if s, ok := fr.get(instr.Cond).(sym); ok && OptArith {
			if k, done := i.ifConvert(fr, instr, s); done { // models_c35.go: opt-in state merging
				return k
			}
		}
		succ := 1
		if i.truth(fr.get(instr.Cond)) {
			succ = 0
		}
		fr.jump(fr.block.Succs[succ])
		return kJump

	case *ssa.Jump:
		fr.jump(fr.block.Succs[0])
		return kJump

	case *ssa.Defer:
		fn, args := prepareCall(fr, &instr.Call)
		defers := &fr.defers
		if into := fr.get(instr.DeferStack); into != nil {
			defers = into.(**deferred)
		}
		*defers = &deferred{
			fn:    fn,
			args:  args,
			instr: instr,
			tail:  *defers,
		}

	case *ssa.Go:
		fn, args := prepareCall(fr, &instr.Call)
		pos := instr.Pos()
		name := "go"
		switch f := fn.(type) {
		case *ssa.Function:
			name = f.String()
		case *closure:
			name = f.Fn.String()
		}
		i.sched.spawn(name, func() {
			call(i, nil, pos, fn, args)
		})

	case *ssa.MakeChan:
		n := i.concInt(fr.get(instr.Size))
		if n < 0 {
			panic(targetPanic{runtimeError("makechan: size out of range")})
		}
		i.chanSeq++
		fr.env[instr] = &vchan{id: i.chanSeq, cap: int(n)}

	case *ssa.Alloc:
		var addr *value
		if instr.Heap {
			// new
			addr = new(value)
			fr.env[instr] = addr
		} else {
			// local
			addr = fr.env[instr].(*value)
		}
		*addr = zero(deref(instr.Type()))

	case *ssa.MakeSlice:
		ln := i.concIntBounded(fr.get(instr.Len), "make: len")
		cp := i.concIntBounded(fr.get(instr.Cap), "make: cap")
		if ln < 0 {
			panic(targetPanic{runtimeError("makeslice: len out of range")})
		}
		if cp < ln {
			panic(targetPanic{runtimeError("makeslice: cap out of range")})
		}
		slice := make([]value, cp)
		tElt := instr.Type().Underlying().(*types.Slice).Elem()
		for i := range slice {
			slice[i] = zero(tElt)
		}
		fr.env[instr] = slice[:ln]

	case *ssa.MakeMap:
		fr.env[instr] = &smap{keyT: instr.Type().Underlying().(*types.Map).Key()}

	case *ssa.Range:
		fr.env[instr] = i.rangeIter(fr.get(instr.X))

	case *ssa.Next:
		fr.env[instr] = fr.get(instr.Iter).(iter).next()

	case *ssa.FieldAddr:
		p := fr.get(instr.X).(*value)
		if p == nil {
			nilDeref()
		}
		fr.env[instr] = &(*p).(structure)[instr.Field]

	case *ssa.Field:
		fr.env[instr] = fr.get(instr.X).(structure)[instr.Field]

	case *ssa.IndexAddr:
		fr.env[instr] = i.indexAddr(instr, fr.get(instr.X), fr.get(instr.Index))

	case *ssa.Index:
		fr.env[instr] = i.index(instr, fr.get(instr.X), fr.get(instr.Index))

	case *ssa.Lookup:
		fr.env[instr] = i.lookup(instr, fr.get(instr.X), fr.get(instr.Index))

	case *ssa.MapUpdate:
		m := fr.get(instr.Map).(*smap)
		i.mapInsert(m, fr.get(instr.Key), fr.get(instr.Value))

	case *ssa.TypeAssert:
		fr.env[instr] = typeAssert(instr, fr.get(instr.X).(iface))

	case *ssa.MakeClosure:
		var bindings []value
		for _, binding := range instr.Bindings {
			bindings = append(bindings, fr.get(binding))
		}
		fr.env[instr] = &closure{instr.Fn.(*ssa.Function), bindings}

	case *ssa.Phi:
		panic("unreachable") // phis are processed at block entry

	case *ssa.Select:
		var cases []selCase
		for _, state := range instr.States {
			ch, _ := fr.get(state.Chan).(*vchan)
			c := selCase{ch: ch}
			if state.Dir != types.RecvOnly {
				c.send = true
				c.val = fr.get(state.Send)
			}
			cases = append(cases, c)
		}
		chosen, recv, recvOk := i.sched.selectOp(cases, instr.Blocking)
		r := tuple{chosen, recvOk}
		for k, st := range instr.States {
			if st.Dir == types.RecvOnly {
				var v value
				if k == chosen && recvOk {
					v = recv
				} else {
					v = zero(st.Chan.Type().Underlying().(*types.Chan).Elem())
				}
				r = append(r, v)
			}
		}
		fr.env[instr] = r

	default:
		panic(fmt.Sprintf("unexpected instruction: %T", instr))
	}

	return kNext
}

func (fr *frame) jump(to *ssa.BasicBlock) {
	if to.Index <= fr.block.Index {
		fr.backedges++
		if fr.backedges > fr.i.exp.cfg.MaxUnwind {
			fr.i.path.abort(pathLimit, "unwinding bound %d exceeded in %s", fr.i.exp.cfg.MaxUnwind, fr.fn)
		}
	}
	fr.prevBlock, fr.block = fr.block, to
}

// prepareCall determines the function value and argument values for a
// function call in a Call, Go or Defer instruction, performing
// interface method lookup if needed.
func prepareCall(fr *frame, call *ssa.CallCommon) (fn value, args []value) {
	v := fr.get(call.Value)
	if call.Method == nil {
		// Function call.
		fn = v
	} else {
		// Interface method invocation.
		recv := v.(iface)
		if recv.t == nil {
			if fr.i.exp.inertNilIface(call.Method) {
				return inertFn{call.Method}, nil
			}
			nilDeref()
		}
		if _, ok := recv.v.(inertVal); ok {
			return inertFn{call.Method}, nil
		}
		if f := lookupMethod(fr.i, recv.t, call.Method); f == nil {
			// Unreachable in well-typed programs.
			panic(fmt.Sprintf("method set for dynamic type %v does not contain %s", recv.t, call.Method))
		} else {
			fn = f
		}
		args = append(args, recv.v)
	}
	for _, arg := range call.Args {
		args = append(args, fr.get(arg))
	}
	return
}

// inertFn is the callee of a method call on an inert receiver (a nil
// metrics interface): it does nothing and returns zero values.
type inertFn struct{ m *types.Func }

// inertVal marks interface payloads whose methods are all no-ops.
type inertVal struct{}

// call interprets a call to a function (function, builtin or closure)
// fn with arguments args, returning its result.
// callpos is the position of the callsite.
func call(i *interpreter, caller *frame, callpos token.Pos, fn value, args []value) value {
	switch fn := fn.(type) {
	case *ssa.Function:
		if fn == nil {
			nilDeref()
		}
		return callSSA(i, caller, callpos, fn, args, nil)
	case *closure:
		return callSSA(i, caller, callpos, fn.Fn, args, fn.Env)
	case *ssa.Builtin:
		return callBuiltin(caller, fn, args)
	case inertFn:
		return inertResult(fn.m.Type().(*types.Signature).Results())
	}
	panic(fmt.Sprintf("cannot call %T", fn))
}

func inertResult(res *types.Tuple) value {
	switch res.Len() {
	case 0:
		return nil
	case 1:
		return inertZero(res.At(0).Type())
	}
	t := make(tuple, res.Len())
	for k := range t {
		t[k] = inertZero(res.At(k).Type())
	}
	return t
}

// inertZero is zero(t) except that interface results are inert receivers, so
// that chains such as vec.WithLabelValues(..).Inc() keep going.
func inertZero(t types.Type) value {
	if _, ok := t.Underlying().(*types.Interface); ok && !isErrorType(t) {
		return iface{t: inertType, v: inertVal{}}
	}
	if p, ok := t.Underlying().(*types.Pointer); ok {
		if _, ok := p.Elem().Underlying().(*types.Struct); ok {
			v := zero(p.Elem())
			return &v
		}
	}
	return zero(t)
}

var inertType = makeNamedType("inert", &opaqueType{nil, "inert"})

func isErrorType(t types.Type) bool {
	return types.Identical(t, types.Universe.Lookup("error").Type())
}

func loc(fset *token.FileSet, pos token.Pos) string {
	if pos == token.NoPos {
		return ""
	}
	return " at " + fset.Position(pos).String()
}

// callSSA interprets a call to function fn with arguments args,
// and lexical environment env, returning its result.
// callpos is the position of the callsite.
func callSSA(i *interpreter, caller *frame, callpos token.Pos, fn *ssa.Function, args []value, env []value) value {
	if i.mode&EnableTracing != 0 {
		fset := fn.Prog.Fset
		fmt.Fprintf(os.Stderr, "Entering %s%s.\n", fn, loc(fset, fn.Pos()))
		suffix := ""
		if caller != nil {
			suffix = ", resuming " + caller.fn.String() + loc(fset, callpos)
		}
		defer fmt.Fprintf(os.Stderr, "Leaving %s%s.\n", fn, suffix)
	}
	fr := &frame{
		i:      i,
		caller: caller, // for panic/recover
		fn:     fn,
	}
	if fn.Parent() == nil {
		name := fnKey(fn)
		if st, ok := i.stubs[name]; ok {
			i.models["stub:"+name]++
			return call(i, caller, callpos, st, args)
		}
		if ext := lookupExternal(i, caller, fn, name); ext != nil {
			i.models[name]++
			return ext(fr, args)
		}
		if fn.Blocks == nil {
			chain := ""
			for c, k := caller, 0; c != nil && k < 4; c, k = c.caller, k+1 {
				chain += " <- " + fnKey(c.fn)
			}
			i.path.unsupported("no code for function: %s%s", name, chain)
		}
	}

	// generic function body?
	if fn.TypeParams().Len() > 0 && len(fn.TypeArgs()) == 0 {
		panic("interp requires ssa.BuilderMode to include InstantiateGenerics to execute generics")
	}
	i.funcs[fn] = struct{}{}

	fr.env = make(map[ssa.Value]value)
	fr.block = fn.Blocks[0]
	fr.locals = make([]value, len(fn.Locals))
	for i, l := range fn.Locals {
		fr.locals[i] = zero(deref(l.Type()))
		fr.env[l] = &fr.locals[i]
	}
	for i, p := range fn.Params {
		fr.env[p] = args[i]
	}
	for i, fv := range fn.FreeVars {
		fr.env[fv] = env[i]
	}
	var th *thread
	var prevTop *frame
	if i.sched != nil && i.sched.cur != nil {
		th = i.sched.cur
		prevTop = th.top
		th.top = fr
	}
	for fr.block != nil {
		runFrame(fr)
	}
	if th != nil {
		th.top = prevTop
	}
	return fr.result
}

// fnKey is the name under which models and stubs are registered: the
// function's String(), with instantiation brackets of generic origins
// stripped so that one model serves all instances.
func fnKey(fn *ssa.Function) string {
	if o := fn.Origin(); o != nil {
		return o.String()
	}
	return fn.String()
}

// runFrame executes SSA instructions starting at fr.block and
// continuing until a return, a panic, or a recovered panic.
func runFrame(fr *frame) {
	defer func() {
		if fr.block == nil {
			return // normal return
		}
		r := recover()
		if isControl(r) {
			panic(r)
		}
		if re, ok := r.(runtime.Error); ok {
			// A host run-time error inside the interpreter: an engine
			// defect or an uncovered implicit check, never a target panic.
			panic(pathAbort{pathInternal, fmt.Sprintf("host runtime error in %s: %v\n%s", fr.fn, re, debug.Stack())})
		}
		if s, ok := r.(string); ok {
			panic(pathAbort{pathInternal, fmt.Sprintf("interpreter panic in %s: %s\n%s", fr.fn, s, debug.Stack())})
		}
		if p := fr.i.path; !p.panicCaptured {
			p.panicCaptured = true
			p.panicStack = targetStack(fr)
		}
		fr.panicking = true
		fr.panic = r
		fr.runDefers()
		fr.block = fr.fn.Recover
	}()

	for {
		nonPhis := executePhis(fr)
		p := fr.i.path
		p.steps += int64(len(nonPhis))
		if p.steps > fr.i.exp.cfg.MaxSteps {
			p.abort(pathLimit, "step limit %d exceeded", fr.i.exp.cfg.MaxSteps)
		}
		for _, instr := range nonPhis {
			if fr.i.mode&EnableTracing != 0 {
				if v, ok := instr.(ssa.Value); ok {
					fmt.Fprintln(os.Stderr, "\t", v.Name(), "=", instr)
				} else {
					fmt.Fprintln(os.Stderr, "\t", instr)
				}
			}
			if visitInstr(fr, instr) == kReturn {
				return
			}
			// Inv: kNext (continue) or kJump (last instr)
		}
	}
}

// executePhis executes the phi-nodes at the start of the current
// block and returns the non-phi instructions.
func executePhis(fr *frame) []ssa.Instruction {
	firstNonPhi := -1
	for i, instr := range fr.block.Instrs {
		if _, ok := instr.(*ssa.Phi); !ok {
			firstNonPhi = i
			break
		}
	}
	// Inv: 0 <= firstNonPhi; every block contains a non-phi.

	nonPhis := fr.block.Instrs[firstNonPhi:]
	if firstNonPhi > 0 {
		phis := fr.block.Instrs[:firstNonPhi]
		predIndex := slices.Index(fr.block.Preds, fr.prevBlock)
		fr.phitemps = fr.phitemps[:0]
		for _, phi := range phis {
			phi := phi.(*ssa.Phi)
			fr.phitemps = append(fr.phitemps, fr.get(phi.Edges[predIndex]))
		}
		for i, phi := range phis {
			fr.env[phi.(*ssa.Phi)] = fr.phitemps[i]
		}
	}
	return nonPhis
}

// doRecover implements the recover() built-in.
func doRecover(caller *frame) value {
	// recover() must be exactly one level beneath the deferred
	// function (two levels beneath the panicking function) to
	// have any effect.  Thus we ignore both "defer recover()" and
	// "defer f() -> g() -> recover()".
	if caller != nil && caller.i.mode&DisableRecover == 0 &&
		!caller.panicking &&
		caller.caller != nil && caller.caller.panicking {
		caller.caller.panicking = false
		p := caller.caller.panic
		caller.caller.panic = nil
		caller.i.path.panicCaptured = false

		switch p := p.(type) {
		case targetPanic:
			// The target program explicitly called panic(), or an
			// implicit run-time check failed.
			if re, ok := p.v.(runtimeError); ok {
				return iface{caller.i.runtimeErrorString, re.Error()}
			}
			if s, ok := p.v.(string); ok {
				// engine-raised panic with a plain message
				return iface{caller.i.runtimeErrorString, s}
			}
			return p.v
		default:
			panic(fmt.Sprintf("unexpected panic type %T in target call to recover()", p))
		}
	}
	return iface{}
}

// targetStack renders the interpreted call stack ending at fr.
func targetStack(fr *frame) []string {
	var out []string
	for f := fr; f != nil && len(out) < 40; f = f.caller {
		pos := ""
		if f.block != nil {
			// best effort: position of the last instruction with a position in the block
			for k := len(f.block.Instrs) - 1; k >= 0; k-- {
				if p := f.block.Instrs[k].Pos(); p.IsValid() {
					pos = f.fn.Prog.Fset.Position(p).String()
					break
				}
			}
		}
		out = append(out, f.fn.String()+" "+pos)
	}
	return out
}

func hostStack() string {
	s := string(debug.Stack())
	if len(s) > 6000 {
		s = s[:6000]
	}
	return s
}

func panicString(v any) string {
	switch v := v.(type) {
	case targetPanic:
		switch x := v.v.(type) {
		case runtimeError:
			return x.Error()
		case string:
			return x
		case iface:
			if s, ok := x.v.(string); ok {
				return s
			}
			return strings.TrimSpace(toString(x))
		}
		return toString(v.v)
	case error:
		return v.Error()
	}
	return fmt.Sprint(v)
}
