package interp

// Indexing with explicit bounds checks and symbolic indices.

import (
	"fmt"
	"go/types"

	"golang.org/x/tools/go/ssa"
)

// symref is the address of elems[idx] for a symbolic idx (already checked to
// be in range). Loads become ite chains, stores guarded updates.
type symref struct {
	elems []value
	idx   *term // 64-bit
}

func (i *interpreter) boundsCheck(idx value, n int) {
	if s, ok := idx.(sym); ok {
		c := i.path.tc
		t := i.asInt64Term(s)
		if OptArith {
			if r, ok := rangeOf(t, 0); ok && r.lo >= 0 && r.hi < int64(n) {
				return // models_c35.go interval analysis: e.g. a zero-extended byte indexing a [256]T
			}
		}
		inb := c.cmp(opUlt, t, c.bv(uint64(n), 64))
		i.path.implicit++
		if !i.path.branch(inb) {
			panic(targetPanic{runtimeError(fmt.Sprintf("index out of range [symbolic] with length %d", n))})
		}
		return
	}
	k := asInt64(idx)
	if k < 0 || k >= int64(n) {
		panic(targetPanic{runtimeError(fmt.Sprintf("index out of range [%d] with length %d", k, n))})
	}
}

func allScalars(xs []value) bool {
	for _, x := range xs {
		if _, ok := kindOf(x); !ok {
			return false
		}
	}
	return true
}

func (i *interpreter) indexAddr(instr *ssa.IndexAddr, x, idx value) value {
	var elems []value
	switch x := x.(type) {
	case []value:
		elems = x
	case *value: // *array
		if x == nil {
			nilDeref()
		}
		elems = (*x).(array)
	default:
		panic(fmt.Sprintf("unexpected x type in IndexAddr: %T", x))
	}
	i.boundsCheck(idx, len(elems))
	if s, ok := idx.(sym); ok {
		if len(elems) > i.exp.cfg.IteIndexMin && allScalars(elems) {
			return &symref{elems: elems, idx: i.asInt64Term(s)}
		}
		return &elems[i.concInt(idx)]
	}
	return &elems[asInt64(idx)]
}

func (i *interpreter) symLoad(r *symref) value {
	if OptArith {
		if v, ok := i.constTableLoad(r); ok { // models_c34.go: mux tree for constant tables
			return v
		}
	}
	c := i.path.tc
	k0, _ := kindOf(r.elems[0])
	res := c.termOf(r.elems[len(r.elems)-1])
	for k := len(r.elems) - 2; k >= 0; k-- {
		res = c.ite(c.eq(r.idx, c.bv(uint64(k), 64)), c.termOf(r.elems[k]), res)
	}
	return mkVal(k0, res)
}

func (i *interpreter) symStore(r *symref, v value) {
	c := i.path.tc
	kd, ok := kindOf(v)
	if !ok {
		i.path.unsupported("store of %T through symbolic index", v)
	}
	tv := c.termOf(v)
	for k := range r.elems {
		r.elems[k] = mkVal(kd, c.ite(c.eq(r.idx, c.bv(uint64(k), 64)), tv, c.termOf(r.elems[k])))
	}
}

func (i *interpreter) index(instr *ssa.Index, x, idx value) value {
	switch x := x.(type) {
	case array:
		i.boundsCheck(idx, len(x))
		if s, ok := idx.(sym); ok {
			if len(x) > i.exp.cfg.IteIndexMin && allScalars(x) {
				return i.symLoad(&symref{elems: x, idx: i.asInt64Term(s)})
			}
			return x[i.concInt(idx)]
		}
		return x[asInt64(idx)]
	case string, sstr:
		return i.indexString(x, idx)
	}
	panic(fmt.Sprintf("unexpected x type in Index: %T", x))
}

func (i *interpreter) indexString(x, idx value) value {
	n := strLen(x)
	i.boundsCheck(idx, n)
	if s, ok := idx.(sym); ok {
		c := i.path.tc
		t := i.asInt64Term(s)
		res := c.termOf(strAt(x, n-1))
		for k := n - 2; k >= 0; k-- {
			res = c.ite(c.eq(t, c.bv(uint64(k), 64)), c.termOf(strAt(x, k)), res)
		}
		return mkVal(types.Uint8, res)
	}
	return strAt(x, int(asInt64(idx)))
}

// concIntBounded concretizes a length-like value. Values in [0,MaxSymLen]
// are enumerated by forking; negative values are represented by one witness
// (the caller panics on them); larger values are cut to (MaxSymLen, 2^16] and
// represented by one witness, which is recorded as a cut.
func (i *interpreter) concIntBounded(x value, what string) int64 {
	s, ok := x.(sym)
	if !ok {
		return asInt64(x)
	}
	p := i.path
	c := p.tc
	t := i.asInt64Term(s)
	if p.branch(c.cmp(opSlt, t, c.bv(0, 64))) {
		return sext64(p.eval(t), 64)
	}
	lim := uint64(i.exp.cfg.MaxSymLen)
	if p.branch(c.cmp(opSle, t, c.bv(lim, 64))) {
		return int64(p.concretize(t))
	}
	p.assume(c.cmp(opSle, t, c.bv(1<<16, 64)))
	v := p.eval(t)
	p.assume(c.eq(t, c.bv(v, 64)))
	i.exp.noteCut(fmt.Sprintf("%s: symbolic size in (%d, 65536] represented by one value; larger sizes not explored", what, lim))
	return int64(v)
}
