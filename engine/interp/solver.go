package interp

// One long-lived SMT solver process per worker, driven over stdin/stdout.

import (
	"bufio"
	"fmt"
	"io"
	"os"
	"os/exec"
	"strconv"
	"strings"
	"time"
)

type satResult int

const (
	resUnsat satResult = iota
	resSat
	resUnknown
)

func (r satResult) String() string {
	return [...]string{"unsat", "sat", "unknown"}[r]
}

type solver struct {
	cmd       *exec.Cmd
	in        io.WriteCloser
	out       *bufio.Reader
	timeoutMs int
	queries   int
	sat       int
	unsat     int
	unknown   int
	errors    int
	elapsed   time.Duration
	log       *bufio.Writer // optional transcript
	kind      string
}

// SolverCmd is the back end used for exploration ("z3", "z3-new", "cvc5").
var SolverCmd = "z3"

func solverArgv(kind string) []string {
	switch kind {
	case "cvc5":
		return []string{"cvc5", "--incremental", "--produce-models", "--lang=smt2"}
	case "z3-new":
		return []string{"z3-new", "-in"}
	default:
		return []string{"z3", "-in"}
	}
}

func newSolver(kind string, timeoutMs int) (*solver, error) {
	argv := solverArgv(kind)
	cmd := exec.Command(argv[0], argv[1:]...)
	in, err := cmd.StdinPipe()
	if err != nil {
		return nil, err
	}
	out, err := cmd.StdoutPipe()
	if err != nil {
		return nil, err
	}
	cmd.Stderr = os.Stderr
	if err := cmd.Start(); err != nil {
		return nil, err
	}
	s := &solver{cmd: cmd, in: in, out: bufio.NewReaderSize(out, 1<<16), timeoutMs: timeoutMs, kind: kind}
	s.reset()
	return s, nil
}

func (s *solver) send(str string) {
	if s.log != nil {
		s.log.WriteString(str)
	}
	io.WriteString(s.in, str)
}

func (s *solver) reset() {
	if s.kind == "cvc5" {
		s.send("(reset)\n(set-logic QF_BV)\n")
		s.send(fmt.Sprintf("(set-option :tlimit-per %d)\n", s.timeoutMs))
		return
	}
	s.send("(reset)\n")
	s.send(fmt.Sprintf("(set-option :timeout %d)\n", s.timeoutMs))
}

func (s *solver) close() {
	s.send("(exit)\n")
	s.in.Close()
	done := make(chan struct{})
	go func() { s.cmd.Wait(); close(done) }()
	select {
	case <-done:
	case <-time.After(2 * time.Second):
		s.cmd.Process.Kill()
	}
}

func (s *solver) readLine() string {
	line, err := s.out.ReadString('\n')
	if err != nil {
		return "(error \"solver died: " + err.Error() + "\")"
	}
	return strings.TrimSpace(line)
}

// assert adds t (a Bool term) permanently (until reset) to the solver.
func (s *solver) assert(t *term) {
	var sb strings.Builder
	emitDefs(&sb, t)
	fmt.Fprintf(&sb, "(assert %s)\n", t.ref())
	s.send(sb.String())
}

// check asks whether the current assertions plus extra (may be nil) are
// satisfiable. If sat and vars != nil, the model of vars is returned.
func (s *solver) check(extra *term, vars []*term) (satResult, model) {
	t0 := time.Now()
	var sb strings.Builder
	if extra != nil {
		emitDefs(&sb, extra)
		fmt.Fprintf(&sb, "(push 1)\n(assert %s)\n", extra.ref())
	}
	if s.kind == "z3-qfbv" {
		// z3's incremental core (after push) skips the QF_BV preprocessing/bit-blasting
		// pipeline; for arithmetic-heavy obligations (C35) the tactic is ~10x faster.
		sb.WriteString("(check-sat-using qfbv)\n")
	} else {
		sb.WriteString("(check-sat)\n")
	}
	s.send(sb.String())
	s.queries++
	line := s.readLine()
	for line == "" || line == "success" {
		line = s.readLine()
	}
	var res satResult
	switch {
	case line == "sat":
		res = resSat
		s.sat++
	case line == "unsat":
		res = resUnsat
		s.unsat++
	case line == "unknown":
		res = resUnknown
		s.unknown++
	default:
		// (error ...) or anything unexpected: inconclusive
		res = resUnknown
		s.errors++
		fmt.Fprintf(os.Stderr, "gosym: solver said: %s\n", line)
	}
	var m model
	if res == resSat && vars != nil {
		m = s.getModel(vars)
	}
	if extra != nil {
		s.send("(pop 1)\n")
	}
	s.elapsed += time.Since(t0)
	return res, m
}

func (s *solver) getModel(vars []*term) model {
	m := make(model, len(vars))
	if len(vars) == 0 {
		return m
	}
	var sb strings.Builder
	n := 0
	sb.WriteString("(get-value (")
	for _, v := range vars {
		if !v.defined {
			continue // never sent to the solver: unconstrained, 0 is fine
		}
		sb.WriteString(v.ref())
		sb.WriteByte(' ')
		n++
	}
	sb.WriteString("))\n")
	if n == 0 {
		return m
	}
	s.send(sb.String())
	// Response: ((|x| #x00) (|y| true)) possibly over several lines.
	var resp strings.Builder
	depth := 0
	started := false
	for {
		line := s.readLine()
		if strings.HasPrefix(line, "(error") {
			s.errors++
			fmt.Fprintf(os.Stderr, "gosym: solver get-value: %s\n", line)
			return m
		}
		resp.WriteString(line)
		resp.WriteByte(' ')
		inBar := false
		for _, ch := range line {
			switch {
			case ch == '|':
				inBar = !inBar
			case inBar:
			case ch == '(':
				depth++
				started = true
			case ch == ')':
				depth--
			}
		}
		if started && depth <= 0 {
			break
		}
	}
	parseModel(resp.String(), m)
	return m
}

func parseModel(s string, m model) {
	// ((name value) (name value) ...) where name is |quoted| or bare and value
	// is true/false/#x../#b../(_ bvN w)
	i, n := 0, len(s)
	skip := func() {
		for i < n && (s[i] == ' ' || s[i] == '\n' || s[i] == '\t' || s[i] == '\r') {
			i++
		}
	}
	skip()
	if i < n && s[i] == '(' {
		i++
	}
	for {
		skip()
		if i >= n || s[i] != '(' {
			return
		}
		i++
		skip()
		var name string
		if i < n && s[i] == '|' {
			j := strings.IndexByte(s[i+1:], '|')
			if j < 0 {
				return
			}
			name = s[i+1 : i+1+j]
			i = i + 1 + j + 1
		} else {
			k := i
			for k < n && s[k] != ' ' && s[k] != ')' {
				k++
			}
			name = s[i:k]
			i = k
		}
		skip()
		var v uint64
		if i < n && s[i] == '(' {
			// (_ bv123 8)
			var x uint64
			var w int
			fmt.Sscanf(s[i:], "(_ bv%d %d)", &x, &w)
			v = x
			k := strings.IndexByte(s[i:], ')')
			if k < 0 {
				return
			}
			i += k + 1
		} else {
			k := i
			for k < n && s[k] != ')' && s[k] != ' ' {
				k++
			}
			tok := s[i:k]
			switch {
			case tok == "true":
				v = 1
			case tok == "false":
				v = 0
			case strings.HasPrefix(tok, "#x"):
				v, _ = strconv.ParseUint(tok[2:], 16, 64)
			case strings.HasPrefix(tok, "#b"):
				v, _ = strconv.ParseUint(tok[2:], 2, 64)
			}
			i = k
		}
		m[name] = v
		skip()
		if i < n && s[i] == ')' {
			i++
		}
	}
}
