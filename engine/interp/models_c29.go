package interp

// Model for internal/websocket.maskBytes (C29/C31 harnesses).
//
// maskBytes has two regimes: buffers shorter than 2*wordSize (16 bytes) are
// masked by a plain byte loop, longer ones by an unsafe word-at-a-time loop
// that the interpreter cannot execute. The model keeps the REAL code for the
// short regime (the function body is interpreted as usual) and replaces only
// the long regime by its specification: b[i] ^= key[(pos+i)&3], result
// (pos+len(b))&3. In the read path that is under verification all payloads
// are < 16 bytes; the long regime is reached only when the client role writes
// a close frame whose reason is >= 14 bytes.

import (
	"go/token"
	"go/types"
	"strconv"

	"golang.org/x/tools/go/ssa"
)

func init() {
	externals["github.com/centrifugal/centrifuge/internal/websocket.maskBytes"] = func(fr *frame, a []value) value {
		b := a[2].([]value)
		if len(b) < 16 {
			return c29InterpretBody(fr, a)
		}
		key := a[0].(array)
		pos, ok := a[1].(int)
		if !ok {
			fr.i.path.unsupported("maskBytes model: symbolic pos")
		}
		for k := range b {
			b[k] = fr.i.binop(token.XOR, types.Typ[types.Uint8], b[k], key[(pos+k)&3])
		}
		return (pos + len(b)) & 3
	}
}

// strconv.Itoa of a SYMBOLIC int: the real formatBits walks the digits through
// table lookups and forks on every digit pair (hundreds of paths for a 16-bit
// value that only ends up in an error text). The model forks only on the sign
// and on the number of decimal digits; the digit bytes are exact terms
// ((v / 10^k) % 10 + '0'). Concrete arguments take the host implementation.
func init() {
	externals["strconv.Itoa"] = func(fr *frame, a []value) value {
		s, ok := a[0].(sym)
		if !ok {
			return strconv.Itoa(int(asInt64(a[0])))
		}
		// only for the package this model was written for; everybody else
		// keeps the real strconv code (and the FormatInt token model of C21)
		if c := fr.caller; c == nil || c.fn.Pkg == nil || c.fn.Pkg.Pkg.Path() != "github.com/centrifugal/centrifuge/internal/websocket" {
			return c29InterpretBody(fr, a)
		}
		p := fr.i.path
		c := p.tc
		t := s.t // 64-bit
		neg := p.branch(c.cmp(opSlt, t, c.bv(0, 64)))
		if neg {
			t = c.neg(t) // MinInt64 stays itself; its unsigned reading is 2^63: digits still right
		}
		nd := 20
		pow := uint64(10)
		for d := 1; d < 20; d++ {
			if p.branch(c.cmp(opUlt, t, c.bv(pow, 64))) {
				nd = d
				break
			}
			pow *= 10
		}
		var out []value
		if neg {
			out = append(out, uint8('-'))
		}
		div := uint64(1)
		for k := 1; k < nd; k++ {
			div *= 10
		}
		for k := 0; k < nd; k++ {
			dg := c.bin(opUrem, c.bin(opUdiv, t, c.bv(div, 64)), c.bv(10, 64))
			out = append(out, mkVal(types.Uint8, c.bin(opAdd, c.extract(dg, 7, 0), c.bv('0', 8))))
			div /= 10
		}
		return mkStr(out)
	}
}

// c29InterpretBody runs the SSA body of fr.fn (the tail of callSSA), for models
// that handle only part of a function's input space.
func c29InterpretBody(fr *frame, args []value) value {
	fn := fr.fn
	fr.i.funcs[fn] = struct{}{}
	fr.env = make(map[ssa.Value]value)
	fr.block = fn.Blocks[0]
	fr.locals = make([]value, len(fn.Locals))
	for k, l := range fn.Locals {
		fr.locals[k] = zero(deref(l.Type()))
		fr.env[l] = &fr.locals[k]
	}
	for k, p := range fn.Params {
		fr.env[p] = args[k]
	}
	for fr.block != nil {
		runFrame(fr)
	}
	return fr.result
}
