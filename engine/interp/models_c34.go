package interp

// Engine extension added for C34 (redisSlot): loads from a table of CONSTANT
// scalars through a symbolic index are encoded as a binary multiplexer tree
// over the index bits instead of a linear chain of (= idx k) tests. Both
// denote the same function of the index (the index is already known to be in
// range when a load is built); z3's rewriter lifts equalities over nested
// 256-way ite chains (one table lookup feeding the next, as in a table-driven
// CRC) and does not come back, while the multiplexer form bit-blasts directly.

// constTableLoad returns elems[idx] as a mux tree, or false when the table is
// not made of concrete scalars of one kind (or is small).
func (i *interpreter) constTableLoad(r *symref) (value, bool) {
	n := len(r.elems)
	if n < 16 {
		return nil, false
	}
	k0, ok := kindOf(r.elems[0])
	if !ok {
		return nil, false
	}
	c := i.path.tc
	leaves := make([]*term, n)
	for k, e := range r.elems {
		if isSym(e) {
			return nil, false
		}
		if kk, ok := kindOf(e); !ok || kk != k0 {
			return nil, false
		}
		leaves[k] = c.termOf(e)
	}
	bits := uint8(0)
	for (1 << bits) < n {
		bits++
	}
	// level b merges pairs that differ in index bit b
	cur := leaves
	for b := uint8(0); b < bits; b++ {
		sel := c.eq(c.extract(r.idx, b, b), c.bv(1, 1))
		next := make([]*term, (len(cur)+1)/2)
		for k := range next {
			lo := cur[2*k]
			hi := lo // out-of-range half: never selected (index < n), any value will do
			if 2*k+1 < len(cur) {
				hi = cur[2*k+1]
			}
			next[k] = c.ite(sel, hi, lo)
		}
		cur = next
	}
	return mkVal(k0, cur[0]), true
}
