package interp

// Symbolic scalar values and the Go operator semantics over them.

import (
	"fmt"
	"go/token"
	"go/types"
)

// sym is a symbolic scalar of Go basic kind k (Bool or an integer kind).
type sym struct {
	k types.BasicKind
	t *term
}

func kindWidth(k types.BasicKind) uint8 {
	switch k {
	case types.Bool:
		return 0
	case types.Int8, types.Uint8:
		return 8
	case types.Int16, types.Uint16:
		return 16
	case types.Int32, types.Uint32:
		return 32
	case types.Int, types.Int64, types.Uint, types.Uint64, types.Uintptr:
		return 64
	}
	panic(fmt.Sprintf("kindWidth: %v", k))
}

func kindSigned(k types.BasicKind) bool {
	switch k {
	case types.Int, types.Int8, types.Int16, types.Int32, types.Int64:
		return true
	}
	return false
}

// kindOf returns the basic kind of a concrete scalar value.
func kindOf(x value) (types.BasicKind, bool) {
	switch x.(type) {
	case bool:
		return types.Bool, true
	case int:
		return types.Int, true
	case int8:
		return types.Int8, true
	case int16:
		return types.Int16, true
	case int32:
		return types.Int32, true
	case int64:
		return types.Int64, true
	case uint:
		return types.Uint, true
	case uint8:
		return types.Uint8, true
	case uint16:
		return types.Uint16, true
	case uint32:
		return types.Uint32, true
	case uint64:
		return types.Uint64, true
	case uintptr:
		return types.Uintptr, true
	case sym:
		return x.(sym).k, true
	}
	return 0, false
}

func scalarBits(x value) uint64 {
	switch x := x.(type) {
	case bool:
		if x {
			return 1
		}
		return 0
	case int:
		return uint64(x)
	case int8:
		return uint64(x)
	case int16:
		return uint64(x)
	case int32:
		return uint64(x)
	case int64:
		return uint64(x)
	case uint:
		return uint64(x)
	case uint8:
		return uint64(x)
	case uint16:
		return uint64(x)
	case uint32:
		return uint64(x)
	case uint64:
		return x
	case uintptr:
		return uint64(x)
	}
	panic(fmt.Sprintf("scalarBits: %T", x))
}

// mkScalar builds a concrete value of kind k from raw bits.
func mkScalar(k types.BasicKind, v uint64) value {
	switch k {
	case types.Bool:
		return v != 0
	case types.Int:
		return int(v)
	case types.Int8:
		return int8(v)
	case types.Int16:
		return int16(v)
	case types.Int32:
		return int32(v)
	case types.Int64:
		return int64(v)
	case types.Uint:
		return uint(v)
	case types.Uint8:
		return uint8(v)
	case types.Uint16:
		return uint16(v)
	case types.Uint32:
		return uint32(v)
	case types.Uint64:
		return uint64(v)
	case types.Uintptr:
		return uintptr(v)
	}
	panic(fmt.Sprintf("mkScalar: %v", k))
}

func isSym(x value) bool {
	_, ok := x.(sym)
	return ok
}

// termOf returns the term for a scalar value (symbolic or concrete).
func (c *tctx) termOf(x value) *term {
	if s, ok := x.(sym); ok {
		return s.t
	}
	k, ok := kindOf(x)
	if !ok {
		panic(fmt.Sprintf("termOf: not a scalar: %T", x))
	}
	if k == types.Bool {
		return c.boolc(x.(bool))
	}
	return c.bv(scalarBits(x), kindWidth(k))
}

// mkVal wraps a term as a value of kind k, collapsing constants.
func mkVal(k types.BasicKind, t *term) value {
	if t.isConst() {
		return mkScalar(k, t.k)
	}
	return sym{k, t}
}

// symBinop implements binary operators when at least one operand is symbolic.
func (i *interpreter) symBinop(op token.Token, x, y value) value {
	c := i.path.tc
	kx, okx := kindOf(x)
	ky, oky := kindOf(y)
	if !okx || !oky {
		i.path.unsupported("symbolic operand mixed with %T %s %T", x, op, y)
	}
	tx, ty := c.termOf(x), c.termOf(y)
	switch op {
	case token.SHL, token.SHR:
		return i.symShift(op, kx, tx, ky, ty)
	}
	if kx != ky {
		panic(fmt.Sprintf("symBinop: kind mismatch %v %s %v", kx, op, ky))
	}
	if kx == types.Bool {
		switch op {
		case token.EQL:
			return mkVal(types.Bool, c.eq(tx, ty))
		case token.NEQ:
			return mkVal(types.Bool, c.not(c.eq(tx, ty)))
		case token.AND, token.LAND:
			return mkVal(types.Bool, c.and(tx, ty))
		case token.OR, token.LOR:
			return mkVal(types.Bool, c.or(tx, ty))
		}
		panic(fmt.Sprintf("symBinop: bad bool op %s", op))
	}
	signed := kindSigned(kx)
	switch op {
	case token.ADD:
		return mkVal(kx, c.bin(opAdd, tx, ty))
	case token.SUB:
		return mkVal(kx, c.bin(opSub, tx, ty))
	case token.MUL:
		return mkVal(kx, c.bin(opMul, tx, ty))
	case token.QUO, token.REM:
		// division by zero is a run-time panic
		zero := c.bv(0, tx.w)
		i.path.implicit++
		if i.path.branch(c.eq(ty, zero)) {
			panic(targetPanic{runtimeError("integer divide by zero")})
		}
		var o opcode
		switch {
		case op == token.QUO && signed:
			o = opSdiv
		case op == token.QUO:
			o = opUdiv
		case signed:
			o = opSrem
		default:
			o = opUrem
		}
		if OptArith {
			return mkVal(kx, c.divNarrow(o, tx, ty)) // models_c35.go: c.bin(o, tx, ty) at the needed width
		}
		return mkVal(kx, c.bin(o, tx, ty))
	case token.AND:
		return mkVal(kx, c.bin(opBvand, tx, ty))
	case token.OR:
		return mkVal(kx, c.bin(opBvor, tx, ty))
	case token.XOR:
		return mkVal(kx, c.bin(opBvxor, tx, ty))
	case token.AND_NOT:
		return mkVal(kx, c.bin(opBvand, tx, c.bvnot(ty)))
	case token.EQL:
		return mkVal(types.Bool, c.eq(tx, ty))
	case token.NEQ:
		return mkVal(types.Bool, c.not(c.eq(tx, ty)))
	case token.LSS:
		if signed {
			return mkVal(types.Bool, c.cmp(opSlt, tx, ty))
		}
		return mkVal(types.Bool, c.cmp(opUlt, tx, ty))
	case token.LEQ:
		if signed {
			return mkVal(types.Bool, c.cmp(opSle, tx, ty))
		}
		return mkVal(types.Bool, c.cmp(opUle, tx, ty))
	case token.GTR:
		if signed {
			return mkVal(types.Bool, c.cmp(opSlt, ty, tx))
		}
		return mkVal(types.Bool, c.cmp(opUlt, ty, tx))
	case token.GEQ:
		if signed {
			return mkVal(types.Bool, c.cmp(opSle, ty, tx))
		}
		return mkVal(types.Bool, c.cmp(opUle, ty, tx))
	}
	panic(fmt.Sprintf("symBinop: unsupported op %s", op))
}

func (i *interpreter) symShift(op token.Token, kx types.BasicKind, tx *term, ky types.BasicKind, ty *term) value {
	c := i.path.tc
	if kindSigned(ky) {
		// negative shift count panics
		i.path.implicit++
		if i.path.branch(c.cmp(opSlt, ty, c.bv(0, ty.w))) {
			panic(targetPanic{runtimeError("negative shift amount")})
		}
	}
	w := tx.w
	// bring the count to x's width, saturating
	var cnt *term
	var big *term // count >= w
	if ty.w > w {
		big = c.not(c.cmp(opUlt, ty, c.bv(uint64(w), ty.w)))
		cnt = c.extract(ty, w-1, 0)
	} else {
		cnt = c.zext(ty, w)
		big = c.not(c.cmp(opUlt, cnt, c.bv(uint64(w), w)))
	}
	var r *term
	switch {
	case op == token.SHL:
		r = c.ite(big, c.bv(0, w), c.bin(opShl, tx, cnt))
	case kindSigned(kx):
		r = c.ite(big, c.bin(opAshr, tx, c.bv(uint64(w-1), w)), c.bin(opAshr, tx, cnt))
	default:
		r = c.ite(big, c.bv(0, w), c.bin(opLshr, tx, cnt))
	}
	return mkVal(kx, r)
}

func (i *interpreter) symUnop(op token.Token, x sym) value {
	c := i.path.tc
	switch op {
	case token.NOT:
		return mkVal(types.Bool, c.not(x.t))
	case token.SUB:
		return mkVal(x.k, c.neg(x.t))
	case token.XOR:
		return mkVal(x.k, c.bvnot(x.t))
	}
	panic(fmt.Sprintf("symUnop: %s", op))
}

// symConv converts a symbolic integer to another integer kind.
func (i *interpreter) symConv(dst types.BasicKind, x sym) value {
	c := i.path.tc
	if x.k == types.Bool || dst == types.Bool {
		if x.k == dst {
			return x
		}
		panic("symConv: bool conversion")
	}
	switch dst {
	case types.Float32, types.Float64, types.Complex64, types.Complex128, types.String, types.UnsafePointer:
		i.path.unsupported("conversion of symbolic integer to %v", dst)
	}
	sw, dw := x.t.w, kindWidth(dst)
	var t *term
	switch {
	case dw == sw:
		t = x.t
	case dw < sw:
		t = c.extract(x.t, dw-1, 0)
	case kindSigned(x.k):
		t = c.sextT(x.t, dw)
	default:
		t = c.zext(x.t, dw)
	}
	return mkVal(dst, t)
}

// OptArith enables the opt-in arithmetic optimisations of models_c34/c35
// (if-conversion in listed functions, division narrowing, interval-based
// bounds-check elision, mux-tree loads from constant tables). Off by default;
// the registries of C34 and C35 switch it on with -opt-arith.
var OptArith bool

type runtimeError string

func (e runtimeError) Error() string { return "runtime error: " + string(e) }

// truth forces a (possibly symbolic) boolean to a concrete one by branching.
func (i *interpreter) truth(x value) bool {
	switch x := x.(type) {
	case bool:
		return x
	case sym:
		return i.path.branch(x.t)
	}
	panic(fmt.Sprintf("truth: %T", x))
}

// vand / vor / vnot combine possibly-symbolic booleans without branching.
func (i *interpreter) vand(x, y value) value {
	if xb, ok := x.(bool); ok {
		if !xb {
			return false
		}
		return y
	}
	if yb, ok := y.(bool); ok {
		if !yb {
			return false
		}
		return x
	}
	c := i.path.tc
	return mkVal(types.Bool, c.and(c.termOf(x), c.termOf(y)))
}

func (i *interpreter) vnot(x value) value {
	if xb, ok := x.(bool); ok {
		return !xb
	}
	return mkVal(types.Bool, i.path.tc.not(x.(sym).t))
}

// concInt concretizes a possibly symbolic integer (forking over its feasible
// values).
func (i *interpreter) concInt(x value) int64 {
	if s, ok := x.(sym); ok {
		v := i.path.concretize(s.t)
		if kindSigned(s.k) {
			return sext64(v, s.t.w)
		}
		return int64(v)
	}
	return asInt64(x)
}

// vite builds if-then-else over two values of the same scalar kind.
func (i *interpreter) vite(cond *term, a, b value) (value, bool) {
	ka, oka := kindOf(a)
	kb, okb := kindOf(b)
	if !oka || !okb || ka != kb {
		return nil, false
	}
	c := i.path.tc
	return mkVal(ka, c.ite(cond, c.termOf(a), c.termOf(b))), true
}
