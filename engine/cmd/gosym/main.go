// gosym: bounded symbolic execution of Go SSA with an SMT solver.
//
//	gosym run -dir /repo -pkg ./internal/recovery -files h1.go,h2.go \
//	     -harness vh_a,vh_b -params k=v -out result.json
//
// The harness files are injected into the package as an overlay (nothing is
// written under -dir). Exit status: 0 no violation, 1 violation, 2
// inconclusive (unsupported construct, limit, solver unknown, load error).
package main

import (
	"encoding/json"
	"flag"
	"fmt"
	"os"
	"path/filepath"
	"regexp"
	"strconv"
	"strings"
	"time"

	"gosym/interp"
)

type runOutput struct {
	Pkg        string                  `json:"pkg"`
	LoadS      float64                 `json:"load_s"`
	WallS      float64                 `json:"wall_s"`
	Harnesses  []*interp.HarnessResult `json:"harnesses"`
	Error      string                  `json:"error,omitempty"`
	Solver     string                  `json:"solver"`
	Config     map[string]any          `json:"config"`
	ReplayOK   *bool                   `json:"replay_reproduced,omitempty"`
	ReplayNote string                  `json:"replay_note,omitempty"`
}

func main() {
	if len(os.Args) < 2 {
		fmt.Fprintln(os.Stderr, "usage: gosym run|replay [flags]")
		os.Exit(2)
	}
	cmd := os.Args[1]
	fs := flag.NewFlagSet(cmd, flag.ExitOnError)
	dir := fs.String("dir", "/repo", "module directory")
	pkg := fs.String("pkg", ".", "package pattern")
	files := fs.String("files", "", "comma-separated harness source files to overlay into the package")
	harness := fs.String("harness", "", "comma-separated harness function names")
	params := fs.String("params", "", "k=v,... harness parameters")
	known := fs.String("known", "", "comma-separated open known-finding regions")
	out := fs.String("out", "", "result JSON path")
	workers := fs.Int("workers", 16, "parallel workers")
	solver := fs.String("solver", "z3", "z3 | z3-qfbv (z3 with check-sat-using qfbv) | z3-new | cvc5")
	timeout := fs.Int("solver-timeout-ms", 10000, "per query")
	maxPaths := fs.Int("max-paths", 200000, "per harness")
	maxDec := fs.Int("max-decisions", 4000, "per path")
	maxSteps := fs.Int64("max-steps", 20000000, "per path")
	maxUnwind := fs.Int("max-unwind", 1<<22, "back edges per frame")
	preempt := fs.Int("preempt", 0, "preemption budget")
	maxSched := fs.Int("max-sched-points", 600, "scheduling points per path at which a preemption is considered")
	twin := fs.Bool("twin", false, "vacuity twin: every property assertion replaced by false")
	verbose := fs.Bool("v", false, "verbose")
	gobin := fs.String("gobin", "/opt/veriftools/go1.26.8/bin", "directory of the go tool used for loading")
	replayFile := fs.String("replay", "", "counterexample JSON to replay concretely (replay command)")
	runInit := fs.String("run-init", "", "package paths whose explicit init functions run")
	stopFirst := fs.Bool("stop-on-violation", false, "stop at the first violation")
	tags := fs.String("tags", "", "build tags")
	optArith := fs.Bool("opt-arith", false, "enable if-conversion/division narrowing/const-table mux (models_c34/c35)")
	fs.Parse(os.Args[2:])

	interp.OptArith = *optArith
	t0 := time.Now()
	res := &runOutput{Pkg: *pkg, Solver: *solver}
	fail := func(err error) {
		res.Error = err.Error()
		writeOut(*out, res)
		fmt.Fprintln(os.Stderr, "gosym:", err)
		os.Exit(2)
	}

	absdir, _ := filepath.Abs(*dir)
	pkgdir := filepath.Join(absdir, *pkg)
	overlay := map[string][]byte{}
	for _, f := range strings.Split(*files, ",") {
		if f == "" {
			continue
		}
		b, err := os.ReadFile(f)
		if err != nil {
			fail(err)
		}
		overlay[filepath.Join(pkgdir, filepath.Base(f))] = b
	}
	prog, err := interp.Load(absdir, []string{*pkg}, overlay, *gobin, *tags)
	if err != nil {
		fail(err)
	}
	res.LoadS = prog.LoadS

	cfg := interp.DefaultConfig()
	cfg.Workers = *workers
	cfg.Solver = *solver
	cfg.SolverTimeoutMs = *timeout
	cfg.MaxPaths = *maxPaths
	cfg.MaxDecisions = *maxDec
	cfg.MaxSteps = *maxSteps
	cfg.MaxUnwind = *maxUnwind
	cfg.Preempt = *preempt
	cfg.MaxSchedPoints = *maxSched
	cfg.Twin = *twin
	cfg.Verbose = *verbose
	cfg.StopOnViolation = *stopFirst
	for _, kv := range strings.Split(*params, ",") {
		if kv == "" {
			continue
		}
		k, v, _ := strings.Cut(kv, "=")
		n, err := strconv.Atoi(v)
		if err != nil {
			fail(fmt.Errorf("bad param %q", kv))
		}
		cfg.Params[k] = n
	}
	for _, k := range strings.Split(*known, ",") {
		if k != "" {
			cfg.KnownOpen[k] = true
		}
	}
	for _, k := range strings.Split(*runInit, ",") {
		if k != "" {
			cfg.RunInitFuncs = append(cfg.RunInitFuncs, k)
		}
	}
	res.Config = map[string]any{
		"workers": cfg.Workers, "max_paths": cfg.MaxPaths, "max_decisions_per_path": cfg.MaxDecisions,
		"max_steps_per_path": cfg.MaxSteps, "max_unwind_per_frame": cfg.MaxUnwind, "preemption_bound": cfg.Preempt,
		"solver_timeout_ms": cfg.SolverTimeoutMs, "params": cfg.Params, "twin": cfg.Twin,
	}

	names := strings.Split(*harness, ",")
	if *harness == "" {
		fail(fmt.Errorf("no harness given"))
	}
	exit := 0
	switch cmd {
	case "run":
		for _, h := range names {
			fn := prog.FindFunc(h)
			if fn == nil {
				fail(fmt.Errorf("harness %s not found in %s", h, *pkg))
			}
			ex := interp.NewExplorer(prog, fn, cfg)
			hr := ex.Run()
			res.Harnesses = append(res.Harnesses, hr)
			if len(hr.Violations) > 0 {
				if exit == 0 {
					exit = 1
				}
			} else if !hr.Exhaustive && exit == 0 {
				exit = 2
			}
			if *verbose {
				fmt.Fprintf(os.Stderr, "%s: paths=%d ok=%d viol=%d unsup=%d limit=%d internal=%d queries=%d wall=%.1fs\n",
					h, hr.Paths, hr.PathsOK, len(hr.Violations), hr.Unsupported, hr.LimitHit, hr.Internal, hr.Queries, hr.WallS)
				for _, p := range hr.Problems {
					fmt.Fprintln(os.Stderr, "   problem:", p)
				}
			}
		}
		// violations take precedence over inconclusive
		for _, hr := range res.Harnesses {
			if len(hr.Violations) > 0 {
				exit = 1
			}
		}
	case "replay":
		b, err := os.ReadFile(*replayFile)
		if err != nil {
			fail(err)
		}
		var v interp.Violation
		if err := json.Unmarshal(b, &v); err != nil {
			fail(err)
		}
		fn := prog.FindFunc(v.Harness)
		if fn == nil {
			fail(fmt.Errorf("harness %s not found", v.Harness))
		}
		ex := interp.NewExplorer(prog, fn, cfg)
		got, note := ex.ReplayConcrete(v.Inputs)
		ok := got != nil && normLabel(got.Label) == normLabel(v.Label)
		if got != nil && !ok && got.Kind == "panic" && v.Kind == "panic" {
			// a symbolic-path run-time panic carries no operand values; the
			// concrete one appends them ("... [0:2:1] with capacity 1")
			a, b := normLabel(got.Label), normLabel(v.Label)
			ok = strings.HasPrefix(a, b) || strings.HasPrefix(b, a)
		}
		res.ReplayOK = &ok
		if got != nil {
			res.ReplayNote = "reproduced: " + got.Kind + " " + got.Label
		} else {
			res.ReplayNote = "not reproduced: " + note
		}
		if ok {
			exit = 1
		} else {
			exit = 2
		}
	default:
		fail(fmt.Errorf("unknown command %s", cmd))
	}
	res.WallS = time.Since(t0).Seconds()
	writeOut(*out, res)
	os.Exit(exit)
}

var digits = regexp.MustCompile(`[0-9]+`)

func normLabel(s string) string { return digits.ReplaceAllString(s, "N") }

func writeOut(path string, res *runOutput) {
	b, _ := json.MarshalIndent(res, "", " ")
	if path == "" {
		os.Stdout.Write(b)
		os.Stdout.WriteString("\n")
		return
	}
	os.WriteFile(path, b, 0o644)
}
