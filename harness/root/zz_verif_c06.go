package centrifuge

// C06 part A: presenceHub (presence_memory.go) against a reference set.
//
// The reference is a fixed table of slots (channel x client id) holding a
// symbolic "present" bit and a symbolic user index; it is updated with
// non-branching combinators only, so every fork of a path comes from the
// real map code (lookups with symbolic keys).

const (
	c06NCh  = 2
	c06NCid = 3
	c06NUid = 2
)

var c06Chans = [c06NCh]string{"a", "b"}
var c06Cids = [c06NCid]string{"c0", "c1", "c2"}
var c06Uids = [c06NUid]string{"u0", "u1"}

// c06Sym returns prefix+digit with a symbolic digit in [0,n) and the digit.
func c06Sym(name, prefix string, n int) (string, uint64) {
	d := vU8(name)
	vAssume(d < uint8(n))
	return prefix + string([]byte{'0' + d}), uint64(d)
}

type c06Ref struct {
	present [c06NCh][c06NCid]bool
	user    [c06NCh][c06NCid]uint64
}

func (r *c06Ref) add(ch int, cid, uid uint64) {
	for i := 0; i < c06NCid; i++ {
		hit := cid == uint64(i)
		r.present[ch][i] = vOr(r.present[ch][i], hit)
		r.user[ch][i] = vIteU64(hit, uid, r.user[ch][i])
	}
}

func (r *c06Ref) remove(ch int, cid uint64) {
	for i := 0; i < c06NCid; i++ {
		r.present[ch][i] = vAnd(r.present[ch][i], cid != uint64(i))
	}
}

// check compares get/getStats of every channel with the reference.
func (r *c06Ref) check(h *presenceHub) {
	for ch := 0; ch < c06NCh; ch++ {
		wantClients := 0
		var userSeen [c06NUid]bool
		for i := 0; i < c06NCid; i++ {
			wantClients += vIteInt(r.present[ch][i], 1, 0)
			for u := 0; u < c06NUid; u++ {
				userSeen[u] = vOr(userSeen[u], vAnd(r.present[ch][i], r.user[ch][i] == uint64(u)))
			}
		}
		wantUsers := 0
		for u := 0; u < c06NUid; u++ {
			wantUsers += vIteInt(userSeen[u], 1, 0)
		}
		st, err := h.getStats(c06Chans[ch])
		vAssert(err == nil, "stats-no-error")
		vAssert(st.NumClients == wantClients, "stats-num-clients==distinct-clients")
		vAssert(st.NumUsers == wantUsers, "stats-num-users==distinct-users")
		vCover(vAnd(st.NumClients == 3, st.NumUsers == 1), "three-clients-one-user")
		vCover(vAnd(st.NumClients == 2, st.NumUsers == 2), "two-clients-two-users")

		data, err := h.get(c06Chans[ch])
		vAssert(err == nil, "get-no-error")
		vAssert(len(data) == wantClients, "get-size==distinct-clients")
		// every returned entry is a present reference slot with the stored info;
		// map keys are pairwise distinct, so with the size check this is a bijection.
		for k, info := range data {
			vAssert(info != nil, "get-info-non-nil")
			ok := false
			for i := 0; i < c06NCid; i++ {
				for u := 0; u < c06NUid; u++ {
					ok = vOr(ok, vAnd(vAnd(vStrEq(k, c06Cids[i]), r.present[ch][i]),
						vAnd(r.user[ch][i] == uint64(u), vAnd(vStrEq(info.UserID, c06Uids[u]), vStrEq(info.ClientID, c06Cids[i])))))
				}
			}
			vAssert(ok, "get-entry-is-reference-entry-with-its-info")
		}
	}
}

func (r *c06Ref) op(h *presenceHub) {
	ch := vChoice("ch", c06NCh)
	cid, ci := c06Sym("cid", "c", c06NCid)
	if vBool("add") {
		uid, ui := c06Sym("uid", "u", c06NUid)
		err := h.add(c06Chans[ch], cid, &ClientInfo{ClientID: cid, UserID: uid})
		vAssert(err == nil, "add-no-error")
		r.add(ch, ci, ui)
	} else {
		err := h.remove(c06Chans[ch], cid)
		vAssert(err == nil, "remove-no-error")
		r.remove(ch, ci)
	}
}

// vh_C06_hub_seq: a symbolic sequence of add/remove on a fresh hub; after
// every operation get/getStats of every channel equal the reference.
func vh_C06_hub_seq() {
	n := vParam("c06_ops", 4)
	h := newPresenceHub()
	r := &c06Ref{}
	checkEach := vParam("c06_check_each", 0) == 1
	for k := 0; k < n; k++ {
		r.op(h)
		if checkEach || k == n-1 {
			r.check(h)
		}
	}
}

// vh_C06_hub_step: inductive variant. Arbitrary state with 0..3 entries per
// channel (distinct symbolic client ids, symbolic users), then ONE symbolic
// operation; the result equals the reference updated by the same operation.
// Invariant carried: hub content == reference set (checked before and after).
func vh_C06_hub_step() {
	h := newPresenceHub()
	r := &c06Ref{}
	for ch := 0; ch < c06NCh; ch++ {
		n := vChoice("n", c06NCid+1)
		if ch == 1 && n > vParam("c06_step_other", 1) {
			vAssume(false)
		}
		if n == 0 {
			continue // absent channel (the hub never keeps an empty inner map)
		}
		m := make(map[string]*ClientInfo)
		for k := 0; k < n; k++ {
			cid, ci := c06Sym("pre_cid", "c", c06NCid)
			uid, ui := c06Sym("pre_uid", "u", c06NUid)
			fresh := true
			for i := 0; i < c06NCid; i++ {
				fresh = vAnd(fresh, vNot(vAnd(ci == uint64(i), r.present[ch][i])))
			}
			vAssume(fresh)
			m[cid] = &ClientInfo{ClientID: cid, UserID: uid}
			r.add(ch, ci, ui)
		}
		h.presence[c06Chans[ch]] = m
	}
	r.op(h)
	r.check(h)
}
