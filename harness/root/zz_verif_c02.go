package centrifuge

import (
	"errors"
	"time"

	"github.com/centrifugal/protocol"
)

// C02: stream recovery is exact or explicitly refused.
//
// vC02Recover is the recovery branch of Client.subscribeCmd (stream mode)
// reduced to its two real callees: Node.recoverHistory and isStreamRecovered,
// with the same error handling (ErrorUnrecoverablePosition => recovered=false or
// rejection when the client demanded it). The end-to-end harness below runs the
// real subscribeCmd.
func vC02Recover(n *Node, off uint64, epoch string, nFilterKinds int, reject bool) (pubs []*protocol.Publication, recovered, rejected bool, pos StreamPosition, fk int) {
	hr, err := n.recoverHistory(vRecChanName, StreamPosition{Offset: off, Epoch: epoch}, 0)
	if err != nil {
		if !errors.Is(err, ErrorUnrecoverablePosition) {
			vFail("recoverHistory: unexpected error")
		}
		if reject {
			return nil, false, true, hr.StreamPosition, 0
		}
		return nil, false, false, hr.StreamPosition, 0
	}
	// the subscription's filters are chosen here (they play no role before)
	fk, tf, stf := vRecPickFilters(nFilterKinds)
	pubs, recovered = isStreamRecovered(hr, off, epoch, tf, stf)
	if !recovered && reject {
		return nil, false, true, hr.StreamPosition, fk
	}
	return pubs, recovered, false, hr.StreamPosition, fk
}

func vh_C02_stream_recover() {
	maxL := vParam("c02_limit", 3)
	L := vInt("maxPublicationLimit")
	vAssume(L >= 0 && L <= maxL)
	c := vRecBuild(vParam("c02_pubs", 3), L)
	off := vU64("offset")
	ek, epoch := c.pickEpoch()
	reject := vBool("rejectUnrecovered")

	pubs, recovered, rejected, _, fk := vC02Recover(c.n, off, epoch, vParam("c02_filters", 3), reject)

	// ---- reference
	top := c.top
	epochOK := ek == 0 || ek == 1
	after := top - off // meaningful when off <= top
	allPresent := vAnd(off <= top, after <= uint64(c.kept))
	truncated := vAnd(L > 0, vAnd(off <= top, after > uint64(L)))

	vAssert(vImplies(recovered, epochOK), "recovered=true never with a different epoch")
	vAssert(vImplies(recovered, off <= top), "recovered=true never for a position beyond the top")
	vAssert(vImplies(recovered, allPresent), "recovered=true never when a publication after the offset is missing from history")
	vAssert(vImplies(recovered, vNot(truncated)), "recovered=true never when the recovery limit truncated the result")
	vAssert(vIff(rejected, vAnd(reject, vNot(recovered))), "unrecoverable-position error exactly when demanded and not recovered")
	if !recovered {
		vAssert(len(pubs) == 0, "recovered=false carries no publications")
		vCover(vAnd(epochOK, vAnd(off < top, vNot(allPresent))), "refused-missing-publication")
		vCover(vAnd(epochOK, vAnd(allPresent, truncated)), "refused-limit-truncated")
		vCover(vAnd(!epochOK, allPresent), "refused-epoch")
		vCover(vAnd(epochOK, off > top), "refused-future-offset")
		return
	}
	// recovered: exactly the publications (off, top], in order, filtered ones as
	// offset-only markers.
	vAssert(uint64(len(pubs)) == after, "recovered: number of publications = top - offset")
	markers := 0
	for i, p := range pubs {
		vAssert(p.Offset == off+1+uint64(i), "recovered: consecutive offsets starting at offset+1")
		o := vConcU64(p.Offset)
		if o < 1 || o > uint64(len(c.log)) {
			vFail("recovered: publication outside the ideal log")
			return
		}
		ref := c.log[o-1]
		wantMarker := vNot(vRecVisible(fk, ref.tag))
		vAssert(vIff(p.Time == -1, wantMarker), "recovered: filtered publications (and only those) are offset-only markers")
		if p.Time == -1 {
			markers++
			vAssert(len(p.Data) == 0 && len(p.Tags) == 0, "recovered: marker carries no content")
		} else {
			vAssert(len(p.Data) == 1 && p.Data[0] == byte(0x40+o), "recovered: publication content belongs to its offset")
			vAssert(vStrEq(p.Tags["t"], ref.tag), "recovered: tags preserved")
		}
	}
	vCover(len(pubs) >= 2, "recovered-several")
	vCover(len(pubs) == 0 && top > 0 && c.state == 2, "recovered-at-top-of-expired-stream")
	vCover(markers > 0 && markers < len(pubs), "recovered-with-markers")
	vCover(vAnd(L > 0, uint64(len(pubs)) == uint64(L)), "recovered-exactly-limit")
	vCover(ek == 0 && len(pubs) > 0, "recovered-without-epoch")
}

// ---------------------------------------------------------------------------
// End to end: the real Client.subscribeCmd through the public command entry
// point on a real Node (vNewNode), observing the subscribe reply.

type vE2EChan struct {
	n     *Node
	epoch string
	top   uint64
	kept  int
}

// vE2EBuild: 3 real Node.Publish calls with history size 2 or 3, then live or
// RemoveHistory.
func vE2EBuild(n *Node, ch string) *vE2EChan {
	c := &vE2EChan{n: n}
	size := 2
	if vParam("c02_e2e_small", 0) == 0 {
		size = 2 + vChoice("size", 2)
	}
	for k := 0; k < 3; k++ {
		res, err := n.Publish(ch, []byte{byte(0x41 + k)}, WithHistory(size, 60*time.Second))
		if err != nil || res.Offset != uint64(k+1) {
			vFail("e2e builder: publish")
		}
		c.epoch = res.Epoch
		c.top = res.Offset
	}
	c.kept = size
	if vChoice("removed", 2) == 1 {
		if n.RemoveHistory(ch) != nil {
			vFail("e2e builder: remove")
		}
		c.kept = 0
	}
	return c
}

func vh_C02_subscribe_e2e() {
	L := vChoice("maxPublicationLimit", 3) // 0 (unlimited), 1, 2
	if vParam("c02_e2e_small", 0) == 1 {
		vAssume(L != 2)
	}
	n := vNewNode(Config{RecoveryMaxPublicationLimit: L})
	n.OnConnect(func(c *Client) {
		c.OnSubscribe(func(e SubscribeEvent, cb SubscribeCallback) {
			cb(SubscribeReply{Options: SubscribeOptions{EnableRecovery: true}}, nil)
		})
	})
	const ch = "che2e"
	c := vE2EBuild(n, ch)
	tr := vNewTransport()
	cl := vNewClient(n, "u1", tr)
	if !vConnect(cl) {
		vFail("e2e: connect")
	}
	vSettle()
	off := vU64("offset")
	ek := vChoice("epoch", 3)
	epoch := ""
	if ek == 1 {
		epoch = c.epoch
	} else if ek == 2 {
		epoch = "FOREIGN!"
	}
	var flag int64
	reject := vChoice("rejectUnrecovered", 2) == 1
	if reject {
		flag = subscriptionFlagRejectUnrecovered
	}
	ok := cl.HandleCommand(&protocol.Command{Id: 2, Subscribe: &protocol.SubscribeRequest{Channel: ch, Recover: true, Offset: off, Epoch: epoch, Flag: flag}}, 0)
	vAssert(ok, "e2e: subscribe command handled")
	vSettle()
	rs := vReplies(tr)
	if len(rs) < 2 || rs[1] == nil || rs[1].Id != 2 {
		vFail("e2e: no subscribe reply")
		return
	}
	top := c.top
	epochOK := ek != 2
	after := top - off
	allPresent := vAnd(off <= top, after <= uint64(c.kept))
	truncated := vAnd(L > 0, vAnd(off <= top, after > uint64(L)))
	if rs[1].Error != nil {
		vAssert(rs[1].Error.Code == ErrorUnrecoverablePosition.Code, "e2e: only the unrecoverable-position error")
		vAssert(reject, "e2e: unrecoverable-position error only when the client demanded it")
		// refusing is always allowed by the statement, but it must not be a
		// refusal of a request the same code would have recovered
		vCover(vNot(vAnd(vAnd(epochOK, allPresent), vNot(truncated))), "e2e-rejected-unrecoverable")
		vAssert(vNot(vAnd(vAnd(epochOK, allPresent), vNot(truncated))), "e2e: rejected although everything after the offset was recoverable")
		return
	}
	res := rs[1].Subscribe
	if res == nil {
		vFail("e2e: empty subscribe reply")
		return
	}
	vAssert(res.Recoverable && res.Positioned && res.WasRecovering, "e2e: reply flags")
	vAssert(res.Epoch == c.epoch, "e2e: reply carries the current epoch")
	recovered := res.Recovered
	vAssert(vImplies(recovered, epochOK), "e2e: recovered=true never with a different epoch")
	vAssert(vImplies(recovered, allPresent), "e2e: recovered=true never when a publication after the offset is missing")
	vAssert(vImplies(recovered, vNot(truncated)), "e2e: recovered=true never when the limit truncated")
	if !recovered {
		vAssert(!reject, "e2e: recovered=false reply although the client demanded rejection")
		vAssert(len(res.Publications) == 0, "e2e: recovered=false carries no publications")
		vAssert(res.Offset == top, "e2e: recovered=false reply carries the current top offset")
		vCover(vAnd(epochOK, vNot(allPresent)), "e2e-refused-missing")
		vCover(vAnd(epochOK, vAnd(allPresent, truncated)), "e2e-refused-truncated")
		vCover(!epochOK, "e2e-refused-epoch")
		return
	}
	vAssert(uint64(len(res.Publications)) == after, "e2e: recovered: number of publications = top - offset")
	vAssert(res.Offset == off, "e2e: recovered reply echoes the requested offset")
	for i, p := range res.Publications {
		vAssert(p.Offset == off+1+uint64(i), "e2e: recovered: consecutive offsets from offset+1")
		vAssert(len(p.Data) == 1 && p.Data[0] == byte(0x40+vConcU64(p.Offset)), "e2e: recovered: content belongs to the offset")
	}
	vCover(len(res.Publications) == 2, "e2e-recovered-two")
	vCover(len(res.Publications) == 0, "e2e-recovered-at-top")
}

// ---------------------------------------------------------------------------
// Two overlapping recoveries with Config.UseSingleFlight: connection B's
// subscribe is issued while connection A's history read for the same channel
// and offset is in flight, so B may share A's read. Each connection presents
// its own epoch (none / current / foreign) and its reply must be right for
// ITS request.
func vh_C02_singleflight_two_recoveries() {
	n := vNewNode(Config{UseSingleFlight: true})
	n.OnConnect(func(c *Client) {
		c.OnSubscribe(func(e SubscribeEvent, cb SubscribeCallback) {
			cb(SubscribeReply{Options: SubscribeOptions{EnableRecovery: true}}, nil)
		})
	})
	const ch = "che2e"
	c := vE2EBuild(n, ch)
	hb := vInstallHookBroker(n)
	var cls [2]*Client
	var trs [2]*vTransport
	for i := range cls {
		trs[i] = vNewTransport()
		cls[i] = vNewClient(n, string([]byte{'u', byte('1' + i)}), trs[i])
		if !vConnect(cls[i]) {
			vFail("sf: connect")
		}
	}
	vSettle()
	off := vU64("offset")
	vAssume(off <= c.top)
	var eks [2]int
	var epochs [2]string
	for i := range eks {
		eks[i] = vChoice("epoch", 3)
		switch eks[i] {
		case 1:
			epochs[i] = c.epoch
		case 2:
			epochs[i] = "FOREIGN!"
		}
	}
	sub := func(i int) {
		ok := cls[i].HandleCommand(&protocol.Command{Id: 2, Subscribe: &protocol.SubscribeRequest{Channel: ch, Recover: true, Offset: off, Epoch: epochs[i]}}, 0)
		vAssert(ok, "sf: subscribe command handled")
	}
	joined := false
	hb.beforeHistory = func() {
		// A's read is in flight: B subscribes now
		go sub(1)
		vSettle()
		joined = true
	}
	hb.armed = true
	sub(0)
	hb.armed = false
	vSettle()
	vAssert(joined, "sf: second subscribe issued inside the first one's history read")
	top := c.top
	after := top - off
	allPresent := after <= uint64(c.kept)
	for i := range cls {
		rs := vReplies(trs[i])
		if len(rs) < 2 || rs[1] == nil || rs[1].Id != 2 || rs[1].Subscribe == nil {
			vFail("sf: no subscribe reply")
			return
		}
		res := rs[1].Subscribe
		epochOK := eks[i] != 2
		vAssert(vImplies(res.Recovered, epochOK), "sf: recovered=true never with a different epoch")
		vAssert(vImplies(res.Recovered, allPresent), "sf: recovered=true never when a publication after the offset is missing")
		if !res.Recovered {
			vAssert(len(res.Publications) == 0, "sf: recovered=false carries no publications")
		} else {
			vAssert(uint64(len(res.Publications)) == after, "sf: recovered: number of publications = top - offset")
			for k, p := range res.Publications {
				vAssert(p.Offset == off+1+uint64(k), "sf: recovered: consecutive offsets from offset+1")
			}
		}
	}
	vCover(eks[0] == 1 && eks[1] == 2, "current-epoch-leader-foreign-epoch-follower")
	vCover(eks[0] == eks[1], "same-epoch")
}
