package centrifuge

// C43: history and presence client commands honour their limits.

import (
	"time"

	"github.com/centrifugal/protocol"
)

func c43connected(n *Node, l *vccLog) (*Client, *vTransport) {
	tr := vNewTransport()
	c := vNewClient(n, "u1", tr)
	c.OnHistory(func(e HistoryEvent, cb HistoryCallback) {
		l.hit("history")
		cb(HistoryReply{}, nil)
	})
	c.OnPresence(func(e PresenceEvent, cb PresenceCallback) {
		l.hit("presence")
		cb(PresenceReply{}, nil)
	})
	c.OnPresenceStats(func(e PresenceStatsEvent, cb PresenceStatsCallback) {
		l.hit("presence_stats")
		cb(PresenceStatsReply{}, nil)
	})
	vAssert(vConnect(c), "connect proceeds")
	vSettle()
	vAssert(c.authenticated && !tr.closed, "connected")
	return c, tr
}

// History: real handleHistory -> real Node.History -> real memory broker.
// Symbolic: request Limit (int32, negative included), Since nil / symbolic
// offset with empty, matching or foreign epoch, Reverse, configured
// HistoryMaxPublicationLimit; enumerated: stream contents (0..N publications
// into a bounded stream, so older ones are trimmed).
func vh_C43_history() {
	l := &vccLog{}
	n := vNewNode(Config{})
	maxLim := vRange("max_limit", -1, vParam("c43_maxlim", 4))
	n.config.HistoryMaxPublicationLimit = maxLim

	size := vParam("c43_size", 3)
	maxPubs := vParam("c43_pubs", 3)
	npubs := vChoice("npubs", maxPubs+1)
	for k := 0; k < npubs; k++ {
		_, err := n.Publish("ch", []byte{byte('a' + k)}, WithHistory(size, 60*time.Second))
		vAssert(err == nil, "publish ok")
	}
	top, err := n.History("ch")
	vAssert(err == nil && top.Offset == uint64(npubs), "stream top")

	c, tr := c43connected(n, l)
	base := len(tr.frames)

	req := &protocol.HistoryRequest{Channel: "ch", Limit: vI32("limit"), Reverse: vBool("reverse")}
	var since *StreamPosition
	if vChoice("since_given", 2) == 1 {
		epoch := ""
		nepoch := 2
		if npubs == maxPubs || vParam("c43_all_epochs", 0) == 1 {
			nepoch = 3 // foreign epoch: only with the fullest stream in the quick tier
		}
		switch vChoice("epoch", nepoch) {
		case 1:
			epoch = top.Epoch
		case 2:
			epoch = "other"
		}
		off := vU64("since_offset")
		req.Since = &protocol.StreamPosition{Offset: off, Epoch: epoch}
		since = &StreamPosition{Offset: off, Epoch: epoch}
	}
	id := vU32("id")
	vAssume(id != 0)
	proceed := c.HandleCommand(&protocol.Command{Id: id, History: req}, 0)
	vSettle()
	vAssert(proceed && !tr.closed, "history command keeps the connection")
	same, other, r := vccCountReplies(tr, base, id)
	vAssert(same == 1 && other == 0, "one reply")
	vAssert(l.count("history") == 1, "history handler invoked")

	// reference: node-level result for the effective filter
	limit := int(req.Limit)
	eff := vIteInt(vAnd(maxLim > 0, vOr(limit < 0, limit > maxLim)), maxLim, limit)
	want, werr := n.History("ch", WithHistoryFilter(HistoryFilter{Since: since, Limit: eff, Reverse: req.Reverse}))

	// reverse since offset 0: bad request
	if req.Reverse && since != nil && since.Offset == 0 {
		vAssert(r.Error != nil && r.Error.Code == ErrorBadRequest.Code && r.History == nil, "reverse since offset 0 rejected as bad request")
		vCover(true, "reverse-since-zero")
		return
	}
	if werr != nil {
		vAssert(r.Error != nil && r.History == nil, "node-level error => error reply")
		vAssert(r.Error.Code == toClientErr(werr).Code, "error code of the node-level error")
		vCover(r.Error.Code == ErrorUnrecoverablePosition.Code, "unrecoverable-position")
		return
	}
	vAssert(r.Error == nil && r.History != nil, "history result present")
	got := r.History.Publications
	// never more than the configured maximum
	if maxLim > 0 {
		vAssert(len(got) <= maxLim, "at most HistoryMaxPublicationLimit publications")
		vCover(vAnd(len(got) == maxLim, vOr(limit < 0, limit > maxLim)), "clamped-to-maximum")
	}
	if limit >= 0 {
		vAssert(len(got) <= limit, "at most the requested number of publications")
	}
	// exactly the node-level result
	vAssert(len(got) == len(want.Publications), "same number of publications as node-level history")
	if len(got) == len(want.Publications) {
		for k := range got {
			vAssert(got[k].Offset == want.Publications[k].Offset, "same offsets as node-level history")
			vAssert(vBytesEq(got[k].Data, want.Publications[k].Data), "same data as node-level history")
		}
	}
	vAssert(r.History.Offset == want.Offset && r.History.Epoch == want.Epoch, "same stream position as node-level history")
	vCover(len(got) >= 2, "several-publications")
	vCover(len(got) > 0 && req.Reverse, "reverse-result")
	vCover(maxLim <= 0 && limit < 0 && len(got) == size, "unlimited")
	vCover(since != nil && len(got) > 0, "since-result")
}

// An application-supplied HistoryReply.Result is passed through unchanged.
func vh_C43_history_given() {
	n := vNewNode(Config{})
	tr := vNewTransport()
	c := vNewClient(n, "u1", tr)
	np := vChoice("npubs", 3)
	off := vU64("top")
	c.OnHistory(func(e HistoryEvent, cb HistoryCallback) {
		res := &HistoryResult{StreamPosition: StreamPosition{Offset: off, Epoch: "e"}}
		for k := 0; k < np; k++ {
			res.Publications = append(res.Publications, &Publication{Offset: off - uint64(k), Data: []byte{byte('a' + k)}})
		}
		cb(HistoryReply{Result: res}, nil)
	})
	vAssert(vConnect(c), "connect proceeds")
	vSettle()
	base := len(tr.frames)
	ok := c.HandleCommand(&protocol.Command{Id: 5, History: &protocol.HistoryRequest{Channel: "ch", Limit: vI32("limit")}}, 0)
	vSettle()
	same, _, r := vccCountReplies(tr, base, 5)
	vAssert(ok && same == 1 && r.History != nil, "reply")
	vAssert(len(r.History.Publications) == np && r.History.Offset == off && r.History.Epoch == "e", "given result passed through")
	for k := 0; k < len(r.History.Publications) && k < np; k++ {
		vAssert(r.History.Publications[k].Offset == off-uint64(k), "given publications passed through")
	}
}

// c43pm is a contract presence manager: it returns whatever the harness put
// into it (symbolic contents).
type c43pm struct {
	pres  map[string]*ClientInfo
	stats PresenceStats
	err   error
	calls int
}

func (m *c43pm) Presence(ch string) (map[string]*ClientInfo, error) {
	m.calls++
	if m.err != nil {
		return nil, m.err
	}
	return m.pres, nil
}
func (m *c43pm) PresenceStats(ch string) (PresenceStats, error) {
	m.calls++
	if m.err != nil {
		return PresenceStats{}, m.err
	}
	return m.stats, nil
}
func (m *c43pm) AddPresence(ch string, clientID string, info *ClientInfo) error    { return nil }
func (m *c43pm) RemovePresence(ch string, clientID string, userID string) error { return nil }

func c43info(name string) *ClientInfo {
	ci := &ClientInfo{ClientID: vString(name+"_client", 2), UserID: vString(name+"_user", 1)}
	if vChoice(name+"_conninfo", 2) == 1 {
		ci.ConnInfo = vBytes(name+"_ci", 2)
	}
	if vChoice(name+"_chaninfo", 2) == 1 {
		ci.ChanInfo = vBytes(name+"_chi", 1)
	}
	return ci
}

func c43sameInfo(p *protocol.ClientInfo, ci *ClientInfo) bool {
	if p == nil || ci == nil {
		return p == nil && ci == nil
	}
	return vAnd(vAnd(vStrEq(p.Client, ci.ClientID), vStrEq(p.User, ci.UserID)),
		vAnd(vBytesEq(p.ConnInfo, ci.ConnInfo), vBytesEq(p.ChanInfo, ci.ChanInfo)))
}

// Presence and presence stats replies equal the node-level results.
func vh_C43_presence() {
	l := &vccLog{}
	pm := &c43pm{}
	n := vNewNode(Config{GetPresenceManager: func(ch string) (PresenceManager, bool) { return pm, true }})
	c, tr := c43connected(n, l)
	base := len(tr.frames)
	id := vU32("id")
	vAssume(id != 0)
	pm.err = vccErr(vChoice("pm_err", 3), "pm") // nil, *Error, (2 =>) foreign error below
	if _, isDisc := pm.err.(Disconnect); isDisc {
		pm.err = vErr("presence manager down")
	}
	if vChoice("stats", 2) == 0 {
		k := vChoice("nclients", vParam("c43_clients", 2)+1)
		pm.pres = map[string]*ClientInfo{}
		keys := []string{"k0", "k1", "k2"}
		for j := 0; j < k; j++ {
			pm.pres[keys[j]] = c43info(keys[j])
		}
		if k > 0 && vChoice("nil_entry", 2) == 1 {
			pm.pres[keys[0]] = nil
		}
		proceed := c.HandleCommand(&protocol.Command{Id: id, Presence: &protocol.PresenceRequest{Channel: "ch"}}, 0)
		vSettle()
		same, other, r := vccCountReplies(tr, base, id)
		vAssert(proceed && !tr.closed && same == 1 && other == 0, "one presence reply")
		want, werr := n.Presence("ch")
		if werr != nil {
			vAssert(r.Error != nil && r.Error.Code == toClientErr(werr).Code && r.Presence == nil, "presence error reply")
			vCover(true, "presence-error")
			return
		}
		vAssert(r.Error == nil && r.Presence != nil, "presence result present")
		vAssert(len(r.Presence.Presence) == len(want.Presence), "same number of presence entries")
		for key, ci := range want.Presence {
			p, ok := r.Presence.Presence[key]
			vAssert(ok, "presence key present")
			vAssert(c43sameInfo(p, ci), "presence entry equals node-level entry")
		}
		vCover(len(want.Presence) == 2, "two-clients")
		return
	}
	nc, nu := vInt("num_clients"), vInt("num_users")
	vAssume(nc >= 0 && nc <= 1<<31 && nu >= 0 && nu <= 1<<31)
	pm.stats = PresenceStats{NumClients: nc, NumUsers: nu}
	proceed := c.HandleCommand(&protocol.Command{Id: id, PresenceStats: &protocol.PresenceStatsRequest{Channel: "ch"}}, 0)
	vSettle()
	same, other, r := vccCountReplies(tr, base, id)
	vAssert(proceed && !tr.closed && same == 1 && other == 0, "one presence stats reply")
	want, werr := n.PresenceStats("ch")
	if werr != nil {
		vAssert(r.Error != nil && r.Error.Code == toClientErr(werr).Code && r.PresenceStats == nil, "presence stats error reply")
		return
	}
	vAssert(r.Error == nil && r.PresenceStats != nil, "presence stats result present")
	vAssert(int(r.PresenceStats.NumClients) == want.NumClients && int(r.PresenceStats.NumUsers) == want.NumUsers, "presence stats equal node-level stats")
	vCover(nc != nu, "clients-differ-from-users")
}
