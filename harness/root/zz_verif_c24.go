package centrifuge

import (
	"context"
	"time"
)

// C24: key expiry (real mapHub.expireKeysIteration, called directly — the
// background loop only adds a 1 s timer around it) removes each expired key
// exactly once.
//
// Observation: the broadcast log (every HandlePublication call), the stream
// and the state. The oracle replays the log as a client would ("fold"): a
// removal of a key that is not present is a double removal; at the end the
// folded map must equal ReadState (nothing lost, nothing resurrected) and, for
// stream-backed channels, the stream must equal the log entry by entry (each
// removal appended once and broadcast once with that offset).

const c24ch = "m"

type c24env struct {
	b      *MemoryMapBroker
	h      *vmHandler
	stream bool
	ttlMs  int64 // SYMBOLIC key TTL in milliseconds, 1 ms .. 10 min
}

// The clock of the engine is concrete, so the relation between "now" and a
// key's deadline is made symbolic through the TTL: operations happen at fixed
// instants, the configured KeyTTL is any value in [1 ms, 10 min].
func c24setup() *c24env {
	ttlMs := vI64("key_ttl_ms")
	vAssume(ttlMs >= 1 && ttlMs <= 600000)
	opts := &MapChannelOptions{Mode: MapModeRecoverable, KeyTTL: time.Duration(ttlMs) * time.Millisecond}
	if vChoice("ephemeral", vParam("c24_modes", 2)) == 1 {
		opts.Mode = MapModeEphemeral
	}
	_, b, h := vmBroker(opts, false)
	return &c24env{b: b, h: h, stream: opts.Mode.HasStream(), ttlMs: ttlMs}
}

func (e *c24env) sweep() {
	var next int64
	e.b.mapHub.expireKeysIteration(&next)
}

// fold replays the broadcast log; returns the offset (+1) of the live entry
// of each key (0 = absent) and the number of removals per key.
func (e *c24env) fold(label string) (live map[string]uint64, removals map[string]int) {
	live = map[string]uint64{}
	removals = map[string]int{}
	for k, ev := range e.h.events {
		if ev.removed {
			vAssert(live[ev.key] != 0, "no-double-removal (removal of an absent key): "+label)
			live[ev.key] = 0
			removals[ev.key]++
		} else {
			live[ev.key] = ev.pubOff + 1
		}
		if e.stream {
			vAssert(ev.pubOff == uint64(k+1) && ev.sp.Offset == uint64(k+1), "each-change-broadcast-once-with-its-offset: "+label)
		}
	}
	return
}

// check compares log, stream and state.
func (e *c24env) check(label string) (live map[string]uint64, removals map[string]int) {
	ctx := context.Background()
	live, removals = e.fold(label)
	st, err := e.b.ReadState(ctx, c24ch, MapReadStateOptions{Limit: -1})
	vAssert(err == nil, "read-state-ok: "+label)
	n := 0
	for _, k := range []string{"a", "b"} {
		found := false
		for _, p := range st.Publications {
			if p.Key == k {
				found = true
				vAssert(live[k] == p.Offset+1, "state-entry-is-the-last-broadcast-one: "+label)
			}
		}
		vAssert(found == (live[k] != 0), "state-equals-replayed-log (key lost or resurrected): "+label)
		if found {
			n++
		}
	}
	vAssert(len(st.Publications) == n, "state-size: "+label)
	if e.stream {
		sr, err := e.b.ReadStream(ctx, c24ch, MapReadStreamOptions{Filter: StreamFilter{Limit: -1}})
		vAssert(err == nil, "read-stream-ok: "+label)
		vAssert(len(sr.Publications) == len(e.h.events) && sr.Position.Offset == uint64(len(e.h.events)), "stream-equals-log: length: "+label)
		if len(sr.Publications) == len(e.h.events) {
			for k, p := range sr.Publications {
				ev := e.h.events[k]
				vAssert(p.Offset == ev.pubOff && p.Key == ev.key && p.Removed == ev.removed, "stream-equals-log: entry: "+label)
			}
		}
	}
	return
}

// finalSweep: far in the future every key has expired; one sweep removes
// each remaining key exactly once (its deadline tracking was not lost), a
// second sweep removes nothing.
func (e *c24env) finalSweep(live map[string]uint64, removals map[string]int) {
	vAdvance(int64(2 * time.Hour))
	e.sweep()
	live2, removals2 := e.check("after the final sweep")
	for _, k := range []string{"a", "b"} {
		vAssert(live2[k] == 0, "remaining-key-expires-later (deadline tracking kept)")
		want := removals[k]
		if live[k] != 0 {
			want++
		}
		vAssert(removals2[k] == want, "final-sweep-removes-each-remaining-key-exactly-once")
	}
	nev := len(e.h.events)
	vAdvance(int64(time.Second))
	e.sweep()
	vAssert(len(e.h.events) == nev, "idle-sweep-broadcasts-nothing")
}

// keep-alive / publish variants used as refresh and as racing operation
const (
	c24None = iota
	c24Republish
	c24KeepAlive        // IfNew + RefreshTTLOnSuppress
	c24UpdateIfExists   // IfExists publish
	c24IfNewNoRefresh   // IfNew without the refresh flag: no TTL change
	c24Remove
)

func (e *c24env) op(kind int, key string) (suppressed bool) {
	ctx := context.Background()
	var res MapUpdateResult
	var err error
	switch kind {
	case c24Republish:
		res, err = e.b.Publish(ctx, c24ch, key, MapPublishOptions{Data: []byte{2}})
	case c24KeepAlive:
		res, err = e.b.Publish(ctx, c24ch, key, MapPublishOptions{Data: []byte{3}, KeyMode: KeyModeIfNew, RefreshTTLOnSuppress: true})
	case c24UpdateIfExists:
		res, err = e.b.Publish(ctx, c24ch, key, MapPublishOptions{Data: []byte{4}, KeyMode: KeyModeIfExists})
	case c24IfNewNoRefresh:
		res, err = e.b.Publish(ctx, c24ch, key, MapPublishOptions{Data: []byte{5}, KeyMode: KeyModeIfNew})
	case c24Remove:
		res, err = e.b.Remove(ctx, c24ch, key, MapRemoveOptions{})
	default:
		return false
	}
	vAssert(err == nil, "op-ok")
	return res.Suppressed
}

// Sequential part: publish a at 0 (b at 2 s), optional refresh of a at 4 s,
// sweep at 6 s; the symbolic TTL decides which deadlines have elapsed.
func vh_C24_sequential() {
	e := c24setup()
	sec := int64(time.Second)
	vAssert(!e.op(c24Republish, "a"), "setup-publish")
	vAdvance(2 * sec)
	twoKeys := vChoice("two_keys", 2) == 1
	if twoKeys {
		vAssert(!e.op(c24Republish, "b"), "setup-publish-b")
	}
	vAdvance(2 * sec) // now = 4 s
	refresh := vChoice("refresh", 5)
	sup := e.op(refresh, "a")
	vAssert(sup == (refresh == c24KeepAlive || refresh == c24IfNewNoRefresh), "refresh-op-outcome")
	refreshed := refresh == c24Republish || refresh == c24KeepAlive || refresh == c24UpdateIfExists
	if refreshed {
		// the property speaks about a refresh BEFORE the deadline
		vAssume(e.ttlMs > 4000)
	}
	// the sweep runs at 6 s or at 7 s (at 7 s, with a TTL in (4 s, 5 s], key b
	// has expired while the refreshed key a has not)
	sweepAt := int64(6000 + 1000*vChoice("sweep_late", 2))
	vAdvance(sweepAt*int64(time.Millisecond) - 4*sec)
	nBefore := len(e.h.events)
	e.sweep()
	live, removals := e.check("after the sweep")
	expA := e.ttlMs <= sweepAt
	if refreshed {
		expA = 4000+e.ttlMs <= sweepAt
	}
	vAssert(vIff(live["a"] == 0, expA), "key-removed-iff-its-(refreshed)-deadline-elapsed")
	vAssert(vIff(removals["a"] == 1, expA) && removals["a"] <= 1, "exactly-one-removal-iff-expired")
	nRemoved := removals["a"]
	if twoKeys {
		expB := 2000+e.ttlMs <= sweepAt
		vAssert(vIff(live["b"] == 0, expB), "other-key-removed-iff-its-deadline-elapsed")
		vAssert(vIff(removals["b"] == 1, expB) && removals["b"] <= 1, "other-key-exactly-one-removal-iff-expired")
		nRemoved += removals["b"]
		vCover(refreshed && live["a"] != 0 && live["b"] == 0, "abandoned-key-expired-while-other-kept-alive")
	}
	vAssert(len(e.h.events) == nBefore+nRemoved, "sweep-broadcasts-exactly-the-expired-keys")
	vCover(live["a"] == 0, "expired-and-removed")
	vCover(live["a"] != 0 && refreshed, "refreshed-and-kept")
	vCover(live["a"] != 0 && !refreshed, "not-yet-expired-and-kept")
	// sweeping again at the same instant changes nothing
	e.sweep()
	vAssert(len(e.h.events) == nBefore+nRemoved, "second-sweep-removes-nothing")
	e.finalSweep(live, removals)
}

// Race part: the sweep's two phases interleaved (preemption budget 1..2 at
// lock operations) with one operation on the same key at 5 s; the symbolic
// TTL decides whether the key (published at 0) and key b (published at 2.5 s)
// have expired by then.
func vh_C24_race() {
	e := c24setup()
	ms := int64(time.Millisecond)
	vAssert(!e.op(c24Republish, "a"), "setup-publish")
	vAdvance(2500 * ms)
	twoKeys := vChoice("two_keys", vParam("c24_two_keys", 1)) == 1
	if twoKeys {
		vAssert(!e.op(c24Republish, "b"), "setup-publish-b")
	}
	vAdvance(2500 * ms)
	kinds := []int{c24Republish, c24KeepAlive, c24Remove, c24UpdateIfExists, c24IfNewNoRefresh}
	kind := kinds[vChoice("racing_op", vParam("c24_ops", 5))]
	var sup bool
	opDone, sweepDone := false, false
	vPreempt(vParam("c24_preempt", 1))
	if vChoice("op_starts_first", 2) == 1 {
		go func() { sup = e.op(kind, "a"); opDone = true }()
		go func() { e.sweep(); sweepDone = true }()
	} else {
		go func() { e.sweep(); sweepDone = true }()
		go func() { sup = e.op(kind, "a"); opDone = true }()
	}
	vSettle()
	vPreempt(0)
	vAssert(opDone && sweepDone, "both-complete (no deadlock)")

	live, removals := e.check("after the race")
	vAssert(removals["a"] <= 1, "key-removed-at-most-once")
	if twoKeys {
		expB := 2500+e.ttlMs <= 5000
		vAssert(vIff(live["b"] == 0, expB), "other-key-removed-iff-its-deadline-elapsed")
		vAssert(vIff(removals["b"] == 1, expB) && removals["b"] <= 1, "other-key-exactly-one-removal-iff-expired")
	}
	if e.ttlMs > 5000 {
		// deadline not reached: the sweep must not touch the key
		want := 0
		if kind == c24Remove {
			want = 1
		}
		vAssert(removals["a"] == want, "unexpired-key-not-removed-by-the-sweep")
		vAssert((live["a"] != 0) == (kind != c24Remove), "unexpired-key-kept")
		vAssert(sup == (kind == c24KeepAlive || kind == c24IfNewNoRefresh), "op-outcome-on-live-key")
		vCover(true, "race-before-deadline")
	} else {
		switch kind {
		case c24Remove:
			// whoever wins, exactly one removal is appended and broadcast
			vAssert(removals["a"] == 1 && live["a"] == 0, "remove-vs-expiry: exactly one removal")
			vCover(sup, "explicit-remove-lost-the-race")
			vCover(!sup, "explicit-remove-won-the-race")
		case c24Republish, c24KeepAlive:
			// in both linearizations the key is present afterwards
			vAssert(live["a"] != 0, "republished / kept-alive key is not lost")
			vCover(removals["a"] == 1, "expired-then-recreated")
			vCover(removals["a"] == 0, "refresh-won-the-race")
		case c24UpdateIfExists:
			// present iff the update won (then it refreshed the deadline)
			vAssert((live["a"] != 0) == !sup, "if-exists update: present iff applied")
			vAssert(removals["a"] == 1 || !sup, "if-exists update suppressed only after the removal")
		case c24IfNewNoRefresh:
			// no refresh: the key expires exactly once; recreated iff the sweep won
			vAssert(removals["a"] == 1, "unrefreshed key is removed exactly once")
			vAssert((live["a"] != 0) == !sup, "if-new: present iff applied")
		}
	}
	e.finalSweep(live, removals)
}
