package centrifuge

import (
	"context"

	"github.com/centrifugal/protocol"
)

// C09 (authentication gate after a FAILED connect): a connect command that is
// answered with an error (or a disconnect) does not leave the connection
// successfully connected, so every later non-connect command must still close
// it with a bad-request disconnect without reaching an application handler or
// producing a reply.
func vh_C09_failed_connect_gate() {
	n := vNewNode(Config{})
	calls := 0
	// how the connect fails:
	//   0 OnConnecting returns a client error        1 OnConnecting returns a disconnect
	//   2 connect-time server-side subscription that is already expired (error reply
	//     produced AFTER the connection was marked authenticated)
	//   3 connect succeeds (control: the later command must then be processed)
	how := vChoice("connect_outcome", 4)
	n.OnConnecting(func(ctx context.Context, e ConnectEvent) (ConnectReply, error) {
		switch how {
		case 0:
			return ConnectReply{}, ErrorPermissionDenied
		case 1:
			return ConnectReply{}, DisconnectInvalidToken
		case 2:
			return ConnectReply{Subscriptions: map[string]SubscribeOptions{"s": {ExpireAt: 1}}}, nil
		}
		return ConnectReply{}, nil
	})
	n.OnConnect(func(c *Client) {
		calls++
		c.OnRPC(func(e RPCEvent, cb RPCCallback) { calls++; cb(RPCReply{}, nil) })
		c.OnSubscribe(func(e SubscribeEvent, cb SubscribeCallback) { calls++; cb(SubscribeReply{}, nil) })
		c.OnPublish(func(e PublishEvent, cb PublishCallback) { calls++; cb(PublishReply{}, nil) })
		c.OnPresence(func(e PresenceEvent, cb PresenceCallback) { calls++; cb(PresenceReply{}, nil) })
		c.OnHistory(func(e HistoryEvent, cb HistoryCallback) { calls++; cb(HistoryReply{}, nil) })
	})
	commandRead := 0
	n.OnCommandRead(func(c *Client, e CommandReadEvent) error {
		if e.Command.Connect == nil {
			commandRead++
		}
		return nil
	})
	tr := vNewTransport()
	c := vNewClient(n, "u", tr)
	proceed := vConnect(c)
	vSettle()
	if how == 3 {
		vAssert(proceed, "control: successful connect proceeds")
	}
	callsAfterConnect := calls
	framesAfterConnect := len(tr.frames)
	id := vU32("id")
	vAssume(id != 0 && id != 1)
	var cmd *protocol.Command
	switch vChoice("kind", 5) {
	case 0:
		cmd = &protocol.Command{Id: id, Rpc: &protocol.RPCRequest{Method: "m"}}
	case 1:
		cmd = &protocol.Command{Id: id, Subscribe: &protocol.SubscribeRequest{Channel: "x"}}
	case 2:
		cmd = &protocol.Command{Id: id, Publish: &protocol.PublishRequest{Channel: "x", Data: []byte("{}")}}
	case 3:
		cmd = &protocol.Command{Id: id, Presence: &protocol.PresenceRequest{Channel: "x"}}
	default:
		cmd = &protocol.Command{Id: id, History: &protocol.HistoryRequest{Channel: "x"}}
	}
	if !tr.closed {
		next := c.HandleCommand(cmd, 0)
		vSettle()
		if how != 3 {
			vAssert(!next, "reader-stops-after-command-on-unconnected-connection")
		}
	}
	vSettle()
	if how == 3 {
		vCover(true, "control-connected")
		return
	}
	vAssert(calls == callsAfterConnect && (how == 2 || calls == 0), "no-application-handler-invoked")
	vAssert(commandRead == 0, "command-not-passed-to-command-read-handler")
	c.mu.RLock()
	closed := c.status == statusClosed
	c.mu.RUnlock()
	vAssert(closed, "connection-closed")
	if how != 1 {
		vAssert(tr.closeD.Code == DisconnectBadRequest.Code, "closed-with-bad-request")
	}
	for k := framesAfterConnect; k < len(tr.frames); k++ {
		r, _ := vDecoded(tr.frames[k]).(*protocol.Reply)
		vAssert(r != nil && r.Id != id, "no-reply-to-the-gated-command")
	}
	vCover(how == 2, "failed-after-authenticated")
}
