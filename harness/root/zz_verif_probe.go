package centrifuge

import "github.com/centrifugal/protocol"

// Engine probe (not a property): connect, subscribe with recovery, publish.
func vh_probe_client() {
	n := vNewNode(Config{})
	n.OnConnect(func(c *Client) {
		c.OnSubscribe(func(e SubscribeEvent, cb SubscribeCallback) {
			cb(SubscribeReply{Options: SubscribeOptions{EnableRecovery: true}}, nil)
		})
	})
	for k := 0; k < 3; k++ {
		_, err := n.Publish("ch", []byte("{}"), WithHistory(3, 60000000000))
		vAssert(err == nil, "publish ok")
	}
	tr := vNewTransport()
	c := vNewClient(n, "u1", tr)
	vAssert(vConnect(c), "connect proceeds")
	vSettle()
	off := vU64("off")
	vAssume(off <= 4)
	ok := c.HandleCommand(&protocol.Command{Id: 2, Subscribe: &protocol.SubscribeRequest{Channel: "ch", Recover: true, Offset: off}}, 0)
	vAssert(ok, "subscribe proceeds")
	vSettle()
	_, err := n.Publish("ch", []byte("{}"), WithHistory(3, 60000000000))
	vAssert(err == nil, "publish ok")
	vSettle()
	rs := vReplies(tr)
	vAssert(len(rs) >= 2, "got replies")
	vAssert(rs[0] != nil && rs[0].Id == 1 && rs[0].Connect != nil, "first is connect reply")
	vAssert(rs[1] != nil && rs[1].Id == 2, "second is subscribe reply")
	vTrace("done")
}
