package centrifuge

import "github.com/centrifugal/protocol"

// vHubEntry reports whether the node's routing table holds an entry for
// (ch, client) and with which subscription generation.
func vHubEntry(n *Node, ch string, c *Client) (bool, uint64) {
	sh := n.hub.subShards[index(ch, numHubShards)]
	sh.mu.RLock()
	defer sh.mu.RUnlock()
	if m, ok := sh.subs[ch]; ok {
		if si, ok := m[c.uid]; ok {
			return true, si.subGen
		}
	}
	return false, 0
}

func vCountPubs(t *vTransport, ch string, from int) int {
	cnt := 0
	for k := from; k < len(t.frames); k++ {
		r, _ := vDecoded(t.frames[k]).(*protocol.Reply)
		if r != nil && r.Push != nil && r.Push.Channel == ch && r.Push.Pub != nil {
			cnt++
		}
	}
	return cnt
}

// vOp runs one subscription-state operation on c for channel ch.
//   0 client subscribe command, handler answers synchronously
//   1 client subscribe command, handler answers from another goroutine
//   2 client unsubscribe command
//   3 server-side Subscribe
//   4 server-side Unsubscribe
//   5 close
//   6 client subscribe command, handler rejects it from another goroutine
var vOpReject bool

func vOp(c *Client, op int, id uint32, ch string, async *bool) {
	switch op {
	case 6:
		*async = true
		vOpReject = true
		c.HandleCommand(&protocol.Command{Id: id, Subscribe: &protocol.SubscribeRequest{Channel: ch}}, 0)
	case 0:
		*async = false
		c.HandleCommand(&protocol.Command{Id: id, Subscribe: &protocol.SubscribeRequest{Channel: ch}}, 0)
	case 1:
		*async = true
		c.HandleCommand(&protocol.Command{Id: id, Subscribe: &protocol.SubscribeRequest{Channel: ch}}, 0)
	case 2:
		c.HandleCommand(&protocol.Command{Id: id, Unsubscribe: &protocol.UnsubscribeRequest{Channel: ch}}, 0)
	case 3:
		_ = c.Subscribe(ch)
	case 4:
		c.Unsubscribe(ch)
	default:
		_ = c.close(DisconnectForceNoReconnect)
	}
}

// C04: after two concurrent subscription-state operations on one connection
// have settled, the connection receives a new publication iff it reports
// itself subscribed (at most once), and a reported subscription corresponds to
// exactly one routing entry of the same generation; a closed connection has
// no routing entry.
func vh_C04_routing_matches_state() {
	n := vNewNode(Config{})
	asyncReply := false
	n.OnConnect(func(c *Client) {
		c.OnSubscribe(func(e SubscribeEvent, cb SubscribeCallback) {
			var err error
			if vOpReject {
				err = ErrorPermissionDenied
			}
			if asyncReply {
				go cb(SubscribeReply{}, err)
				return
			}
			cb(SubscribeReply{}, err)
		})
	})
	vOpReject = false
	tr := vNewTransport()
	c := vNewClient(n, "u", tr)
	vAssert(vConnect(c), "connects")
	vSettle()
	if vChoice("presubscribed", 2) == 1 {
		c.HandleCommand(&protocol.Command{Id: 2, Subscribe: &protocol.SubscribeRequest{Channel: "ch"}}, 0)
		vSettle()
		vAssert(c.IsSubscribed("ch"), "pre-subscribed")
	}
	nops := vParam("c04_ops", 7)
	opA := vChoice("opA", nops)
	opB := vChoice("opB", nops)
	vAssume(opA <= opB) // symmetric pairs once; start order is a separate choice
	first := vChoice("first", 2)
	doneA, doneB := false, false
	runA := func() { vOp(c, opA, 10, "ch", &asyncReply); doneA = true }
	runB := func() { vOp(c, opB, 11, "ch", &asyncReply); doneB = true }
	vPreempt(vParam("c04_preempt", 1))
	if first == 0 {
		go runA()
		go runB()
	} else {
		go runB()
		go runA()
	}
	vSettle()
	vPreempt(0)
	if !doneA || !doneB {
		// an unsubscribe is parked on the wait gate of an unfinished subscribe:
		// let its 5 s timeout fire
		vAdvance(6_000_000_000)
		vSettle()
		vCover(true, "wait-gate-timeout")
	}
	vAssert(doneA && doneB, "operations-terminate")

	subscribed := c.IsSubscribed("ch")
	entry, gen := vHubEntry(n, "ch", c)
	c.mu.RLock()
	ctx, inChannels := c.channels["ch"]
	closed := c.status == statusClosed
	c.mu.RUnlock()
	if closed {
		vAssert(!entry, "closed-connection-has-no-routing-entry")
		vAssert(!inChannels, "closed-connection-has-no-channels")
	}
	vAssert(subscribed == entry, "routing-entry-iff-subscribed")
	if subscribed {
		vAssert(gen == ctx.subGen, "routing-entry-of-same-generation")
	}
	vAssert(inChannels == subscribed, "no-dangling-reservation")
	before := len(tr.frames)
	_, err := n.Publish("ch", []byte("{}"))
	vAssert(err == nil, "publish ok")
	vSettle()
	got := vCountPubs(tr, "ch", before)
	want := 0
	if subscribed && !closed {
		want = 1
	}
	vAssert(got == want, "publication-delivered-iff-subscribed-once")
	vCover(subscribed, "ends-subscribed")
	vCover(!subscribed, "ends-unsubscribed")
	vCover(closed, "ends-closed")
}

// C04 with a publication in flight: a positioned, delta-negotiated
// subscription receives its first live publication while the subscription is
// being ended; the delivery path writes back to the connection's channel map
// (position, delta flag), so routing state and the connection's own view must
// still agree afterwards.
func vh_C04_publication_in_flight() {
	n := vNewNode(Config{})
	n.OnConnect(func(c *Client) {
		c.OnSubscribe(func(e SubscribeEvent, cb SubscribeCallback) {
			cb(SubscribeReply{Options: SubscribeOptions{EnablePositioning: true, EnableRecovery: true, AllowedDeltaTypes: []DeltaType{DeltaTypeFossil}}}, nil)
		})
	})
	tr := vNewTransport()
	tr.proto = ProtocolTypeProtobuf // JSON delta payloads go through a dependency's string escaper
	c := vNewClient(n, "u", tr)
	vAssert(vConnect(c), "connects")
	vSettle()
	delta := ""
	if vChoice("delta", 2) == 1 {
		delta = string(DeltaTypeFossil)
	}
	c.HandleCommand(&protocol.Command{Id: 2, Subscribe: &protocol.SubscribeRequest{Channel: "ch", Delta: delta}}, 0)
	vSettle()
	vAssert(c.IsSubscribed("ch"), "pre-subscribed")
	ender := vChoice("ender", 3)
	end := func() {
		switch ender {
		case 0:
			c.HandleCommand(&protocol.Command{Id: 3, Unsubscribe: &protocol.UnsubscribeRequest{Channel: "ch"}}, 0)
		case 1:
			c.Unsubscribe("ch")
		default:
			_ = c.close(DisconnectForceNoReconnect)
		}
	}
	publish := func() {
		_, _ = n.Publish("ch", []byte("{}"), WithHistory(3, 60_000_000_000), WithDelta(true))
	}
	first := vChoice("first", 2)
	vPreempt(vParam("c04_preempt", 1))
	if first == 0 {
		go publish()
		go end()
	} else {
		go end()
		go publish()
	}
	vSettle()
	vPreempt(0)
	vAdvance(6_000_000_000)
	vSettle()

	subscribed := c.IsSubscribed("ch")
	entry, _ := vHubEntry(n, "ch", c)
	c.mu.RLock()
	_, inChannels := c.channels["ch"]
	c.mu.RUnlock()
	vAssert(!subscribed, "subscription-ended")
	vAssert(subscribed == entry, "routing-entry-iff-subscribed")
	vAssert(inChannels == subscribed, "no-dangling-channel-context")
	before := len(tr.frames)
	_, err := n.Publish("ch", []byte("{}"), WithHistory(3, 60_000_000_000), WithDelta(true))
	vAssert(err == nil, "publish ok")
	vSettle()
	vAssert(vCountPubs(tr, "ch", before) == 0, "no-publication-after-end")
	vCover(delta != "", "delta-negotiated")
}
