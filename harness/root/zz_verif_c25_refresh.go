package centrifuge

// C25 part c: sharedPollChannelState.applyRefreshResponse with <= R successive
// backend responses of symbolic versions. Chain executed for real:
// applyRefreshResponse -> flipEpochAndCollectClients -> Client.Unsubscribe ->
// keyedHub.broadcastToKey/broadcastRemoval -> keyedWritePublication /
// keyedWriteRemoval -> writer -> transport.
//
// fossil-delta Create is replaced by a recording stub: the returned patch is a
// 2-byte token that identifies the (base, target) pair it was computed from,
// so the oracle can check that a delta push applies to exactly the data the
// connection holds.

import (
	"bytes"
	"time"

	"github.com/centrifugal/protocol"
)

type c25Delta struct{ base, target []byte }

type c25Held struct {
	k       *c25Conn
	ks      *keyedKeyState
	ver     uint64 // version the connection holds (wire model)
	data    []byte // data it holds; nil = unknown full data of version initVer
	initVer uint64
	hasBase bool // holds a full base (deltaReady on the server side)
	live    bool // still subscribed and tracking the key
}

var c25InitEntry = []byte("INIT-ENTRY-DATA-OF-KEY")

func c25RespData(r int) []byte {
	return []byte{'D', 'A', 'T', 'A', '-', 'O', 'F', '-', 'R', 'E', 'S', 'P', 'O', 'N', 'S', 'E', '-', byte('0' + r)}
}

func vh_C25_refresh() {
	var deltas []c25Delta
	vStub("github.com/shadowspore/fossil-delta.Create", func(src, dst []byte) []byte {
		deltas = append(deltas, c25Delta{base: append([]byte(nil), src...), target: append([]byte(nil), dst...)})
		return []byte{'p', byte('0' + len(deltas) - 1)}
	})
	n := vNewNode(Config{})

	modes := 2 + 2*vParam("c25_versionless", 0)
	mode := vChoice("mode", modes) // 0 versioned, 1 versioned+KeepLatestData, 2 versionless+KeepLatestData, 3 versionless (hash)
	opts := SharedPollChannelOptions{Mode: SharedPollModeVersioned}
	if mode >= 2 {
		opts.Mode = SharedPollModeVersionless
	}
	opts.KeepLatestData = mode == 1 || mode == 2
	versionless := mode >= 2
	if mode == 3 {
		// collision-free identity of the data token (assumption)
		vStub("github.com/centrifugal/centrifuge.xxHash64", func(data []byte) uint64 {
			if len(data) == 0 {
				return 7
			}
			return 1000 + uint64(data[len(data)-1])
		})
	}

	// channel state: one tracked entry, fresh (version 0) or warm.
	entry := &sharedPollTrackedEntry{}
	ev := uint64(0)
	if vChoice("warm", 2) == 1 {
		ev = vU64("entryVersion")
		vAssume(ev > 0)
		if versionless {
			vAssume(ev <= 3) // synthetic versions come from the counter
		}
		entry.version = ev
		entry.needsBroadcast = vBool("needsBroadcast")
		if opts.KeepLatestData {
			entry.data = c25InitEntry
		}
		if mode == 3 {
			entry.dataHash = 1000 + uint64(c25InitEntry[len(c25InitEntry)-1])
		}
	}
	s := &sharedPollChannelState{opts: opts, epoch: "e1", itemIndex: map[string]*sharedPollTrackedEntry{c25Key: entry}}
	if versionless {
		s.epoch = "srv"
		s.versionCounter = ev
	}
	// the manager only as the registry handlePublishedData looks the state up in
	mgr := &SharedPollManager{node: n, channels: map[string]*sharedPollChannelState{c25Ch: s}}

	// connections tracking the key, each with its own symbolic state.
	nconn := vParam("c25_conns", 1)
	nresp := vParam("c25_resps", 2)
	if vParam("c25_mix", 0) == 1 { // thorough: 2 connections x 2 responses, or 1 connection x 3 responses
		if vChoice("shape", 2) == 0 {
			nconn, nresp = 2, 2
		} else {
			nconn, nresp = 1, 3
		}
	}
	var hs []*c25Held
	for i := 0; i < nconn; i++ {
		k := c25NewConn(n, string([]byte{'u', byte('1' + i)}))
		k.c.mu.Lock()
		k.c.channels[c25Ch] = ChannelContext{flags: flagSubscribed | flagKeyed | flagClientSideRefresh | flagDeltaAllowed, subGen: k.c.subGenCounter.Add(1)}
		k.c.mu.Unlock()
		cv := vU64("connVersion")
		dr := vBool("connDeltaReady")
		ks := &keyedKeyState{version: cv, deltaReady: dr}
		delta := 2 * vChoice("connDelta", 2)
		if delta == 0 {
			vAssume(!dr)
		}
		c25Track(k, c25Key, ks, delta)
		// reachable-state invariant kept by track(): a connection behind the
		// entry has a broadcast pending.
		vAssume(vOr(cv >= entry.version, entry.needsBroadcast))
		hs = append(hs, &c25Held{k: k, ks: ks, ver: cv, initVer: cv, hasBase: dr, live: true})
	}
	hub := n.keyedManager.getHub(c25Ch)

	// (version, data) pairs the backend / the initial entry established.
	type verData struct {
		ver  uint64
		data []byte
	}
	known := []verData{{ev, c25InitEntry}}
	epochNow := s.epoch
	gone := false // key removed from the index
	for r := 0; r < nresp; r++ {
		kinds := 3 + vParam("c25_publish", 1)
		if versionless {
			kinds = 2
		}
		kind := vChoice("kind", kinds) // 0 update, 1 removed, 2 update under a new epoch, 3 SharedPollPublish delivery (same epoch)
		item := SharedPollRefreshItem{Key: c25Key}
		var ver uint64
		switch kind {
		case 0, 2, 3:
			if !versionless {
				ver = vU64("respVersion")
				item.Version = ver
			}
			item.Data = c25RespData(r)
			if versionless && vChoice("same_data", 2) == 1 {
				// backend returns unchanged data
				item.Data = c25InitEntry
				if r > 0 {
					item.Data = c25RespData(r - 1)
				}
			}
		case 1:
			item.Removed = true
		}
		respEpoch := epochNow
		if kind == 2 {
			respEpoch = epochNow + "x"
		}
		for _, h := range hs {
			h.k.base = len(h.k.tr.frames)
		}
		items := []SharedPollRefreshItem{{Key: "unknown-key", Data: []byte("zz"), Version: 9}, item}
		if kind == 3 {
			mgr.handlePublishedData(c25Ch, c25Key, ver, respEpoch, item.Data)
			vCover(true, "publish-delivered")
		} else {
			s.applyRefreshResponse(c25Ch, respEpoch, items, hub, n, "timer")
		}
		vSettle()

		flip := kind == 2
		if kind != 1 && !gone {
			if versionless {
				known = append(known, verData{entry.version, item.Data})
			} else {
				known = append(known, verData{ver, item.Data})
			}
		}
		if flip {
			known = known[len(known)-1:] // versions of the old epoch mean nothing now
			vAssert(s.epoch == respEpoch, "epoch-change-recorded")
			epochNow = respEpoch
			vCover(true, "epoch-flip")
		}
		for _, h := range hs {
			ps := h.k.pushes()
			if !h.live {
				vAssert(len(ps) == 0, "nothing-pushed-after-removal/unsubscribe")
				continue
			}
			sawEnd := false
			for _, p := range ps {
				switch {
				case p.Unsubscribe != nil:
					vAssert(flip, "unsubscribe-only-on-epoch-change")
					vAssert(p.Channel == c25Ch && p.Unsubscribe.Code == unsubscribeInsufficientState.Code, "epoch-change=>insufficient-state-unsubscribe")
					sawEnd = true
				case p.Pub != nil && p.Pub.Removed:
					vAssert(kind == 1 && p.Pub.Key == c25Key, "removal-push-only-for-removed-key")
					vAssert(!sawEnd, "single-removal-push")
					sawEnd = true
				case p.Pub != nil:
					pb := p.Pub
					vAssert(!sawEnd, "no-update-after-removal/unsubscribe")
					vAssert(pb.Key == c25Key, "update-for-tracked-key")
					vAssert(pb.Version > h.ver, "pushed-versions-strictly-increase")
					if pb.Delta {
						vAssert(h.hasBase, "delta-only-after-a-full-base")
						vAssert(len(pb.Data) == 2 && pb.Data[0] == 'p' && int(pb.Data[1]-'0') < len(deltas), "delta-carries-a-patch")
						d := deltas[int(pb.Data[1]-'0')]
						if h.data != nil {
							vAssert(bytes.Equal(d.base, h.data), "delta-applies-to-held-data")
						} else {
							// the connection holds the (unknown) data of version initVer:
							// the base must be data known to belong to that version (the
							// entry's initial data is the data of version ev, response
							// data belongs to the response's version; same epoch).
							okBase := false
							for _, kd := range known {
								okBase = vOr(okBase, vAnd(bytes.Equal(d.base, kd.data), kd.ver == h.initVer))
							}
							vAssert(okBase, "delta-applies-to-held-data (same version => same data)")
						}
						h.data = d.target
						vCover(true, "delta-pushed")
					} else {
						h.data = pb.Data
						vCover(true, "full-pushed")
					}
					// the (version, data) pair is one the backend / a publisher provided
					okPair := false
					for _, kd := range known {
						okPair = vOr(okPair, vAnd(bytes.Equal(kd.data, h.data), kd.ver == pb.Version))
					}
					vAssert(okPair, "pushed-data-belongs-to-pushed-version")
					h.ver = pb.Version
					h.hasBase = true
				default:
					vFail("unexpected-frame")
				}
			}
			switch {
			case flip:
				vAssert(sawEnd, "epoch-change=>every-subscriber-unsubscribed")
				h.k.c.mu.RLock()
				_, stillCh := h.k.c.channels[c25Ch]
				_, stillKeys := h.k.c.keyed.trackedKeys[c25Ch]
				h.k.c.mu.RUnlock()
				vAssert(!stillCh && !stillKeys, "epoch-change=>subscription-and-tracking-ended")
				vAssert(!hub.hasSubscriber(c25Key, h.k.c), "epoch-change=>left-the-hub")
				h.live = false
			case kind == 1 && !gone:
				vAssert(sawEnd, "removed-key=>removal-pushed")
				h.k.c.mu.RLock()
				_, stillKey := h.k.c.keyed.trackedKeys[c25Ch][c25Key]
				h.k.c.mu.RUnlock()
				vAssert(!stillKey, "removed-key=>untracked")
				vAssert(!hub.hasSubscriber(c25Key, h.k.c), "removed-key=>left-the-hub")
				h.live = false
				vCover(true, "removed")
			default:
				vAssert(!sawEnd, "no-removal-without-cause")
				// server-side per-connection state mirrors the wire
				vAssert(h.ks.version == h.ver, "state-version==version-held-on-the-wire")
				if !gone {
					// safety form of "holds the newest version": up to date with the
					// entry, or a broadcast is still pending for the next poll.
					vAssert(vOr(h.ver >= entry.version, entry.needsBroadcast), "holds-newest-version-or-broadcast-pending")
					if !versionless {
						vAssert(vOr(h.ver >= ver, entry.needsBroadcast), "holds-at-least-the-response-version")
					}
				}
			}
		}
		if kind == 1 {
			_, still := s.itemIndex[c25Key]
			vAssert(!still, "removed-key-dropped-from-index")
			gone = true
		}
		if flip && !gone {
			vAssert(entry.version == ver, "new-epoch-repopulated-from-response")
		}
	}
}

// vh_C25_refresh_race: a backend poll response and a SharedPollPublish
// delivery for the same key (versioned, KeepLatestData => deltas) are applied
// concurrently. Per connection: versions strictly increase on the wire, every
// delta applies to the data held, pushed data belongs to the pushed version,
// and afterwards the connection is up to date with the entry (or a broadcast
// is still pending).
func vh_C25_refresh_race() {
	var deltas []c25Delta
	vStub("github.com/shadowspore/fossil-delta.Create", func(src, dst []byte) []byte {
		deltas = append(deltas, c25Delta{base: append([]byte(nil), src...), target: append([]byte(nil), dst...)})
		return []byte{'p', byte('0' + len(deltas) - 1)}
	})
	n := vNewNode(Config{})
	opts := SharedPollChannelOptions{Mode: SharedPollModeVersioned, KeepLatestData: true}
	if vParam("c25_race_nokeep", 0) == 1 {
		opts.KeepLatestData = vChoice("keepLatest", 2) == 1
	}
	entry := &sharedPollTrackedEntry{}
	ev := uint64(0)
	if vChoice("warm", 2) == 1 {
		ev = vU64("entryVersion")
		vAssume(ev > 0)
		entry.version = ev
		entry.needsBroadcast = vBool("needsBroadcast")
		if opts.KeepLatestData {
			entry.data = c25InitEntry
		}
	}
	s := &sharedPollChannelState{opts: opts, epoch: "e1", itemIndex: map[string]*sharedPollTrackedEntry{c25Key: entry}}
	mgr := &SharedPollManager{node: n, channels: map[string]*sharedPollChannelState{c25Ch: s}}
	k := c25NewConn(n, "u1")
	k.c.mu.Lock()
	k.c.channels[c25Ch] = ChannelContext{flags: flagSubscribed | flagKeyed | flagClientSideRefresh | flagDeltaAllowed, subGen: k.c.subGenCounter.Add(1)}
	k.c.mu.Unlock()
	cv := vU64("connVersion")
	dr := vBool("connDeltaReady")
	ks := &keyedKeyState{version: cv, deltaReady: dr}
	c25Track(k, c25Key, ks, 2)
	vAssume(vOr(cv >= entry.version, entry.needsBroadcast))
	hub := n.keyedManager.getHub(c25Ch)

	va := vU64("respVersion")
	vb := vU64("publishVersion")
	da, db := c25RespData(0), c25RespData(1)
	type verData struct {
		ver  uint64
		data []byte
	}
	known := []verData{{ev, c25InitEntry}, {va, da}, {vb, db}}
	k.base = len(k.tr.frames)
	done := make(chan int, 2)
	first := vChoice("publish_first", 2) == 1
	vPreempt(vParam("c25_preempt_rr", 1))
	pubT := func() { mgr.handlePublishedData(c25Ch, c25Key, vb, "e1", db); done <- 1 }
	if first {
		go pubT()
	}
	go func() {
		s.applyRefreshResponse(c25Ch, "e1", []SharedPollRefreshItem{{Key: c25Key, Data: da, Version: va}}, hub, n, "timer")
		done <- 1
	}()
	if !first {
		go pubT()
	}
	<-done
	<-done
	vPreempt(0)
	vSettle()

	held, hasBase := cv, dr
	var data []byte
	for _, p := range k.pushes() {
		pb := p.Pub
		vAssert(pb != nil && !pb.Removed && pb.Key == c25Key, "only-updates-for-the-key")
		vAssert(pb.Version > held, "pushed-versions-strictly-increase")
		if pb.Delta {
			vAssert(hasBase, "delta-only-after-a-full-base")
			vAssert(len(pb.Data) == 2 && pb.Data[0] == 'p' && int(pb.Data[1]-'0') < len(deltas), "delta-carries-a-patch")
			d := deltas[int(pb.Data[1]-'0')]
			if data != nil {
				vAssert(bytes.Equal(d.base, data), "delta-applies-to-held-data")
			} else {
				okBase := false
				for _, kd := range known {
					okBase = vOr(okBase, vAnd(bytes.Equal(d.base, kd.data), kd.ver == cv))
				}
				vAssert(okBase, "delta-applies-to-held-data (same version => same data)")
			}
			data = d.target
			vCover(true, "delta-pushed")
		} else {
			data = pb.Data
		}
		okPair := false
		for _, kd := range known {
			okPair = vOr(okPair, vAnd(bytes.Equal(kd.data, data), kd.ver == pb.Version))
		}
		vAssert(okPair, "pushed-data-belongs-to-pushed-version")
		held, hasBase = pb.Version, true
	}
	vAssert(ks.version == held, "state-version==version-held-on-the-wire")
	vAssert(vOr(held >= entry.version, entry.needsBroadcast), "holds-newest-version-or-broadcast-pending")
	vAssert(vAnd(entry.version >= va, entry.version >= vb), "entry-holds-newest-provided-version")
	vCover(len(k.pushes()) == 2, "both-pushed")
}

// vh_C25_retrack_versionless: versionless channel, one connection. The
// connection tracks the key and receives r1 updates (it holds synthetic
// version V), untracks through the real handleUntrack (the manager drops the
// key's entry while the channel state and its epoch live on: another key stays
// tracked), then tracks the key again presenting the version it holds - the
// steps handleTrack performs: SharedPollManager.trackKeys, per-connection key
// state with the client-provided version, hub join, release of the
// reservation. The backend then returns new data for the key: the connection
// must receive it (or a broadcast must still be pending for the next poll),
// with a version above the one it holds.
func vh_C25_retrack_versionless() {
	n := vNewNode(Config{})
	mode := 2 + vChoice("mode", 2) // 2 versionless+KeepLatestData, 3 versionless (hash)
	opts := SharedPollChannelOptions{Mode: SharedPollModeVersionless, KeepLatestData: mode == 2}
	if mode == 3 {
		vStub("github.com/centrifugal/centrifuge.xxHash64", func(data []byte) uint64 {
			if len(data) == 0 {
				return 7
			}
			return 1000 + uint64(data[len(data)-1])
		})
	}
	entry := &sharedPollTrackedEntry{}
	// workerRunning: the refresh worker is not part of this harness (responses
	// are applied directly), so track must not start one.
	s := &sharedPollChannelState{opts: opts, epoch: "srv", workerRunning: true,
		itemIndex: map[string]*sharedPollTrackedEntry{c25Key: entry, "other-key": {pendingHubJoin: 1}}}
	if n.sharedPollManager == nil {
		n.sharedPollManager = newSharedPollManager(n)
	}
	mgr := n.sharedPollManager
	mgr.mu.Lock()
	mgr.channels[c25Ch] = s
	mgr.mu.Unlock()

	k := c25NewConn(n, "u1")
	k.c.mu.Lock()
	k.c.channels[c25Ch] = ChannelContext{flags: flagSubscribed | flagKeyed | flagClientSideRefresh, subGen: k.c.subGenCounter.Add(1)}
	k.c.mu.Unlock()
	c25Track(k, c25Key, &keyedKeyState{}, 0)
	hub := n.keyedManager.getHub(c25Ch)

	r1 := 1 + vChoice("updates_before_untrack", vParam("c25_retrack_updates", 2))
	var held uint64
	for r := 0; r < r1; r++ {
		s.applyRefreshResponse(c25Ch, s.epoch, []SharedPollRefreshItem{{Key: c25Key, Data: c25RespData(r)}}, hub, n, "timer")
		vSettle()
	}
	for _, pb := range k.pubs() {
		vAssert(pb.Version > held, "pushed-versions-strictly-increase")
		held = pb.Version
	}
	vAssert(len(k.pubs()) == r1, "every-changed-response-pushed")

	// the only subscriber of the key leaves
	c25End(k, hub, c25EndUntrack)
	vSettle()
	s.mu.Lock()
	_, still := s.itemIndex[c25Key]
	_, other := s.itemIndex["other-key"]
	s.mu.Unlock()
	vCover(!still, "entry-dropped-while-channel-state-lives-on")
	vAssert(other && !s.removed, "channel-state-survives")

	// and tracks the key again with the version it holds
	withHeld := vChoice("retrack_with_held_version", 2) == 1
	cv := uint64(0)
	if withHeld {
		cv = held
	}
	_, release, err := mgr.trackKeys(c25Ch, opts, []string{c25Key})
	vAssert(err == nil, "trackKeys-ok")
	c25Track(k, c25Key, &keyedKeyState{version: cv}, 0)
	release()
	vSettle()

	// the backend has new data for the key
	k.base = len(k.tr.frames)
	newData := c25RespData(7)
	s.applyRefreshResponse(c25Ch, s.epoch, []SharedPollRefreshItem{{Key: c25Key, Data: newData}}, hub, n, "timer")
	vSettle()
	s.mu.Lock()
	e2 := s.itemIndex[c25Key]
	pending := e2 != nil && e2.needsBroadcast
	s.mu.Unlock()
	pubs := k.pubs()
	if !pending {
		vAssert(len(pubs) == 1, "re-tracked-connection-receives-the-new-backend-value")
	}
	for _, pb := range pubs {
		vAssert(pb.Key == c25Key && pb.Version > cv, "pushed-version-above-the-held-one")
		vAssert(!pb.Delta && bytes.Equal(pb.Data, newData), "pushed-data-is-the-new-value")
	}
	vCover(withHeld && held >= 2, "retrack-with-held-version>=2")
}

// vh_C25_track_warm_key_race: the real handleSubRefresh/handleTrack for a key
// that is already warm on the node (entry at version 1 with cached data,
// KeepLatestData, another connection tracks it). While the track reply of the
// new connection is being written - after the reply was built, before the
// connection joins the keyed hub - a SharedPollPublish delivery raises the key
// to version 2 (c25_publish_in_window). Afterwards the new connection is
// tracked and holds the newest version the publishers provided, or a
// broadcast is still pending.
func vh_C25_track_warm_key_race() {
	opts := SharedPollChannelOptions{Mode: SharedPollModeVersioned, KeepLatestData: true}
	n := vNewNode(Config{SharedPoll: SharedPollConfig{GetSharedPollChannelOptions: func(ch string) (SharedPollChannelOptions, bool) {
		return opts, ch == c25Ch
	}}})
	entry := &sharedPollTrackedEntry{version: 1, data: c25InitEntry}
	s := &sharedPollChannelState{opts: opts, epoch: "e1", workerRunning: true, itemIndex: map[string]*sharedPollTrackedEntry{c25Key: entry}}
	if n.sharedPollManager == nil {
		n.sharedPollManager = newSharedPollManager(n)
	}
	mgr := n.sharedPollManager
	mgr.mu.Lock()
	mgr.channels[c25Ch] = s
	mgr.mu.Unlock()

	mk := func(user string) *c25Conn {
		k := c25NewConn(n, user)
		k.c.mu.Lock()
		k.c.channels[c25Ch] = ChannelContext{flags: flagSubscribed | flagKeyed | flagClientSideRefresh | flagDeltaAllowed, subGen: k.c.subGenCounter.Add(1)}
		k.c.mu.Unlock()
		k.c.OnTrack(func(e TrackEvent, cb TrackCallback) { cb(TrackReply{}, nil) })
		return k
	}
	a := mk("u1")
	c25Track(a, c25Key, &keyedKeyState{version: 1, deltaReady: true}, 0)
	b := mk("u2")

	cv := uint64(vChoice("client_version", 2)) // the new tracker presents version 0 or 1
	inWindow := vChoice("publish_in_window", 2) == 1
	published := false
	var reply *protocol.Reply
	rw := &replyWriter{write: func(rep *protocol.Reply) {
		reply = rep
		if inWindow && !published {
			published = true
			mgr.handlePublishedData(c25Ch, c25Key, 2, "e1", c25RespData(2))
		}
	}}
	req := &protocol.SubRefreshRequest{Channel: c25Ch, Type: typeTrack,
		Track: []*protocol.TrackBatch{{Items: []*protocol.KeyedItem{{Key: c25Key, Version: cv}}}}}
	err := b.c.handleSubRefresh(req, &protocol.Command{Id: 2, SubRefresh: req}, time.Now(), rw)
	vAssert(err == nil, "track command handled")
	vSettle()
	vAssert(reply != nil && reply.Error == nil, "track acknowledged")
	hub := n.keyedManager.getHub(c25Ch)
	vAssert(hub != nil && hub.hasSubscriber(c25Key, b.c), "new tracker joined the hub")
	b.c.mu.RLock()
	ks := b.c.keyed.trackedKeys[c25Ch][c25Key]
	var held uint64
	if ks != nil {
		held = ks.version
	}
	b.c.mu.RUnlock()
	s.mu.Lock()
	newest, pending := entry.version, entry.needsBroadcast
	s.mu.Unlock()
	vAssert(ks != nil, "key tracked by the connection")
	// Known finding: only keys classified warm at trackKeys time (server version
	// above the presented one) are re-read after the hub join. A tracker that
	// presents the key's CURRENT version is classified up to date, so a publish
	// landing before its hub join reaches neither the broadcast (not joined yet)
	// nor a warm delivery, and later polls find the entry unchanged.
	vKnown("C25-up-to-date-tracker-misses-publish-before-hub-join", cv == 1 && inWindow)
	vAssert(held >= newest || pending, "tracked connection holds the newest provided version, or a broadcast is pending")
	vCover(inWindow && newest == 2, "publish-landed-between-reply-and-hub-join")
}
