package centrifuge

import (
	"context"
	"time"
)

// C20: MemoryMapBroker vs the reference map.
//
// A sequence of c20_ops operations (Publish with KeyMode / CAS / Version+epoch
// / idempotency key / RefreshTTLOnSuppress, Remove with CAS / idempotency key,
// Clear, ReadState, ReadStream) over keys {a,b} runs against the real broker;
// a reference model (map fold + ideal stream + idempotency table) is stepped
// alongside. Per operation: error / suppression / reason / position /
// CurrentEntry equal the model's, where the model's reason is computed with
// the canonical priority idempotency -> version -> key mode -> CAS; a
// suppressed op broadcasts nothing; an unsuppressed op is broadcast exactly
// once with the offset of its stream entry. At every read op and at the end:
// ReadState == model map, ReadStream == model stream, the broadcast log ==
// model broadcasts, and the stored TTL deadlines == model deadlines (so a
// suppressed op changed nothing except the documented RefreshTTLOnSuppress).
//
// Enumerated: op kind, key, KeyMode, CAS present or not, version epoch empty
// or not, idempotency key empty or not. Symbolic: version (uint64), version
// epoch byte, idempotency key byte, CAS offset (uint64), CAS epoch (current
// epoch with a symbolic last byte), RefreshTTLOnSuppress, payload, score.

type c20key struct {
	exists   bool
	data     byte
	score    int64
	offset   uint64
	version  uint64
	vepoch   string
	expireAt int64
}

type c20idem struct {
	key string
	pos StreamPosition
}

type c20entry struct {
	offset  uint64
	key     string
	removed bool
	data    byte
}

type c20model struct {
	hasStream  bool
	keyTTLms   int64
	chanExists bool
	epoch      string // epoch of the existing channel (from results)
	top        uint64
	keys       map[string]*c20key
	idem       []c20idem
	stream     []c20entry
	casts      []c20entry // expected broadcasts
}

var c20combos = []struct {
	mode    MapMode
	ordered bool
}{
	{MapModeEphemeral, false}, {MapModeRecoverable, true}, {MapModePersistent, false},
	{MapModeEphemeral, true}, {MapModeRecoverable, false}, {MapModePersistent, true},
}

func vh_C20_sequence() {
	nops := vParam("c20_ops", 2)
	combo := c20combos[vChoice("mode", vParam("c20_combos", 3))]
	opts := &MapChannelOptions{Mode: combo.mode, ordered: combo.ordered}
	if combo.mode.HasExpiry() {
		opts.KeyTTL = time.Minute
	}
	_, b, h := vmBroker(opts, true)
	ctx := context.Background()
	const ch = "m"
	m := &c20model{hasStream: combo.mode.HasStream(), keyTTLms: opts.KeyTTL.Milliseconds(),
		keys: map[string]*c20key{"a": {}, "b": {}}}
	ephemeral := combo.mode.IsEphemeral()
	keyUsed := false
	reduced := vParam("c20_reduced_prefix", 0) == 1

	// position every result must carry while the channel exists
	checkPos := func(p StreamPosition, label string) {
		if m.chanExists {
			vAssert(p.Epoch == m.epoch, "epoch-stable: "+label)
		} else {
			m.chanExists = true
			m.epoch = p.Epoch
			vAssert(p.Epoch != "", "epoch-set: "+label)
		}
		vAssert(p.Offset == m.top, "position-is-stream-top: "+label)
	}
	idemHit := func(idem string, got StreamPosition) (hit, posOK bool) {
		if idem == "" {
			return false, false
		}
		for _, e := range m.idem {
			eq := vStrEq(idem, e.key)
			hit = vOr(hit, eq)
			posOK = vOr(posOK, vAnd(eq, got.Offset == e.pos.Offset && got.Epoch == e.pos.Epoch))
		}
		return
	}
	checkState := func(label string) {
		res, err := b.ReadState(ctx, ch, MapReadStateOptions{Limit: -1})
		vAssert(err == nil, "read-state-ok: "+label)
		checkPos(res.Position, "read-state "+label)
		n := 0
		for _, k := range []string{"a", "b"} {
			mk := m.keys[k]
			found := 0
			for _, p := range res.Publications {
				if p.Key == k {
					found++
					vAssert(mk.exists, "state-has-no-extra-key: "+label)
					vAssert(len(p.Data) == 1 && p.Data[0] == mk.data && p.Offset == mk.offset && p.Score == mk.score && !p.Removed, "state-entry-equals-model: "+label)
				}
			}
			if mk.exists {
				n++
				vAssert(found == 1, "state-has-model-key-once: "+label)
			}
		}
		vAssert(len(res.Publications) == n, "state-size: "+label)
	}
	checkStream := func(label string) {
		res, err := b.ReadStream(ctx, ch, MapReadStreamOptions{Filter: StreamFilter{Limit: -1}})
		vAssert(err == nil, "read-stream-ok: "+label)
		checkPos(res.Position, "read-stream "+label)
		vAssert(len(res.Publications) == len(m.stream), "stream-length: "+label)
		if len(res.Publications) != len(m.stream) {
			return
		}
		for k, p := range res.Publications {
			e := m.stream[k]
			ok := p.Offset == e.offset && p.Key == e.key && p.Removed == e.removed
			vAssert(ok, "stream-entry-equals-model: "+label)
			if !e.removed {
				vAssert(len(p.Data) == 1 && p.Data[0] == e.data, "stream-entry-data: "+label)
			}
		}
	}
	checkCasts := func(label string) {
		vAssert(len(h.events) == len(m.casts), "broadcast-count: "+label)
		if len(h.events) != len(m.casts) {
			return
		}
		for k, ev := range h.events {
			e := m.casts[k]
			vAssert(ev.ch == ch && ev.key == e.key && ev.removed == e.removed && ev.pubOff == e.offset && ev.sp.Offset == e.offset && ev.sp.Epoch != "", "broadcast-equals-model: "+label)
			if !e.removed {
				vAssert(len(ev.data) == 1 && ev.data[0] == e.data, "broadcast-data: "+label)
			}
		}
	}
	pickKey := func() string {
		if !keyUsed { // a and b are symmetric until one is used
			keyUsed = true
			return "a"
		}
		if vChoice("key", 2) == 1 {
			return "b"
		}
		return "a"
	}
	mkCAS := func() *StreamPosition {
		off := vU64("cas_offset")
		ep := "zzzzzzzz"
		if m.chanExists {
			eb := []byte(m.epoch)
			eb[len(eb)-1] = vByte("cas_epoch_last")
			ep = string(eb)
		}
		return &StreamPosition{Offset: off, Epoch: ep}
	}
	// unsuppressed bookkeeping common to publish and remove
	applied := func(key string, removed bool, data byte, idem string, got MapUpdateResult, label string) uint64 {
		if m.hasStream {
			m.top++
			m.stream = append(m.stream, c20entry{m.top, key, removed, data})
		}
		checkPos(got.Position, label)
		m.casts = append(m.casts, c20entry{m.top, key, removed, data})
		if idem != "" {
			m.idem = append(m.idem, c20idem{idem, got.Position})
		}
		vAssert(len(h.events) == len(m.casts), "unsuppressed-op-broadcast-exactly-once: "+label)
		return m.top
	}

	for step := 0; step < nops; step++ {
		label := "op" + string(rune('1'+step))
		vAdvance(int64(7 * time.Millisecond)) // deadlines of different ops differ
		now := time.Now().UnixMilli()
		general := !reduced || step == nops-1
		nkinds := 5
		if !general {
			nkinds = 4 // state-generating subset: no ReadStream, plain Remove
		}
		switch vChoice("op", nkinds) {
		case 0: // ---------------------------------------------------- Publish
			key := pickKey()
			mk := m.keys[key]
			o := MapPublishOptions{Data: []byte{vByte("data")}, score: vI64("score")}
			if general {
				switch vChoice("key_mode", 3) {
				case 1:
					o.KeyMode = KeyModeIfNew
				case 2:
					o.KeyMode = KeyModeIfExists
				}
				if vChoice("cas", 2) == 1 {
					o.ExpectedPosition = mkCAS()
				}
				o.RefreshTTLOnSuppress = vBool("refresh_ttl")
			}
			o.Version = vU64("version")
			if vChoice("version_epoch", 2) == 1 {
				o.VersionEpoch = vString("vepoch", 1)
			}
			if vChoice("idem", 2) == 1 {
				o.IdempotencyKey = vString("idem", 1)
			}
			nb := len(h.events)
			got, err := b.Publish(ctx, ch, key, o)

			wantErr := false
			if ephemeral {
				wantErr = vOr(o.ExpectedPosition != nil, o.Version > 0)
			}
			vAssert(vIff(err != nil, wantErr), "publish-error-iff-ephemeral-cas-or-version: "+label)
			if err != nil {
				vAssert(len(h.events) == nb, "failed-op-broadcasts-nothing: "+label)
				continue
			}
			// reference decision, canonical priority
			mIdem, idemPosOK := idemHit(o.IdempotencyKey, got.Position)
			verApplies := m.hasStream && mk.exists
			mVersion := vAnd(vNot(mIdem), vAnd(verApplies, vAnd(o.Version > 0,
				vAnd(vOr(o.VersionEpoch == "", vStrEq(o.VersionEpoch, mk.vepoch)), o.Version <= mk.version))))
			pre := vOr(mIdem, mVersion)
			mKeyExists := vAnd(vNot(pre), o.KeyMode == KeyModeIfNew && mk.exists)
			mKeyNotFound := vAnd(vNot(pre), o.KeyMode == KeyModeIfExists && !mk.exists)
			pre = vOr(pre, vOr(mKeyExists, mKeyNotFound))
			mMismatch := false
			if o.ExpectedPosition != nil {
				bad := !mk.exists
				if mk.exists {
					bad = vOr(mk.offset != o.ExpectedPosition.Offset, vNot(vStrEq(m.epoch, o.ExpectedPosition.Epoch)))
				}
				mMismatch = vAnd(vNot(pre), bad)
			}
			r := got.SuppressReason
			vAssert(vIff(r == SuppressReasonIdempotency, mIdem), "reason-idempotency-first: "+label)
			vAssert(vIff(r == SuppressReasonVersion, mVersion), "reason-version-before-keymode-and-cas: "+label)
			vAssert(vIff(r == SuppressReasonKeyExists, mKeyExists), "reason-key-exists-before-cas: "+label)
			vAssert(vIff(r == SuppressReasonKeyNotFound, mKeyNotFound), "reason-key-not-found-before-cas: "+label)
			vAssert(vIff(r == SuppressReasonPositionMismatch, mMismatch), "reason-position-mismatch-last: "+label)
			vAssert(got.Suppressed == (r != SuppressReasonNone), "suppressed-flag-iff-reason: "+label)
			vCover(r == SuppressReasonVersion, "publish-suppressed-version")
			vCover(r == SuppressReasonIdempotency, "publish-suppressed-idempotency")
			vCover(r == SuppressReasonKeyExists, "publish-suppressed-key-exists")
			vCover(r == SuppressReasonKeyNotFound, "publish-suppressed-key-not-found")
			vCover(r == SuppressReasonPositionMismatch, "publish-suppressed-cas")
			if got.Suppressed {
				vAssert(len(h.events) == nb, "suppressed-op-broadcasts-nothing: "+label)
				if r == SuppressReasonIdempotency {
					vAssert(idemPosOK, "idempotent-result-is-the-original-position: "+label)
				} else {
					checkPos(got.Position, label)
				}
				if r == SuppressReasonPositionMismatch && mk.exists {
					ce := got.CurrentEntry
					vAssert(ce != nil && ce.Offset == mk.offset && len(ce.Data) == 1 && ce.Data[0] == mk.data, "cas-mismatch-returns-current-entry: "+label)
				} else {
					vAssert(got.CurrentEntry == nil, "no-current-entry: "+label)
				}
				if r == SuppressReasonKeyExists && m.keyTTLms > 0 {
					// the one documented side effect of a suppressed op
					mk.expireAt = int64(vIteU64(o.RefreshTTLOnSuppress, uint64(now+m.keyTTLms), uint64(mk.expireAt)))
				}
				continue
			}
			vCover(o.ExpectedPosition != nil, "publish-cas-accepted")
			vCover(vAnd(o.Version > 0, mk.exists), "publish-newer-version-accepted")
			off := applied(key, false, o.Data[0], o.IdempotencyKey, got, label)
			ver, vep := o.Version, o.VersionEpoch
			if ver == 0 && mk.exists { // keeps the stored version
				ver, vep = mk.version, mk.vepoch
			}
			*mk = c20key{exists: true, data: o.Data[0], score: o.score, offset: off, version: ver, vepoch: vep}
			if m.keyTTLms > 0 {
				mk.expireAt = now + m.keyTTLms
			}
		case 1: // ----------------------------------------------------- Remove
			key := pickKey()
			mk := m.keys[key]
			o := MapRemoveOptions{}
			if general && vChoice("cas", 2) == 1 {
				o.ExpectedPosition = mkCAS()
			}
			if general && vChoice("idem", 2) == 1 {
				o.IdempotencyKey = vString("idem", 1)
			}
			nb := len(h.events)
			got, err := b.Remove(ctx, ch, key, o)
			vAssert((err != nil) == (ephemeral && o.ExpectedPosition != nil), "remove-error-iff-ephemeral-cas: "+label)
			if err != nil {
				vAssert(len(h.events) == nb, "failed-op-broadcasts-nothing: "+label)
				continue
			}
			mIdem, idemPosOK := idemHit(o.IdempotencyKey, got.Position)
			mMismatch := false
			if o.ExpectedPosition != nil {
				bad := !mk.exists
				if mk.exists {
					bad = vOr(mk.offset != o.ExpectedPosition.Offset, vNot(vStrEq(m.epoch, o.ExpectedPosition.Epoch)))
				}
				mMismatch = vAnd(vNot(mIdem), bad)
			}
			mNotFound := vAnd(vNot(vOr(mIdem, mMismatch)), !mk.exists)
			r := got.SuppressReason
			vAssert(vIff(r == SuppressReasonIdempotency, mIdem), "reason-idempotency-first: "+label)
			vAssert(vIff(r == SuppressReasonPositionMismatch, mMismatch), "remove-reason-position-mismatch: "+label)
			vAssert(vIff(r == SuppressReasonKeyNotFound, mNotFound), "remove-reason-key-not-found: "+label)
			vAssert(got.Suppressed == (r != SuppressReasonNone), "suppressed-flag-iff-reason: "+label)
			vAssert(r != SuppressReasonVersion && r != SuppressReasonKeyExists, "remove-reason-kind: "+label)
			vCover(r == SuppressReasonPositionMismatch, "remove-suppressed-cas")
			if got.Suppressed {
				vAssert(len(h.events) == nb, "suppressed-op-broadcasts-nothing: "+label)
				if r == SuppressReasonIdempotency {
					vAssert(idemPosOK, "idempotent-result-is-the-original-position: "+label)
				} else if m.chanExists {
					checkPos(got.Position, label)
				} else {
					// no channel: nothing is created, the zero position is returned
					vAssert(got.Position.Offset == 0 && got.Position.Epoch == "", "remove-on-missing-channel-position: "+label)
				}
				if r == SuppressReasonPositionMismatch && mk.exists {
					ce := got.CurrentEntry
					vAssert(ce != nil && ce.Offset == mk.offset && len(ce.Data) == 1 && ce.Data[0] == mk.data, "cas-mismatch-returns-current-entry: "+label)
				} else {
					vAssert(got.CurrentEntry == nil, "no-current-entry: "+label)
				}
				continue
			}
			vCover(true, "remove-applied")
			applied(key, true, 0, o.IdempotencyKey, got, label)
			*mk = c20key{}
		case 2: // ------------------------------------------------------ Clear
			nb := len(h.events)
			err := b.Clear(ctx, ch, MapClearOptions{})
			vAssert(err == nil, "clear-ok: "+label)
			vAssert(len(h.events) == nb, "clear-broadcasts-nothing: "+label)
			m.chanExists, m.epoch, m.top = false, "", 0
			m.keys["a"], m.keys["b"] = &c20key{}, &c20key{}
			m.idem, m.stream = nil, nil
		case 3:
			checkState(label)
		case 4:
			checkStream(label)
		}
	}
	// final observation
	checkCasts("end")
	checkState("end")
	checkStream("end")
	checkCasts("end (reads broadcast nothing)")
	// stored deadlines: nothing but an unsuppressed publish or the documented
	// refresh touches a key's TTL
	if c, ok := b.mapHub.channels[ch]; ok {
		for _, k := range []string{"a", "b"} {
			if e, ok := c.state[k]; ok && m.keys[k].exists {
				vAssert(e.ExpireAt == m.keys[k].expireAt, "ttl-deadline-equals-model")
				// stored per-key version (decides later dedup)
				vAssert(e.Version == m.keys[k].version && vStrEq(e.VersionEpoch, m.keys[k].vepoch), "stored-version-equals-model")
			}
		}
	}
}
