package centrifuge

// C37: connection limits are enforced (channel limit, channel name length,
// slow-consumer queue limit).

import (
	"context"
	"time"

	"github.com/centrifugal/centrifuge/internal/queue"
	"github.com/centrifugal/protocol"
)

// (a) validateSubscribeRequest from an arbitrary valid pre-state: k
// established subscriptions, j loading map subscriptions, symbolic limit and
// maximum name length, symbolic channel name of length 0..7 (so it may or may
// not equal an existing name). The function is atomic under c.mu, so one call
// from an arbitrary state is the inductive step for any interleaving of
// concurrent subscribe requests.
func vh_C37_validate() {
	n := vNewNode(Config{})
	limit := vRange("channel_limit", -1, 6)
	maxLen := vRange("channel_max_length", -1, 8)
	n.config.ClientChannelLimit = limit
	n.config.ChannelMaxLength = maxLen
	tr := vNewTransport()
	c := vNewClient(n, "u1", tr)
	k := vChoice("existing", vParam("c37_existing", 2)+1)
	j := vChoice("map_loading", vParam("c37_maploading", 1)+1)
	names := []string{"e0", "e1", "e2", "e3"}
	mnames := []string{"m0", "m1", "m2"}
	for q := 0; q < k; q++ {
		c.channels[names[q]] = ChannelContext{flags: flagSubscribed, subGen: c.subGenCounter.Add(1)}
	}
	if j > 0 {
		c.mapSubscribing = map[string]*mapSubscribeState{}
		for q := 0; q < j; q++ {
			c.mapSubscribing[mnames[q]] = &mapSubscribeState{}
		}
	}
	// the pre-state respects the limit (it is what earlier accepted requests left)
	vAssume(vOr(limit <= 0, k+j <= limit))

	L := []int{0, 2, 7, 3, 1}[vChoice("name_len", vParam("c37_namelens", 3))]
	name := vString("name", L)
	isMap := vChoice("map_type", 2) == 1
	req := &protocol.SubscribeRequest{Channel: name}
	if isMap {
		req.Type = int32(SubscriptionTypeMap)
		req.Phase = MapPhaseState // an initial map subscribe request
	}
	gen, rerr, disc := c.validateSubscribeRequest(req)

	// duplicate name?
	dup := false
	for q := 0; q < k; q++ {
		dup = vOr(dup, vStrEq(name, names[q]))
	}
	dupMap := false
	for q := 0; q < j; q++ {
		dupMap = vOr(dupMap, vStrEq(name, mnames[q]))
	}
	total := len(c.channels) + len(c.mapSubscribing)
	// the invariant of the property
	vAssert(vOr(limit <= 0, total <= limit), "never more subscriptions (incl. reservations) than the limit")

	if L == 0 {
		vAssert(disc != nil && disc.Code == DisconnectBadRequest.Code && rerr == nil, "empty channel: bad request disconnect")
		vAssert(total == k+j, "state unchanged")
		return
	}
	vAssert(disc == nil, "no disconnect for a non-empty channel")
	tooLong := vAnd(maxLen > 0, L > maxLen)
	if tooLong {
		vAssert(rerr != nil && rerr.Code == ErrorBadRequest.Code, "over-long channel name rejected")
		vAssert(total == k+j && gen == 0, "state unchanged")
		vCover(true, "too-long")
		return
	}
	if vOr(dup, dupMap) {
		vAssert(rerr != nil && rerr.Code == ErrorAlreadySubscribed.Code, "duplicate subscribe rejected")
		vAssert(total == k+j, "state unchanged")
		vCover(true, "duplicate")
		return
	}
	over := vAnd(limit > 0, k+j >= limit)
	if over {
		vAssert(rerr != nil && rerr.Code == ErrorLimitExceeded.Code, "over the limit: limit exceeded")
		vAssert(total == k+j && gen == 0, "state unchanged")
		_, reserved := c.channels[name]
		vAssert(!reserved, "no reservation over the limit")
		vCover(true, "limit-exceeded")
		return
	}
	vAssert(rerr == nil, "accepted below the limit")
	if !isMap {
		ctx, reserved := c.channels[name]
		vAssert(reserved && gen != 0 && ctx.subGen == gen && ctx.subscribingCh != nil, "reservation installed")
		vAssert(total == k+j+1, "exactly one reservation added")
		vCover(vAnd(limit > 0, total == limit), "accepted-up-to-limit")
	}
	vCover(limit <= 0, "unlimited")
}

// (b) whole flow through HandleCommand: a sequence of client subscribe
// commands (synchronous or parked handler callbacks, i.e. concurrent requests
// in flight), then a server-side Client.Subscribe.
func vh_C37_flow() {
	l := &vccLog{}
	n := vNewNode(Config{})
	limit := vRange("channel_limit", -1, 4)
	maxLen := vRange("channel_max_length", -1, 5)
	n.config.ClientChannelLimit = limit
	n.config.ChannelMaxLength = maxLen
	tr := vNewTransport()
	c := vNewClient(n, "u1", tr)
	async := vChoice("async", 2) == 1
	c.OnSubscribe(func(e SubscribeEvent, cb SubscribeCallback) {
		l.hit("subscribe")
		l.finish(async, func() { cb(SubscribeReply{}, nil) })
	})
	vAssert(vConnect(c), "connect proceeds")
	vSettle()
	steps := vParam("c37_steps", 3)
	chans := []string{"c0", "c1x", "c2xx", "c3xxx"}
	count := 0 // model: accepted client-side subscriptions (incl. in flight)
	for s := 0; s < steps; s++ {
		base := len(tr.frames)
		id := uint32(10 + s)
		ch := chans[s]
		proceed := c.HandleCommand(&protocol.Command{Id: id, Subscribe: &protocol.SubscribeRequest{Channel: ch}}, 0)
		vSettle()
		vAssert(proceed && !tr.closed, "subscribe keeps the connection")
		c.mu.RLock()
		held := len(c.channels)
		_, has := c.channels[ch]
		c.mu.RUnlock()
		vAssert(vOr(limit <= 0, held <= limit), "never more client-side subscriptions than the limit")
		same, _, r := vccCountReplies(tr, base, id)
		if vAnd(maxLen > 0, len(ch) > maxLen) {
			vAssert(same == 1 && r.Error != nil && r.Error.Code == ErrorBadRequest.Code && !has, "over-long channel name rejected")
			vCover(true, "too-long")
			continue
		}
		if vAnd(limit > 0, count >= limit) {
			vAssert(same == 1 && r.Error != nil && r.Error.Code == ErrorLimitExceeded.Code && !has, "limit exceeded")
			vCover(true, "limit-exceeded")
			continue
		}
		count++
		vAssert(has && held == count, "subscription (or its reservation) held")
		if !async {
			vAssert(same == 1 && r.Error == nil && r.Subscribe != nil, "subscribed")
		} else {
			vAssert(same == 0, "pending")
		}
	}
	if async {
		for _, f := range l.parked {
			f()
		}
		vSettle()
		vAssert(!tr.closed && len(c.channels) == count, "all pending subscribes completed")
		for s := 0; s < steps; s++ {
			if _, ok := c.channels[chans[s]]; ok {
				vAssert(c.IsSubscribed(chans[s]), "completed")
			}
		}
	}
	vAssert(vOr(limit <= 0, len(c.channels) <= limit), "never more client-side subscriptions than the limit (final)")
	// server-side subscribe
	err := c.Subscribe("srv")
	vSettle()
	if vAnd(limit > 0, count >= limit) {
		vAssert(err == nil && tr.closed && tr.closeD.Code == DisconnectChannelLimit.Code, "server-side subscribe over the limit disconnects")
		vCover(true, "server-side-over-limit")
	} else {
		vAssert(err == nil && !tr.closed && c.IsSubscribed("srv"), "server-side subscribe below the limit")
		vCover(true, "server-side-ok")
	}
}

// (c) connect-time server-side subscriptions over the limit disconnect.
func vh_C37_connect_subs() {
	n := vNewNode(Config{})
	limit := vRange("channel_limit", -1, 4)
	n.config.ClientChannelLimit = limit
	s := vChoice("nsubs", 4)
	n.OnConnecting(func(ctx context.Context, e ConnectEvent) (ConnectReply, error) {
		subs := map[string]SubscribeOptions{}
		for q := 0; q < s; q++ {
			subs[[]string{"s0", "s1", "s2"}[q]] = SubscribeOptions{}
		}
		return ConnectReply{Subscriptions: subs}, nil
	})
	tr := vNewTransport()
	c := vNewClient(n, "u1", tr)
	vConnect(c)
	vSettle()
	if vAnd(limit > 0, s > limit) {
		vAssert(tr.closed && tr.closeD.Code == DisconnectChannelLimit.Code, "connect-time subscriptions over the limit disconnect")
		vAssert(len(c.Channels()) == 0, "nothing subscribed")
		vCover(true, "over-limit")
	} else {
		vAssert(!tr.closed && len(c.Channels()) == s, "connect-time subscriptions installed")
	}
}

// (d) writer queue: pending bytes > MaxQueueSize <=> DisconnectSlow.
// MaxQueueSize symbolic; item data lengths chosen per item; single and
// batched enqueue; with or without a draining writer goroutine in between.
var c37sizes = []int{0, 1, 3, 8, 17}

func vh_C37_queue() {
	max := vRange("max_queue_size", -1, 64)
	var written int
	w := newWriter(writerConfig{
		MaxQueueSize: max,
		WriteFn:      func(item queue.Item) error { written += len(item.Data); return nil },
		WriteManyFn: func(items ...queue.Item) error {
			for _, it := range items {
				written += len(it.Data)
			}
			return nil
		},
	}, 0)
	drain := vChoice("drain", 2) == 1
	if drain {
		go w.run(0, 0, 0, false)
	}
	nItems := 1 + vChoice("n_enqueues", vParam("c37_items", 3))
	pending := 0
	total := 0
	for k := 0; k < nItems; k++ {
		sz := []int{0, 1, 8}[vChoice("size", 3)]
		var d *Disconnect
		if vChoice("many", 2) == 1 {
			sz2 := []int{3, 17}[vChoice("size2", 2)]
			d = w.enqueueMany(queue.Item{Data: make([]byte, sz)}, queue.Item{Data: make([]byte, sz2)})
			sz += sz2
		} else {
			d = w.enqueue(queue.Item{Data: make([]byte, sz)})
		}
		pending += sz
		total += sz
		slow := vAnd(max > 0, pending > max)
		vAssert(vIff(d != nil, slow), "slow disconnect iff pending bytes exceed the limit")
		if d != nil {
			vAssert(d.Code == DisconnectSlow.Code, "DisconnectSlow")
			vCover(k > 0, "slow-after-accumulation")
			return
		}
		vAssert(w.messages.Size() == pending, "queue size is the pending byte count")
		if drain {
			vSettle()
			vAssert(w.messages.Size() == 0 && written == total, "drained")
			pending = 0
		}
	}
	vCover(vAnd(max > 0, pending == max), "exactly-at-limit-accepted")
	vCover(drain, "drained")
}

// (e) end to end on a connected client: ClientQueueMaxSize symbolic, pushes
// of chosen sizes written while the writer goroutine has not run yet.
func vh_C37_client_slow() {
	n := vNewNode(Config{})
	max := vRange("client_queue_max_size", 1, 40)
	n.config.ClientQueueMaxSize = max
	tr := vNewTransport()
	c := vNewClient(n, "u1", tr)
	vAssert(vConnect(c), "connect proceeds")
	vSettle()
	vAssert(!tr.closed && c.messageWriter.messages.Size() == 0, "connected, queue drained")
	base := len(tr.frames)
	nItems := 1 + vChoice("n_pushes", vParam("c37_pushes", 3))
	pending := 0
	slow := false
	sent := 0
	for k := 0; k < nItems; k++ {
		sz := c37sizes[1+vChoice("size", len(c37sizes)-1)]
		err := c.writeEncodedPushData(make([]byte, sz), "", "", protocol.FrameTypePushPublication, ChannelBatchConfig{})
		pending += sz
		if pending > max {
			vAssert(err != nil, "enqueue over the limit reports an error")
			slow = true
			break
		}
		vAssert(err == nil, "enqueue below the limit accepted")
		sent++
	}
	vSettle()
	if slow {
		vAssert(tr.closed && tr.closeD.Code == DisconnectSlow.Code, "connection closed as slow")
		vCover(true, "closed-slow")
	} else {
		vAssert(!tr.closed && len(tr.frames) == base+sent, "all pushes delivered, connection kept")
		vCover(pending == max, "exactly-at-limit-kept")
	}
}

// (d') the limit is for the stalled peer: while a write to the transport is
// parked (timer-driven flush, which holds the writer lock for the whole
// write, or the dedicated writer goroutine), an enqueue that takes the
// pending bytes over MaxQueueSize must still report DisconnectSlow - it must
// not wait for the stalled write to return.
func vh_C37_queue_stalled_write() {
	max := vRange("max_queue_size", 1, 16)
	release := make(chan struct{})
	stalled := false
	park := func() {
		stalled = true
		<-release
		stalled = false
	}
	w := newWriter(writerConfig{
		MaxQueueSize: max,
		WriteFn:      func(item queue.Item) error { park(); return nil },
		WriteManyFn:  func(items ...queue.Item) error { park(); return nil },
	}, 0)
	timerMode := vChoice("timer_mode", 2) == 1
	const delay = 10 * time.Millisecond
	if timerMode {
		w.run(delay, 0, 0, true)
	} else {
		go w.run(0, 0, 0, false)
	}
	vAssert(w.enqueue(queue.Item{Data: make([]byte, 1)}) == nil, "first item accepted")
	vSettle()
	if timerMode {
		vAdvance(int64(delay))
		vSettle()
	}
	vAssert(stalled, "the transport write is parked")
	many := vChoice("many", 2) == 1
	var got *Disconnect
	returned := false
	go func() {
		if many {
			got = w.enqueueMany(queue.Item{Data: make([]byte, 9)}, queue.Item{Data: make([]byte, 8)})
		} else {
			got = w.enqueue(queue.Item{Data: make([]byte, 17)})
		}
		returned = true
	}()
	vSettle()
	vAssert(returned, "enqueue over the limit does not wait for the stalled write")
	vAssert(got != nil && got.Code == DisconnectSlow.Code, "DisconnectSlow while the write is stalled")
	vCover(timerMode, "timer-mode")
	close(release)
	vSettle()
}
