package centrifuge

import (
	"context"

	"github.com/centrifugal/protocol"
)

// C28: Node.Unsubscribe(user, "") is documented as "unsubscribe from all
// channels". A real connected client is server-side subscribed (real
// Client.Subscribe) to a subset of {a,b,c}; then the real Node.Unsubscribe is
// called with symbolic targeting options. For a matching connection every
// subscribed channel must be gone afterwards with the usual per-channel
// effects: OnUnsubscribe callback (once, right event), leave published (when
// the subscription emits join/leave), presence entry removed, hub routing
// entry removed, one unsubscribe push with the right code. A non-matching
// connection keeps everything. vh_C28_one runs the same oracle for a concrete
// channel name (calibration of "usual per-channel effects").

var vC28Channels = []string{"a", "b", "c"}

// vC28Broker records join/leave publications and delegates to the real broker.
type vC28Broker struct {
	Broker
	leaves []string // channel of each PublishLeave, with the client id
}

func (b *vC28Broker) PublishLeave(ch string, info *ClientInfo) error {
	id := ""
	if info != nil {
		id = info.ClientID
	}
	b.leaves = append(b.leaves, ch+"|"+id)
	return b.Broker.PublishLeave(ch, info)
}

type vC28World struct {
	n      *Node
	br     *vC28Broker
	c      *Client
	tr     *vTransport
	events []UnsubscribeEvent
	subbed [3]bool
	pres   [3]bool
	jl     [3]bool
}

func vC28Setup() *vC28World {
	w := &vC28World{}
	w.n = vLightNodeOpt(Config{}, false, vC28Channels...) // dissolver workers not started: deferred broker unsubscribes stay queued (not observed here)
	w.br = &vC28Broker{Broker: w.n.broker}
	w.n.broker = w.br
	w.n.OnConnecting(func(ctx context.Context, e ConnectEvent) (ConnectReply, error) {
		return ConnectReply{Labels: map[string]string{"k": "p"}}, nil
	})
	w.tr = vNewTransport()
	w.c = vNewClient(w.n, "u1", w.tr)
	w.c.uid = "c1"
	w.c.session = "s1"
	w.c.OnUnsubscribe(func(e UnsubscribeEvent) {
		w.events = append(w.events, e)
	})
	vAssert(vConnect(w.c), "connect proceeds")
	vSettle()
	// Subscription flags are enumerated (the code under test branches on each).
	perChannel := vParam("c28_per_channel_flags", 0) == 1
	var f0 int
	if !perChannel {
		f0 = vChoice("flags", 4) // bit0 = emit presence, bit1 = emit join/leave
	}
	for k, ch := range vC28Channels {
		if vChoice("subscribed_"+ch, 2) == 0 {
			continue
		}
		f := f0
		if perChannel {
			f = vChoice("flags_"+ch, 4)
		}
		w.pres[k] = f&1 != 0
		w.jl[k] = f&2 != 0
		err := w.c.Subscribe(ch, WithEmitPresence(w.pres[k]), WithEmitJoinLeave(w.jl[k]))
		vAssert(err == nil, "server-side subscribe succeeds")
		w.subbed[k] = true
	}
	vSettle()
	// pre-state sanity
	for k, ch := range vC28Channels {
		vAssert(w.c.IsSubscribed(ch) == w.subbed[k], "pre: subscribed as set up")
		vAssert(w.hasPresence(ch) == (w.subbed[k] && w.pres[k]), "pre: presence as set up")
		vAssert((w.n.hub.NumSubscribers(ch) == 1) == w.subbed[k], "pre: hub entry as set up")
	}
	return w
}

func (w *vC28World) hasPresence(ch string) bool {
	res, err := w.n.getPresenceManager(ch).Presence(ch)
	vAssert(err == nil, "presence readable")
	_, ok := res["c1"]
	return ok
}

// unsubPushes returns the unsubscribe pushes written to the transport from
// frame index `from` on.
func (w *vC28World) unsubPushes(from int) []*protocol.Push {
	var out []*protocol.Push
	for _, r := range vReplies(w.tr)[from:] {
		if r != nil && r.Push != nil && r.Push.Unsubscribe != nil {
			out = append(out, r.Push)
		}
	}
	return out
}

// vC28Run calls the real Node.Unsubscribe(user, channel, symbolic targeting)
// and checks the post-state. expect[k] tells whether channel k must have been
// unsubscribed on a matching connection.
func vC28Run(w *vC28World, channel string, expect [3]bool, light bool) {
	// Targeting. Thorough tier (c28_target_product=1): the full product of
	// who x {client id, session, label filter each unset or a symbolic string}
	// x custom unsubscribe. Quick tier: a covering table of 9 combinations.
	user, allUsers := "u1", false
	useCid, useSid, useLf := false, false, false
	custom := false
	if vParam("c28_target_product", 0) == 1 && !light {
		switch vChoice("who", 5) {
		case 1:
			user = "u2"
		case 2:
			user = ""
		case 3:
			user, allUsers = "", true
		case 4:
			allUsers = true
		}
		useCid = vChoice("with_client", 2) == 1
		useSid = vChoice("with_session", 2) == 1
		useLf = vChoice("with_label_filter", 2) == 1
		custom = vChoice("custom_unsubscribe", 2) == 1
	} else {
		switch vChoice("targeting", 9) {
		case 0:
		case 1:
			useCid, custom = true, true
		case 2:
			useSid = true
		case 3:
			useLf, custom = true, true
		case 4:
			user, custom = "u2", true
		case 5:
			user = ""
		case 6:
			user, allUsers, useSid, custom = "", true, true, true
		case 7:
			user, allUsers, useLf = "", true, true
		case 8:
			user, allUsers, custom = "", true, true
		}
	}
	var opts []UnsubscribeOption
	narrow := true // client id / session / label filter all accept the connection
	if useCid {
		cid := vString("client_id", 2)
		opts = append(opts, WithUnsubscribeClient(cid))
		if cid != "c1" {
			narrow = false
		}
	}
	if useSid {
		sid := vString("session_id", 2)
		opts = append(opts, WithUnsubscribeSession(sid))
		if sid != "s1" {
			narrow = false
		}
	}
	if useLf {
		val := vString("label_value", 1)
		opts = append(opts, WithUnsubscribeLabelFilter(&FilterNode{Key: "k", Cmp: "eq", Val: val}))
		if val != "p" {
			narrow = false
		}
	}
	if allUsers {
		opts = append(opts, WithUnsubscribeAllUsers(true))
	}
	// the connection belongs to user u1; an empty user with allUsers targets every connection
	matched := narrow && (user == "u1" || (user == "" && allUsers))
	want := unsubscribeServer
	if custom {
		// concrete code: a symbolic code makes the push size accounting fork on
		// varint boundaries (~150 decisions per path) for nothing
		want = Unsubscribe{Code: 4242, Reason: "r"}
		opts = append(opts, WithCustomUnsubscribe(want))
	}
	framesBefore := len(w.tr.frames)
	leavesBefore := len(w.br.leaves)

	err := w.n.Unsubscribe(user, channel, opts...)
	vAssert(err == nil, "Node.Unsubscribe succeeds")
	vSettle()

	anyExpected := false
	for k := range vC28Channels {
		if expect[k] && w.subbed[k] {
			anyExpected = true
		}
	}
	vCover(matched && anyExpected, "matching-connection-with-subscriptions")
	vCover(!matched, "non-matching-connection")
	vAssert(!w.tr.closed, "connection stays open")

	if !matched {
		for k, ch := range vC28Channels {
			vAssert(w.c.IsSubscribed(ch) == w.subbed[k], "non-matching connection keeps its subscriptions")
			vAssert(w.hasPresence(ch) == (w.subbed[k] && w.pres[k]), "non-matching connection keeps presence")
		}
		vAssert(len(w.events) == 0, "no unsubscribe callback on a non-matching connection")
		vAssert(len(w.unsubPushes(framesBefore)) == 0, "no unsubscribe push on a non-matching connection")
		vAssert(len(w.br.leaves) == leavesBefore, "no leave for a non-matching connection")
		return
	}

	if channel == "" {
		// The real code looks up a channel literally named "" and finds none.
		vKnown("C28-empty-channel-unsubscribes-nothing", anyExpected)
	}
	pushes := w.unsubPushes(framesBefore)
	for k, ch := range vC28Channels {
		gone := expect[k] && w.subbed[k]
		stays := w.subbed[k] && !expect[k]
		vAssert(w.c.IsSubscribed(ch) == stays, "channel subscription state after unsubscribe")
		vAssert((w.n.hub.NumSubscribers(ch) == 1) == stays, "hub routing entry after unsubscribe")
		vAssert(w.hasPresence(ch) == (stays && w.pres[k]), "presence after unsubscribe")
		nev, npush, nleave := 0, 0, 0
		for _, e := range w.events {
			if e.Channel == ch {
				nev++
				vAssert(e.ServerSide, "callback: server-side subscription")
				vAssert(e.Disconnect == nil, "callback: not a disconnect")
				vAssert(e.Unsubscribe.Code == want.Code && e.Unsubscribe.Reason == want.Reason, "callback: unsubscribe code/reason")
			}
		}
		for _, p := range pushes {
			if p.Channel == ch {
				npush++
				vAssert(p.Unsubscribe.Code == want.Code && p.Unsubscribe.Reason == want.Reason, "push: unsubscribe code/reason")
			}
		}
		for _, l := range w.br.leaves[leavesBefore:] {
			if l == ch+"|c1" {
				nleave++
			}
		}
		if gone {
			vAssert(nev == 1, "exactly one unsubscribe callback per removed channel")
			vAssert(npush == 1, "exactly one unsubscribe push per removed channel")
			if w.jl[k] {
				vAssert(nleave == 1, "exactly one leave per removed join/leave channel")
			} else {
				vAssert(nleave == 0, "no leave for a channel without join/leave")
			}
		} else {
			vAssert(nev == 0, "no callback for a channel that was not removed")
			// (the real code pushes an unsubscribe for the NAMED channel even when the
			// connection is not subscribed to it; the statement is silent about that)
			if ch != channel {
				vAssert(npush == 0, "no push for a channel that was not removed")
			}
			vAssert(nleave == 0, "no leave for a channel that was not removed")
		}
	}
	// nothing else: every callback / push / leave belongs to one of the channels
	for _, e := range w.events {
		vAssert(e.Channel == "a" || e.Channel == "b" || e.Channel == "c", "callback for a real channel")
	}
	for _, p := range pushes {
		// observation, not part of the statement: the real code pushes an
		// unsubscribe for the channel named "" to the client
		vCover(p.Channel == "", "observed-unsubscribe-push-for-empty-channel-name")
	}
	if channel == "" {
		vAssert(len(w.c.Channels()) == 0, "no channels left after Unsubscribe(user, \"\")")
	}
}

// vh_C28_all: the property. Empty channel name => all channels.
func vh_C28_all() {
	w := vC28Setup()
	vC28Run(w, "", [3]bool{true, true, true}, false)
}

// vh_C28_one: same oracle for one concrete channel (the documented normal case).
func vh_C28_one() {
	w := vC28Setup()
	k := vChoice("channel", vParam("c28_one_channels", 1))
	var expect [3]bool
	expect[k] = true
	vC28Run(w, vC28Channels[k], expect, vParam("c28_one_light", 1) == 1)
}
