package centrifuge

import "github.com/centrifugal/protocol"

// C05: after a connection closes while an operation on it is in flight, and
// everything settled, the node keeps no trace of it: no routing entry, no
// registered connection, no presence entry, no channel or reservation left on
// the connection. (Prometheus gauges are stubbed: outside the claim.)
func vh_C05_no_trace_after_close() {
	n := vNewNode(Config{})
	asyncReply := false
	n.OnConnect(func(c *Client) {
		c.OnSubscribe(func(e SubscribeEvent, cb SubscribeCallback) {
			reply := SubscribeReply{Options: SubscribeOptions{EmitPresence: true, EmitJoinLeave: true}}
			if asyncReply {
				go cb(reply, nil)
				return
			}
			cb(reply, nil)
		})
	})
	tr := vNewTransport()
	c := vNewClient(n, "u", tr)
	// operation in flight:
	//   0 connect command   1 client subscribe (sync)   2 client subscribe (async reply)
	//   3 server-side Subscribe with presence   4 presence tick
	op := vChoice("op", 5)
	if op != 0 {
		vAssert(vConnect(c), "connects")
		vSettle()
	}
	if op == 4 {
		c.HandleCommand(&protocol.Command{Id: 2, Subscribe: &protocol.SubscribeRequest{Channel: "ch"}}, 0)
		vSettle()
		vAssert(c.IsSubscribed("ch"), "pre-subscribed")
	}
	cause := vChoice("cause", 3)
	closer := func() {
		switch cause {
		case 0:
			_ = c.close(DisconnectConnectionClosed) // transport error / peer went away
		case 1:
			_ = c.close(DisconnectForceNoReconnect) // server-initiated
		default:
			_ = c.close(DisconnectSlow) // slow consumer
		}
	}
	operation := func() {
		switch op {
		case 0:
			vConnect(c)
		case 1:
			asyncReply = false
			c.HandleCommand(&protocol.Command{Id: 5, Subscribe: &protocol.SubscribeRequest{Channel: "ch"}}, 0)
		case 2:
			asyncReply = true
			c.HandleCommand(&protocol.Command{Id: 5, Subscribe: &protocol.SubscribeRequest{Channel: "ch"}}, 0)
		case 3:
			_ = c.Subscribe("ch", WithEmitPresence(true), WithEmitJoinLeave(true))
		default:
			c.updatePresence()
		}
	}
	first := vChoice("first", 2)
	vPreempt(vParam("c05_preempt", 1))
	if first == 0 {
		go operation()
		go closer()
	} else {
		go closer()
		go operation()
	}
	vSettle()
	vPreempt(0)
	// let wait gates / deferred work time out or drain
	vAdvance(6_000_000_000)
	vSettle()

	c.mu.RLock()
	closed := c.status == statusClosed
	nch := len(c.channels)
	nres := len(c.mapSubscribing)
	c.mu.RUnlock()
	vAssert(closed, "connection-is-closed")
	vAssert(nch == 0, "no-channel-left-on-connection")
	vAssert(nres == 0, "no-map-reservation-left")
	entry, _ := vHubEntry(n, "ch", c)
	vAssert(!entry, "no-routing-entry")
	vAssert(n.hub.NumSubscribers("ch") == 0, "no-subscriber-count")
	sh := n.hub.connShards[index(c.UserID(), numHubShards)]
	sh.mu.RLock()
	_, registered := sh.clients[c.uid]
	_, userKnown := sh.users[c.UserID()]
	sh.mu.RUnlock()
	vAssert(!registered, "connection-not-registered")
	vAssert(!userKnown, "user-not-registered")
	vAssert(n.hub.NumClients() == 0, "no-clients")
	pres, err := n.Presence("ch")
	vAssert(err == nil, "presence ok")
	_, present := pres.Presence[c.uid]
	vAssert(!present, "no-presence-entry")
	vCover(op == 0, "close-during-connect")
	vCover(op == 4, "close-during-presence-tick")
	vAssert(tr.nclose <= 1, "transport-closed-at-most-once")
}

// C05 (keyed tracking): a shared-poll subscribe whose handler answers late, an
// unsubscribe that parks on the wait gate of that in-flight subscribe, a track
// for a key that commits while the subscribe finalizes (after the channel
// context is installed, before the gate opens - the harness commits it from
// inside the GetSharedPollChannelOptions call of the finalize step, the way
// handleTrack leaves the state), the parked unsubscribe then tears the
// subscription down, and the connection closes. Nothing of the connection may
// remain: not in the keyed hub, not in its own tracking maps.
func vh_C05_parked_unsubscribe_keyed() {
	var hook func()
	n := vNewNode(Config{SharedPoll: SharedPollConfig{GetSharedPollChannelOptions: func(ch string) (SharedPollChannelOptions, bool) {
		if hook != nil {
			h := hook
			hook = nil
			h()
		}
		return SharedPollChannelOptions{}, ch == c25Ch
	}}})
	var finish func()
	n.OnConnect(func(c *Client) {
		c.OnSubscribe(func(e SubscribeEvent, cb SubscribeCallback) {
			finish = func() { cb(SubscribeReply{}, nil) } // answered later
		})
	})
	tr := vNewTransport()
	tr.proto = ProtocolTypeProtobuf
	c := vNewClient(n, "u", tr)
	vAssert(vConnect(c), "connects")
	vSettle()
	c.HandleCommand(&protocol.Command{Id: 5, Subscribe: &protocol.SubscribeRequest{Channel: c25Ch, Type: int32(SubscriptionTypeSharedPoll)}}, 0)
	vSettle()
	vAssert(finish != nil, "subscribe handler called, answer pending")

	parked := vChoice("unsubscribe_while_subscribing", 2) == 1
	done := false
	if parked {
		go func() {
			c.Unsubscribe(c25Ch)
			done = true
		}()
		vSettle()
		vCover(!done, "unsubscribe-parked-on-the-wait-gate")
	}
	tracked := false
	if vChoice("track_commits_during_finalize", 2) == 1 {
		hook = func() {
			c25Track(&c25Conn{c: c, tr: tr}, c25Key, &keyedKeyState{}, 0)
			tracked = true
		}
	}
	finish()
	vSettle()
	if !parked {
		vAssert(c.IsSubscribed(c25Ch), "subscribed")
		if vChoice("unsubscribe_before_close", 2) == 1 {
			c.Unsubscribe(c25Ch)
			vSettle()
		}
	}
	_ = c.close(DisconnectForceNoReconnect)
	vSettle()
	vAdvance(6_000_000_000)
	vSettle()

	c.mu.RLock()
	nch := len(c.channels)
	ntracked := 0
	if c.keyed != nil {
		ntracked = len(c.keyed.trackedKeys[c25Ch])
	}
	c.mu.RUnlock()
	if hub := n.keyedManager.getHub(c25Ch); hub != nil {
		vAssert(!hub.hasSubscriber(c25Key, c), "closed-connection-not-in-the-keyed-hub")
		vAssert(hub.subscriberCount(c25Key) == 0, "no-subscriber-for-the-key")
	}
	vAssert(nch == 0, "no-channel-left-on-connection")
	vAssert(ntracked == 0, "no-tracked-key-left-on-connection")
	vAssert(n.hub.NumClients() == 0, "no-clients")
	vCover(parked && tracked, "track-committed-while-unsubscribe-waited")
}
