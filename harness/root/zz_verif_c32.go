package centrifuge

// C32: SSE and HTTP-stream framing deliver each message intact.
//
// The REAL SSEHandler.ServeHTTP / HTTPStreamHandler.ServeHTTP run as an
// interpreted thread against a recording http.ResponseWriter+Flusher and a
// directly built *http.Request (net/http's Request.Context, MaxBytesReader,
// Header.Set, ResponseController are interpreted from source, not modelled).
// The harness thread writes messages with SYMBOLIC payload bytes through the
// real transport object the handler created (WriteMany -> messages channel ->
// framing loop -> ack), then ends the connection. The response body is then
// given to a client-side parser written here from the standard (WHATWG
// EventSource for SSE; LF-separated records / uvarint length-prefixed records
// for HTTP streaming) and must yield exactly the messages, in order.

import (
	"runtime"
	"context"
	"io"
	"net/http"
	"net/url"
	"time"

	"github.com/centrifugal/protocol"
)

// ---- a recording http.ResponseWriter + http.Flusher

type vRespWriter struct {
	hdr      http.Header
	status   int
	body     []byte // every byte passed to Write, in order
	flushes  int
	flushedN int // len(body) at the last Flush: what the peer has received
	slow     bool // Write parks once before it consumes its argument (stalled peer)
}

func (w *vRespWriter) Header() http.Header { return w.hdr }
func (w *vRespWriter) WriteHeader(code int) {
	if w.status == 0 {
		w.status = code
	}
}
func (w *vRespWriter) Write(b []byte) (int, error) {
	if w.status == 0 {
		w.status = 200
	}
	if w.slow {
		// a ResponseWriter may block in Write; the caller's slice has to stay
		// intact until Write returns
		runtime.Gosched()
	}
	w.body = append(w.body, b...)
	return len(b), nil
}
func (w *vRespWriter) Flush() {
	w.flushes++
	w.flushedN = len(w.body)
}

// like net/http's *response, write deadlines are supported
func (w *vRespWriter) SetWriteDeadline(time.Time) error { return nil }

type vEmptyBody struct{}

func (vEmptyBody) Read([]byte) (int, error) { return 0, io.EOF }
func (vEmptyBody) Close() error             { return nil }

// ---- message model

func vC32IsWS(b byte) bool {
	return vOr(vOr(b == ' ', b == '\t'), vOr(b == '\r', b == '\n'))
}

// vC32JSONData returns k symbolic bytes restricted to what can occur raw in a
// JSON text: inside a string literal no control character (they must be
// escaped), outside only TAB, LF, CR of the control characters; a string that
// is opened is closed. (A superset of valid JSON texts: the grammar of tokens
// is not enforced.)
func vC32JSONData(name string, k int) []byte {
	b := vBytes(name, k)
	inStr, esc := false, false
	for i := range b {
		ctl := b[i] < 0x20
		wsCtl := vOr(b[i] == '\t', vOr(b[i] == '\r', b[i] == '\n'))
		vAssume(vOr(vNot(ctl), vAnd(vNot(inStr), wsCtl)))
		toggle := vAnd(b[i] == '"', vNot(esc))
		esc = vAnd(inStr, vAnd(b[i] == '\\', vNot(esc)))
		inStr = vIff(inStr, vNot(toggle))
	}
	vAssume(vNot(inStr))
	return b
}

// vC32JSONMessage builds one server message the way the JSON protocol does:
// an envelope produced by the encoder (no raw CR/LF) around an application
// payload that goes through the REAL protocol.Raw.MarshalJSON.
func vC32JSONMessage(name string, k int) (msg []byte, data []byte) {
	data = vC32JSONData(name, k)
	raw, err := protocol.Raw(data).MarshalJSON()
	if err != nil {
		panic("Raw.MarshalJSON failed")
	}
	msg = append(msg, `{"d":`...)
	msg = append(msg, raw...)
	msg = append(msg, '}')
	return msg, data
}

func vC32Has(b []byte, c byte) bool {
	has := false
	for i := range b {
		has = vOr(has, b[i] == c)
	}
	return has
}

// vC32JSONEquiv: a and b are the same JSON text up to insignificant
// whitespace (SP, TAB, CR, LF outside string literals), i.e. they decode to
// the same message. Non-branching.
func vC32JSONEquiv(a, b []byte) bool {
	keepA, rankA, nA := vC32Keep(a)
	keepB, rankB, nB := vC32Keep(b)
	ok := nA == nB
	for i := range a {
		for j := range b {
			ok = vAnd(ok, vImplies(vAnd(vAnd(keepA[i], keepB[j]), rankA[i] == rankB[j]), a[i] == b[j]))
		}
	}
	// identical byte sequences: trivially the same text (folds to true when
	// the handler copied the bytes unchanged)
	return vOr(vBytesEq(a, b), ok)
}

func vC32Keep(b []byte) (keep []bool, rank []int, n int) {
	inStr, esc := false, false
	for i := range b {
		k := vOr(inStr, vNot(vC32IsWS(b[i])))
		keep = append(keep, k)
		rank = append(rank, n)
		n = vIteInt(k, n+1, n)
		toggle := vAnd(b[i] == '"', vNot(esc))
		esc = vAnd(inStr, vAnd(b[i] == '\\', vNot(esc)))
		inStr = vIff(inStr, vNot(toggle))
	}
	return
}

// ---- client-side parsers (the oracles)

type vSSEEvent struct {
	data    []byte
	typ     []byte // event type buffer ("" = default type "message")
	lastID  []byte
	hasType bool
}

// vC32ParseSSE is the event stream interpretation algorithm of the WHATWG
// HTML standard (9.2.5/9.2.6): lines end with CRLF, LF or CR; an empty line
// dispatches; a line starting with ':' is a comment; "field:value" with one
// optional leading space of the value removed; fields data, event, id, retry.
// pending reports an incomplete event or line at the end of the stream
// (discarded by a client).
func vC32ParseSSE(s []byte) (events []vSSEEvent, pending bool) {
	var data, typ, lastID []byte
	i := 0
	if len(s) >= 3 && s[0] == 0xEF && s[1] == 0xBB && s[2] == 0xBF {
		i = 3 // one leading BOM is ignored
	}
	for i < len(s) {
		j := i
		for j < len(s) && s[j] != '\r' && s[j] != '\n' {
			j++
		}
		if j == len(s) {
			return events, true // unterminated last line
		}
		line := s[i:j]
		if s[j] == '\r' && j+1 < len(s) && s[j+1] == '\n' {
			j++
		}
		i = j + 1
		if len(line) == 0 { // dispatch
			if len(data) == 0 {
				typ = nil
				continue
			}
			if data[len(data)-1] == '\n' {
				data = data[:len(data)-1]
			}
			events = append(events, vSSEEvent{data: data, typ: typ, lastID: lastID, hasType: len(typ) > 0})
			data, typ = nil, nil
			continue
		}
		if line[0] == ':' {
			continue
		}
		c := 0
		for c < len(line) && line[c] != ':' {
			c++
		}
		field := line[:c]
		var value []byte
		if c < len(line) {
			value = line[c+1:]
			if len(value) > 0 && value[0] == ' ' {
				value = value[1:]
			}
		}
		switch {
		case vC32Is(field, "data"):
			data = append(data, value...)
			data = append(data, '\n')
		case vC32Is(field, "event"):
			typ = value
		case vC32Is(field, "id"):
			nul := false
			for _, b := range value {
				if b == 0 {
					nul = true
				}
			}
			if !nul {
				lastID = value
			}
		default: // retry (no effect on events) and unknown fields: ignored
		}
	}
	return events, len(data) > 0 || len(typ) > 0
}

func vC32Is(b []byte, s string) bool {
	if len(b) != len(s) {
		return false
	}
	for i := range b {
		if b[i] != s[i] {
			return false
		}
	}
	return true
}

// vC32SplitLines: JSON HTTP-stream records are separated by LF (what the
// client's stream decoder does: read up to the next '\n').
func vC32SplitLines(s []byte) (recs [][]byte, pending bool) {
	i := 0
	for j := 0; j < len(s); j++ {
		if s[j] == '\n' {
			recs = append(recs, s[i:j])
			i = j + 1
		}
	}
	return recs, i < len(s)
}

// vC32SplitVarint: Protobuf HTTP-stream records are prefixed by their length
// as a base-128 varint (protobuf "delimited" framing; any varint a decoder
// accepts, not only the shortest form). The split is abandoned (bad) as soon
// as record r cannot equal message r any more because its length differs from
// wantLens[r] or there are more records than messages - the property is
// already violated then, and a length read from symbolic payload bytes (only
// possible when the framing is broken) does not fan out over all its values.
func vC32SplitVarint(s []byte, wantLens []int) (recs [][]byte, bad bool) {
	i := 0
	for i < len(s) {
		var n uint64
		var shift uint
		for {
			if i >= len(s) || shift > 63 {
				return recs, true
			}
			b := s[i]
			i++
			n |= uint64(b&0x7f) << shift
			if b < 0x80 {
				break
			}
			shift += 7
		}
		if len(recs) >= len(wantLens) || n != uint64(wantLens[len(recs)]) {
			return recs, true
		}
		l := wantLens[len(recs)]
		if l > len(s)-i {
			return recs, true
		}
		recs = append(recs, s[i:i+l])
		i += l
	}
	return recs, false
}

// ---- driving the handlers

type vC32Conn struct {
	w      *vRespWriter
	client *Client
	done   bool
	cancel context.CancelFunc
}

// vC32Serve starts the real handler on a POST request with an empty body and
// returns once it waits for transport messages. HandleReadFrame is replaced by
// a no-op (an empty body would make the real one disconnect the client; the
// JSON command decoder of the protocol dependency is outside the engine) which
// also hands out the Client and, through it, the handler's transport.
func vC32Serve(h http.Handler, contentType string) *vC32Conn {
	r := &http.Request{Method: "POST", Body: vEmptyBody{}, ProtoMajor: 1, ProtoMinor: 1, Header: http.Header{}}
	if contentType != "" {
		r.Header["Content-Type"] = []string{contentType}
	}
	return vC32ServeReq(h, r)
}

func vC32ServeReq(h http.Handler, r *http.Request) *vC32Conn {
	cn := &vC32Conn{w: &vRespWriter{hdr: http.Header{}}}
	vStub("github.com/centrifugal/centrifuge.HandleReadFrame", func(c *Client, r io.Reader, lim int64) bool {
		cn.client = c
		return true
	})
	ctx, cancel := context.WithCancel(context.Background())
	cn.cancel = cancel
	r = r.WithContext(ctx)
	go func() {
		h.ServeHTTP(cn.w, r)
		cn.done = true
	}()
	vSettle()
	if cn.client == nil || cn.done {
		vTrace("status " + string(rune('0'+cn.w.status/100)) + string(rune('0'+cn.w.status/10%10)) + string(rune('0'+cn.w.status%10)))
		if cn.done {
			vTrace("handler returned")
		}
		vFail("handler did not start serving")
	}
	return cn
}

// vC32Send writes the messages in the batches given by split (bit i set: a
// new WriteMany call starts before message i+1) and checks that when the
// write is acknowledged the bytes have been flushed to the peer.
func vC32Send(cn *vC32Conn, msgs [][]byte, split int) {
	tr := cn.client.transport
	start := 0
	for i := 1; i <= len(msgs); i++ {
		if i == len(msgs) || split&(1<<(i-1)) != 0 {
			before := len(cn.w.body)
			if err := tr.WriteMany(msgs[start:i]...); err != nil {
				vFail("WriteMany failed")
			}
			// when the write is acknowledged something was sent for it and
			// everything sent so far has been flushed to the peer
			vAssert(len(cn.w.body) > before && cn.w.flushedN == len(cn.w.body), "acknowledged-write-was-flushed")
			start = i
		}
	}
}

func vC32End(cn *vC32Conn, how int) {
	if how == 0 {
		_ = cn.client.transport.Close(DisconnectForceNoReconnect) // server side closes
	} else {
		cn.cancel() // peer went away
	}
	vSettle()
	vAssert(cn.done, "handler-returns")
}

// vC32Shape picks the number of messages (1..c32_msgs), their payload lengths
// and how they are grouped into WriteMany batches. The payload length bound
// depends on the number of messages (c32_k1 for a single message, c32_k2 for
// two, c32_k3 for three or more) to keep the number of paths in check.
func vC32Shape() (lens []int, split int) {
	n := 1 + vChoice("nmsgs", vParam("c32_msgs", 2))
	maxK := vParam("c32_k3", 1)
	if n == 1 {
		maxK = vParam("c32_k1", 3)
	} else if n == 2 {
		maxK = vParam("c32_k2", 1)
	}
	for i := 0; i < n; i++ {
		lens = append(lens, vChoice("len", maxK+1))
	}
	if n > 1 {
		split = vChoice("split", 1<<(n-1))
	}
	return
}

// C32 (SSE): every message is received by an EventSource parser as exactly
// one "message" event whose data decodes to the same JSON message.
func vh_C32_sse() {
	n := vNewNode(Config{})
	lens, split := vC32Shape()
	var msgs [][]byte
	anyCR := false
	stripped := false
	for _, k := range lens {
		m, data := vC32JSONMessage("payload", k)
		msgs = append(msgs, m)
		anyCR = vOr(anyCR, vC32Has(m, '\r'))
		stripped = stripped || len(m) < len(data)+6
	}
	cn := vC32Serve(NewSSEHandler(n, SSEConfig{}), "")
	vC32Send(cn, msgs, split)
	vC32End(cn, len(lens)&1)

	w := cn.w
	vAssert(w.status == 200, "status-200")
	vAssert(len(w.hdr["Content-Type"]) == 1 && len(w.hdr["Content-Type"][0]) >= 17 && w.hdr["Content-Type"][0][:17] == "text/event-stream", "content-type-event-stream")
	evs, pending := vC32ParseSSE(w.body)
	vCover(anyCR, "payload-with-raw-CR")
	vCover(stripped, "payload-LF-stripped-by-Raw")
	vCover(len(msgs) > 1 && split == 0, "several-messages-one-batch")
	vCover(len(msgs) > 1 && split != 0, "several-batches")
	// Genuine defect: CR is a line terminator for an EventSource parser, Raw
	// strips only LF, so a payload with a raw CR between JSON tokens is cut.
	vKnown("C32-sse-raw-cr-splits-event", anyCR)
	vAssert(len(evs) == len(msgs), "one-event-per-message")
	vAssert(!pending, "no-incomplete-event")
	for i := range msgs {
		if i < len(evs) {
			vAssert(!evs[i].hasType, "default-event-type")
			vAssert(vC32JSONEquiv(evs[i].data, msgs[i]), "event-data-decodes-to-message")
		}
	}
}

// C32 (SSE over GET, HTTP/2): the browser EventSource entry (connect command in
// the cf_connect URL parameter); same framing loop, one message.
func vh_C32_sse_get() {
	n := vNewNode(Config{})
	m, _ := vC32JSONMessage("payload", vParam("c32_kget", 1))
	r := &http.Request{Method: "GET", URL: &url.URL{Path: "/connection/sse", RawQuery: "cf_connect=x"}, ProtoMajor: 2, Header: http.Header{}}
	cn := vC32ServeReq(NewSSEHandler(n, SSEConfig{}), r)
	vC32Send(cn, [][]byte{m}, 0)
	vC32End(cn, 1)
	evs, pending := vC32ParseSSE(cn.w.body)
	vKnown("C32-sse-raw-cr-splits-event", vC32Has(m, '\r'))
	vAssert(len(evs) == 1 && !pending, "one-event-per-message")
	if len(evs) == 1 {
		vAssert(!evs[0].hasType, "default-event-type")
		vAssert(vC32JSONEquiv(evs[0].data, m), "event-data-decodes-to-message")
	}
}

// C32 (HTTP stream, JSON): records are LF separated.
func vh_C32_http_stream_json() {
	n := vNewNode(Config{})
	lens, split := vC32Shape()
	var msgs [][]byte
	anyCR := false
	stripped := false
	for _, k := range lens {
		m, data := vC32JSONMessage("payload", k)
		msgs = append(msgs, m)
		anyCR = vOr(anyCR, vC32Has(m, '\r'))
		stripped = stripped || len(m) < len(data)+6
	}
	cn := vC32Serve(NewHTTPStreamHandler(n, HTTPStreamConfig{}), "application/json")
	vC32Send(cn, msgs, split)
	vC32End(cn, len(lens)&1)

	w := cn.w
	vAssert(w.status == 200, "status-200")
	recs, pending := vC32SplitLines(w.body)
	vCover(anyCR, "payload-with-raw-CR")
	vCover(stripped, "payload-LF-stripped-by-Raw")
	vCover(len(msgs) > 1 && split == 0, "several-messages-one-batch")
	vCover(len(msgs) > 1 && split != 0, "several-batches")
	vAssert(len(recs) == len(msgs), "one-record-per-message")
	vAssert(!pending, "no-incomplete-record")
	for i := range msgs {
		if i < len(recs) {
			vAssert(vC32JSONEquiv(recs[i], msgs[i]), "record-decodes-to-message")
		}
	}
}

var vC32PBLens = []int{0, 1, 128, 3, 127, 2, 129, 300}

// C32 (HTTP stream, Protobuf): records are varint length prefixed; payloads
// are arbitrary binary (any byte value, including 0x0A/0x0D/0x00/0x80..).
func vh_C32_http_stream_protobuf() {
	n := vNewNode(Config{})
	nm := 1 + vChoice("nmsgs", vParam("c32_msgs", 2))
	nl := vParam("c32_pblens", 6)
	if nm > 2 {
		nl = vParam("c32_pblens3", 3)
	}
	if nl > len(vC32PBLens) {
		nl = len(vC32PBLens)
	}
	var msgs [][]byte
	split := 0
	for i := 0; i < nm; i++ {
		l := vC32PBLens[vChoice("len", nl)]
		m := make([]byte, l)
		// symbolic at both ends and around the 1-byte/2-byte varint edge
		for _, p := range []int{0, 1, 126, 127, l - 2, l - 1} {
			if p >= 0 && p < l {
				m[p] = vByte("b")
			}
		}
		msgs = append(msgs, m)
	}
	if nm > 1 {
		split = vChoice("split", 1<<(nm-1))
	}
	cn := vC32Serve(NewHTTPStreamHandler(n, HTTPStreamConfig{}), "application/octet-stream")
	vAssert(cn.client.transport.Protocol() == ProtocolTypeProtobuf, "protobuf-selected")
	vC32Send(cn, msgs, split)
	vC32End(cn, nm&1)

	w := cn.w
	vAssert(w.status == 200, "status-200")
	var wantLens []int
	for _, m := range msgs {
		wantLens = append(wantLens, len(m))
	}
	recs, bad := vC32SplitVarint(w.body, wantLens)
	vCover(len(msgs) > 1 && split == 0, "several-messages-one-batch")
	vCover(len(msgs) > 1 && split != 0, "several-batches")
	vCover(len(msgs[0]) >= 128, "two-byte-length-prefix")
	vCover(len(msgs[0]) == 0, "empty-message")
	vAssert(!bad, "well-formed-length-prefixed-stream")
	vAssert(len(recs) == len(msgs), "one-record-per-message")
	for i := range msgs {
		if i < len(recs) {
			vAssert(len(recs[i]) == len(msgs[i]) && vBytesEq(recs[i], msgs[i]), "record-equals-message")
		}
	}
}

// vh_C32_http_stream_protobuf_two_conns: two Protobuf HTTP-stream connections
// of one node are written to by two threads at the same time; each response
// writer parks once inside Write before it consumes the bytes (a stalled
// peer), and the engine's sync.Pool hands a returned object to the next Get
// (pool_reuse=1), so anything a handler still uses after giving it back to a
// process-wide pool is seen by the other connection. Each connection must
// still receive exactly its own records.
func vh_C32_http_stream_protobuf_two_conns() {
	n := vNewNode(Config{})
	h := NewHTTPStreamHandler(n, HTTPStreamConfig{})
	var cns [2]*vC32Conn
	var msgs [2][][]byte
	for c := 0; c < 2; c++ {
		cns[c] = vC32Serve(h, "application/octet-stream")
		cns[c].w.slow = true
		nm := 1 + vChoice("nmsgs", 2)
		for i := 0; i < nm; i++ {
			l := 1 + vChoice("len", 3)
			m := make([]byte, l)
			for k := range m {
				m[k] = vByte("b")
			}
			msgs[c] = append(msgs[c], m)
		}
	}
	vAssert(cns[0].client != cns[1].client, "two-clients")
	var sent [2]bool
	for c := 0; c < 2; c++ {
		c := c
		go func() {
			if err := cns[c].client.transport.WriteMany(msgs[c]...); err != nil {
				vFail("WriteMany failed")
			}
			sent[c] = true
		}()
	}
	vSettle()
	vAssert(sent[0] && sent[1], "both-writes-acknowledged")
	for c := 0; c < 2; c++ {
		vC32End(cns[c], c)
		w := cns[c].w
		var wantLens []int
		for _, m := range msgs[c] {
			wantLens = append(wantLens, len(m))
		}
		recs, bad := vC32SplitVarint(w.body, wantLens)
		vAssert(!bad, "well-formed-length-prefixed-stream")
		vAssert(len(recs) == len(msgs[c]), "one-record-per-message")
		for i := range msgs[c] {
			if i < len(recs) {
				vAssert(len(recs[i]) == len(msgs[c][i]) && vBytesEq(recs[i], msgs[c][i]), "record-equals-message")
			}
		}
	}
	vCover(len(msgs[0]) == len(msgs[1]) && len(msgs[0][0]) == len(msgs[1][0]), "same-shape-frames")
}

// C32 (sizes): framing must not depend on the message size. One JSON message
// of a chosen total length L around the usual buffer boundaries (concrete
// filler inside a string, symbolic first and last payload character), followed
// by a small second message, over SSE or the JSON HTTP stream: two events /
// records with exactly these contents.
var vC32Sizes = []int{8, 63, 64, 65, 127, 128, 129, 255, 256, 257, 511, 512, 513, 1023, 1024, 1025, 2047, 2048, 2049, 4095, 4096, 4097}

func vC32SizedMessage(L int) []byte {
	// {"d":"<filler>"} : 8 bytes of envelope
	m := make([]byte, 0, L)
	m = append(m, '{', '"', 'd', '"', ':', '"')
	for len(m) < L-2 {
		m = append(m, 'a')
	}
	m = append(m, '"', '}')
	if L > 8 {
		first, last := vByte("first_char"), vByte("last_char")
		for _, c := range []byte{first, last} {
			vAssume(vAnd(c >= 0x20, vAnd(c != '"', vAnd(c != '\\', c < 0x7f))))
		}
		m[6], m[L-3] = first, last
	}
	return m
}

func vh_C32_sizes() {
	n := vNewNode(Config{})
	nl := vParam("c32_sizes", len(vC32Sizes))
	if nl > len(vC32Sizes) {
		nl = len(vC32Sizes)
	}
	L := vC32Sizes[vChoice("size", nl)]
	big := vC32SizedMessage(L)
	small := []byte(`{"d":1}`)
	msgs := [][]byte{big, small}
	sse := vChoice("transport", 2) == 0
	split := vChoice("split", 2)
	var cn *vC32Conn
	if sse {
		cn = vC32Serve(NewSSEHandler(n, SSEConfig{}), "")
	} else {
		cn = vC32Serve(NewHTTPStreamHandler(n, HTTPStreamConfig{}), "")
	}
	vC32Send(cn, msgs, split)
	vC32End(cn, 0)
	vAssert(cn.w.status == 200, "status-200")
	var got [][]byte
	if sse {
		evs, pending := vC32ParseSSE(cn.w.body)
		vAssert(!pending, "no-incomplete-event")
		for _, e := range evs {
			vAssert(!e.hasType, "default-event-type")
			got = append(got, e.data)
		}
	} else {
		recs, pending := vC32SplitLines(cn.w.body)
		vAssert(!pending, "no-incomplete-record")
		got = recs
	}
	vAssert(len(got) == len(msgs), "one-event-or-record-per-message")
	for i := range msgs {
		if i < len(got) {
			vAssert(len(got[i]) == len(msgs[i]) && vBytesEq(got[i], msgs[i]), "content-equals-message")
		}
	}
	vCover(L >= 4096, "message-of-4k")
}
