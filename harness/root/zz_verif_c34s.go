package centrifuge

import (
	"context"

	"github.com/centrifugal/centrifuge/internal/redispartition"
	"github.com/redis/rueidis"
)

// C34 (2): sharded PUB/SUB (Redis Cluster with NumShardedPubSubPartitions > 0),
// RedisBroker and RedisMapBroker, with plain integer tags and with the
// precomputed partition tags. consistentIndex (FNV-1a + jump hash in floating
// point) is replaced by an arbitrary in-range partition index: the stub checks
// that every key builder asks for the index of the same channel name with the
// configured partition count, and answers with the same index.
func vh_C34_sharded() {
	maxN := vParam("c34_len", 4)
	pre := vChoice("precomputed_tags", 2) == 1
	parts := 11
	var tags []string
	if pre {
		parts = 16
		t, err := redispartition.FindTags(parts)
		vAssert(err == nil && len(t) == parts, "tags available")
		tags = t
	}
	idx := vChoice("partition", parts)
	n := vChoice("len", maxN+1)
	ch := vString("ch", n)
	idem := vString("idem", vChoice("idem_len", vParam("c34_idem", 1)+1))
	vStub("github.com/centrifugal/centrifuge.consistentIndex", func(s string, buckets int) int {
		vAssert(vStrEq(s, ch), "partition index is computed from the channel name")
		vAssert(buckets == parts, "partition index is computed for the configured partition count")
		return idx
	})
	s := &RedisShard{isCluster: true}

	b := c34Broker(parts, tags, false, c34Prefix)
	chID := b.messageChannelID(s, ch)
	vAssert(vStrEq(b.extractChannel(true, chID), ch), "broker: extractChannel(messageChannelID(ch)) == ch")
	stream, list, idemp, hist := c34BrokerScripts(b, s, ch, idem)
	c34AllSameSlot(stream, "broker history-add-stream script: keys and channel in one slot")
	c34AllSameSlot(list, "broker history-add-list script: keys and channel in one slot")
	c34AllSameSlot(idemp, "broker idempotent-publish script: key and channel in one slot")
	c34AllSameSlot(hist, "broker history script: keys in one slot")
	// the slot is the slot of the partition tag (what C35 balances)
	vAssert(vStrEq(c34HashInput(string(chID)), b.pubSubPartitionHashTag(idx)), "broker: channel hashes by its partition tag")
	// the per-partition subscription channel lives in the same slot
	vAssert(c34SameSlot(string(b.pubSubShardChannelID(idx, 0, true)), string(chID)), "broker: shard channel in the partition's slot")

	e := &RedisMapBroker{
		conf:          RedisMapBrokerConfig{Prefix: c34Prefix, NumShardedPubSubPartitions: parts},
		partitionTags: tags,
		shardChannel:  c34Prefix + redisPubSubShardChannelSuffix,
		messagePrefix: c34Prefix + redisClientChannelPrefix,
	}
	mID := e.messageChannelID(s, ch)
	vAssert(vStrEq(e.extractChannel(mID), ch), "map broker: extractChannel(messageChannelID(ch)) == ch")
	// map_broker_add.lua: KEYS stream, meta, result, state hash, order, expire, state meta, cleanup registration + channel
	add := []string{e.streamKey(s, ch), e.metaKey(s, ch), e.resultCacheKey(s, ch, idem), e.stateHashKey(s, ch),
		e.stateOrderKey(s, ch), e.stateExpireKey(s, ch), e.stateMetaKey(s, ch), e.cleanupRegistrationKeyForChannel(s, ch), mID}
	c34AllSameSlot(add, "map broker add script: keys and channel in one slot")
	vAssert(c34SameSlot(e.pubSubShardChannelID(idx, 0, true), mID), "map broker: shard channel in the partition's slot")
	vCover(pre, "precomputed-tags")
	vCover(!pre && idx >= 10, "two-digit-partition-index")
	vCover(n >= 1 && ch[0] == '}', "channel-starting-with-close-brace")
	vCover(n >= 1 && ch[0] == '.', "channel-starting-with-dot")
}

// C34 (real call sites): the real RedisMapBroker.Publish / Remove run up to
// the script call; (*rueidis.Lua).Exec is replaced by a recorder, so the KEYS
// and the PUB/SUB channel argument are the ones the call site really passes
// (including its substitution of unused keys by a slot-aligned placeholder),
// not a transcription. Redis Cluster with sharded PUB/SUB partitions, every
// channel mode, with and without idempotency key: every key is non-empty and
// in the slot of the PUB/SUB channel.
type c34Captured struct {
	keys, args []string
}

func vh_C34_map_call_sites() {
	parts := 2
	tags := []string{"t0", "t1"}
	idx := vChoice("partition", parts)
	vStub("github.com/centrifugal/centrifuge.consistentIndex", func(s string, n int) int { return idx })
	mode := []MapMode{MapModeEphemeral, MapModeRecoverable, MapModePersistent}[vChoice("mode", 3)]
	n := vNewNode(Config{Map: MapConfig{GetMapChannelOptions: func(string) MapChannelOptions {
		opts := MapChannelOptions{Mode: mode}
		if mode != MapModePersistent {
			opts.KeyTTL = 60_000_000_000
		}
		return opts
	}}})
	s := &RedisShard{isCluster: true}
	e := &RedisMapBroker{
		node:          n,
		conf:          RedisMapBrokerConfig{Prefix: c34Prefix, NumShardedPubSubPartitions: parts},
		partitionTags: tags,
		shardChannel:  c34Prefix + redisPubSubShardChannelSuffix,
		messagePrefix: c34Prefix + redisClientChannelPrefix,
		shards:        []*brokerShardWrapper{{shard: s}},
		addScript:     &rueidis.Lua{},
	}
	var got *c34Captured
	vStub("(*github.com/redis/rueidis.Lua).Exec", func(l *rueidis.Lua, ctx context.Context, c rueidis.Client, keys, args []string) rueidis.RedisResult {
		got = &c34Captured{keys: keys, args: args}
		panic("c34: script call recorded")
	})
	ch := vString("ch", 1+vChoice("len", 2))
	idem := ""
	if vChoice("idempotency_key", 2) == 1 {
		idem = "i"
	}
	op := vChoice("op", 2)
	func() {
		defer func() { _ = recover() }()
		if op == 0 {
			_, perr := e.Publish(context.Background(), ch, "k", MapPublishOptions{Data: []byte{1}, IdempotencyKey: idem})
			if perr != nil {
				vTrace("publish error: " + perr.Error())
			}
		} else {
			_, _ = e.Remove(context.Background(), ch, "k", MapRemoveOptions{IdempotencyKey: idem})
		}
	}()
	if got == nil {
		vFail("the script was not called")
		return
	}
	vAssert(len(got.keys) == 8 && len(got.args) > 4, "script called with 8 keys")
	chID := got.args[4]
	vAssert(vStrEq(chID, e.messageChannelID(s, ch)), "channel argument is the PUB/SUB channel")
	for _, k := range got.keys {
		vAssert(len(k) > 0, "no empty key in cluster mode (an empty key hashes to slot 0)")
		vAssert(c34SameSlot(k, chID), "every script key in the slot of the PUB/SUB channel")
	}
	vCover(op == 1 && mode == MapModeEphemeral, "remove-on-ephemeral-channel")
	vCover(op == 0 && mode == MapModePersistent, "publish-on-persistent-channel")
}
