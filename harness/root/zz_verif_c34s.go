package centrifuge

import "github.com/centrifugal/centrifuge/internal/redispartition"

// C34 (2): sharded PUB/SUB (Redis Cluster with NumShardedPubSubPartitions > 0),
// RedisBroker and RedisMapBroker, with plain integer tags and with the
// precomputed partition tags. consistentIndex (FNV-1a + jump hash in floating
// point) is replaced by an arbitrary in-range partition index: the stub checks
// that every key builder asks for the index of the same channel name with the
// configured partition count, and answers with the same index.
func vh_C34_sharded() {
	maxN := vParam("c34_len", 4)
	pre := vChoice("precomputed_tags", 2) == 1
	parts := 11
	var tags []string
	if pre {
		parts = 16
		t, err := redispartition.FindTags(parts)
		vAssert(err == nil && len(t) == parts, "tags available")
		tags = t
	}
	idx := vChoice("partition", parts)
	n := vChoice("len", maxN+1)
	ch := vString("ch", n)
	idem := vString("idem", vChoice("idem_len", vParam("c34_idem", 1)+1))
	vStub("github.com/centrifugal/centrifuge.consistentIndex", func(s string, buckets int) int {
		vAssert(vStrEq(s, ch), "partition index is computed from the channel name")
		vAssert(buckets == parts, "partition index is computed for the configured partition count")
		return idx
	})
	s := &RedisShard{isCluster: true}

	b := c34Broker(parts, tags, false, c34Prefix)
	chID := b.messageChannelID(s, ch)
	vAssert(vStrEq(b.extractChannel(true, chID), ch), "broker: extractChannel(messageChannelID(ch)) == ch")
	stream, list, idemp, hist := c34BrokerScripts(b, s, ch, idem)
	c34AllSameSlot(stream, "broker history-add-stream script: keys and channel in one slot")
	c34AllSameSlot(list, "broker history-add-list script: keys and channel in one slot")
	c34AllSameSlot(idemp, "broker idempotent-publish script: key and channel in one slot")
	c34AllSameSlot(hist, "broker history script: keys in one slot")
	// the slot is the slot of the partition tag (what C35 balances)
	vAssert(vStrEq(c34HashInput(string(chID)), b.pubSubPartitionHashTag(idx)), "broker: channel hashes by its partition tag")
	// the per-partition subscription channel lives in the same slot
	vAssert(c34SameSlot(string(b.pubSubShardChannelID(idx, 0, true)), string(chID)), "broker: shard channel in the partition's slot")

	e := &RedisMapBroker{
		conf:          RedisMapBrokerConfig{Prefix: c34Prefix, NumShardedPubSubPartitions: parts},
		partitionTags: tags,
		shardChannel:  c34Prefix + redisPubSubShardChannelSuffix,
		messagePrefix: c34Prefix + redisClientChannelPrefix,
	}
	mID := e.messageChannelID(s, ch)
	vAssert(vStrEq(e.extractChannel(mID), ch), "map broker: extractChannel(messageChannelID(ch)) == ch")
	// map_broker_add.lua: KEYS stream, meta, result, state hash, order, expire, state meta, cleanup registration + channel
	add := []string{e.streamKey(s, ch), e.metaKey(s, ch), e.resultCacheKey(s, ch, idem), e.stateHashKey(s, ch),
		e.stateOrderKey(s, ch), e.stateExpireKey(s, ch), e.stateMetaKey(s, ch), e.cleanupRegistrationKeyForChannel(s, ch), mID}
	c34AllSameSlot(add, "map broker add script: keys and channel in one slot")
	vAssert(c34SameSlot(e.pubSubShardChannelID(idx, 0, true), mID), "map broker: shard channel in the partition's slot")
	vCover(pre, "precomputed-tags")
	vCover(!pre && idx >= 10, "two-digit-partition-index")
	vCover(n >= 1 && ch[0] == '}', "channel-starting-with-close-brace")
	vCover(n >= 1 && ch[0] == '.', "channel-starting-with-dot")
}
