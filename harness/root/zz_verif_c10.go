package centrifuge

import (
	"runtime"
	"context"
	"time"

	"github.com/centrifugal/protocol"
)

// ---------------------------------------------------------------------------
// C10: channel pushes (publication / join / leave) are bracketed by the
// subscription's start (subscribe reply or subscribe push) and end
// (unsubscribe reply or unsubscribe push).
//
// Shapes are enumerated (vChoice); the interleaving of the racing broadcast
// with the real subscribe / unsubscribe code is enumerated by the scheduler
// (every placement of c10_preempt context switches at synchronisation points).
// ---------------------------------------------------------------------------

const vC10Ch = "ch"

const (
	vSubClientPlain = iota
	vSubClientPositioned
	vSubServerPlain
	vSubServerPositioned
)

const (
	vEvPubNoOffset = iota // publication without history: Offset == 0
	vEvPubOffset          // publication saved to history: Offset > 0
	vEvJoin
	vEvLeave
)

var vSubNames = []string{"client-plain", "client-positioned", "server-plain", "server-positioned"}
var vEvNames = []string{"pub-offset0", "pub-offset", "join", "leave"}

type vC10Env struct {
	n        *Node
	c        *Client
	tr       *vTransport
	sub      int
	batching int
}

// vC10Setup: node + connected client. batching: 0 none, 1 per-channel batching
// by delay only, 2 by size 2 + delay. rwq: ReplyWithoutQueue.
func vC10Setup(sub int, batching int, rwq bool) *vC10Env {
	cfg := Config{}
	if batching == 2 {
		cfg.GetChannelBatchConfig = func(string) ChannelBatchConfig {
			return ChannelBatchConfig{MaxSize: 2, MaxDelay: 10 * time.Millisecond}
		}
	} else if batching == 1 {
		cfg.GetChannelBatchConfig = func(string) ChannelBatchConfig {
			return ChannelBatchConfig{MaxDelay: 10 * time.Millisecond}
		}
	}
	n := vNewNode(cfg)
	positioned := sub == vSubClientPositioned || sub == vSubServerPositioned
	n.OnConnecting(func(ctx context.Context, e ConnectEvent) (ConnectReply, error) {
		return ConnectReply{ReplyWithoutQueue: rwq}, nil
	})
	n.OnConnect(func(c *Client) {
		c.OnSubscribe(func(e SubscribeEvent, cb SubscribeCallback) {
			cb(SubscribeReply{Options: SubscribeOptions{EnableRecovery: positioned, PushJoinLeave: true}}, nil)
		})
	})
	tr := vNewTransport()
	c := vNewClient(n, "u1", tr)
	vAssert(vConnect(c), "connect")
	vSettle()
	return &vC10Env{n: n, c: c, tr: tr, sub: sub, batching: batching}
}

func (e *vC10Env) subscribe() {
	positioned := e.sub == vSubClientPositioned || e.sub == vSubServerPositioned
	switch e.sub {
	case vSubClientPlain, vSubClientPositioned:
		ok := e.c.HandleCommand(&protocol.Command{Id: 2, Subscribe: &protocol.SubscribeRequest{Channel: vC10Ch}}, 0)
		vAssert(ok, "subscribe-command-accepted")
	default:
		err := e.c.Subscribe(vC10Ch, WithRecovery(positioned), WithPushJoinLeave(true))
		vAssert(err == nil, "server-side-subscribe-ok")
	}
}

func (e *vC10Env) unsubscribe() {
	switch e.sub {
	case vSubClientPlain, vSubClientPositioned:
		ok := e.c.HandleCommand(&protocol.Command{Id: 3, Unsubscribe: &protocol.UnsubscribeRequest{Channel: vC10Ch}}, 0)
		vAssert(ok, "unsubscribe-command-accepted")
	default:
		e.c.Unsubscribe(vC10Ch)
	}
}

func (e *vC10Env) event(ev int) {
	other := &ClientInfo{ClientID: "other", UserID: "u2"}
	switch ev {
	case vEvPubNoOffset:
		_, err := e.n.Publish(vC10Ch, []byte("1"))
		vAssert(err == nil, "publish-ok")
	case vEvPubOffset:
		_, err := e.n.Publish(vC10Ch, []byte("1"), WithHistory(4, vHistTTL))
		vAssert(err == nil, "publish-ok")
	case vEvJoin:
		vAssert(e.n.publishJoin(vC10Ch, other) == nil, "join-ok")
	case vEvLeave:
		vAssert(e.n.publishLeave(vC10Ch, other) == nil, "leave-ok")
	}
}

// flush lets the connection writer and the per-channel batch timers finish.
func (e *vC10Env) flush() {
	vSettle()
	if e.batching != 0 {
		vAdvance(int64(20 * time.Millisecond))
		vSettle()
	}
}

type vC10Trace struct {
	startAt, endAt int   // frame index of subscribe reply/push and unsubscribe reply/push (-1: none)
	pushAt         []int // frame indexes of publication/join/leave pushes for the channel
	nStart, nEnd   int
}

func vC10Collect(tr *vTransport) *vC10Trace {
	t := &vC10Trace{startAt: -1, endAt: -1}
	for k, r := range vReplies(tr) {
		if r == nil {
			continue
		}
		switch {
		case r.Id == 2 && r.Subscribe != nil:
			t.startAt, t.nStart = k, t.nStart+1
		case r.Id == 3 && r.Unsubscribe != nil:
			t.endAt, t.nEnd = k, t.nEnd+1
		case r.Push != nil && r.Push.Channel == vC10Ch:
			p := r.Push
			switch {
			case p.Subscribe != nil:
				t.startAt, t.nStart = k, t.nStart+1
			case p.Unsubscribe != nil:
				t.endAt, t.nEnd = k, t.nEnd+1
			case p.Pub != nil || p.Join != nil || p.Leave != nil:
				t.pushAt = append(t.pushAt, k)
			}
		}
	}
	return t
}

// vh_C10_subscribe_race: one broadcast (publication without / with offset,
// join, leave) races the subscribe. Nothing for the channel may reach the
// transport before the subscribe reply / push.
func vh_C10_subscribe_race() {
	nSub := vParam("c10_subs", 4)
	nEv := vParam("c10_events", 4)
	sub := vChoice("sub", nSub)
	ev := vChoice("event", nEv)
	batching := vChoice("batching", vParam("c10_batching", 1))
	rwq := vChoice("replyWithoutQueue", vParam("c10_rwq", 1)) == 1
	e := vC10Setup(sub, batching, rwq)
	vTrace("sub=" + vSubNames[sub] + " event=" + vEvNames[ev])
	done := false
	go func() {
		e.event(ev)
		done = true
	}()
	vPreempt(vParam("c10_preempt", 1))
	e.subscribe()
	vPreempt(0)
	e.flush()
	vAssert(done, "racing-broadcast-finished")
	e.event(vEvPubNoOffset) // a later publication, to witness the subscription is live
	e.flush()

	t := vC10Collect(e.tr)
	vAssert(t.nStart == 1, "exactly-one-subscribe-reply-or-push")
	// Known findings (by enumerated shape; the schedule is the engine's choice):
	//  - a publication WITHOUT offset is written by Client.writePublication without
	//    looking at the subscription state, and the hub entry exists before the
	//    subscribe reply / push is queued;
	//  - a server-side Subscribe commits the subscription (flagSubscribed) before
	//    it queues the subscribe push, so a join/leave or an offset publication on a
	//    non-positioned subscription can be queued in between.
	serverSide := sub == vSubServerPlain || sub == vSubServerPositioned
	vKnown("C10-offset0-publication-before-subscribe", ev == vEvPubNoOffset)
	vKnown("C10-server-side-push-before-subscribe-push", serverSide && (ev == vEvJoin || ev == vEvLeave || (ev == vEvPubOffset && sub == vSubServerPlain)))
	for _, at := range t.pushAt {
		vAssert(at > t.startAt, "no-channel-push-before-subscribe-reply")
	}
	vAssert(len(t.pushAt) >= 1, "subscription-is-live-afterwards")
	vCover(len(t.pushAt) == 2, "racing-push-delivered-after-reply")
	vCover(len(t.pushAt) == 1, "racing-push-not-delivered")
}

// vh_C10_unsubscribe_race: one broadcast races the unsubscribe of an
// established subscription. Nothing for the channel may reach the transport
// after the unsubscribe reply / push.
func vh_C10_unsubscribe_race() {
	nSub := vParam("c10_subs", 4)
	nEv := vParam("c10_events", 4)
	sub := vChoice("sub", nSub)
	ev := vChoice("event", nEv)
	batching := vChoice("batching", vParam("c10_u_batching", 1))
	rwq := vChoice("replyWithoutQueue", vParam("c10_u_rwq", 1)) == 1
	e := vC10Setup(sub, batching, rwq)
	vTrace("sub=" + vSubNames[sub] + " event=" + vEvNames[ev])
	e.subscribe()
	e.flush()
	done := false
	go func() {
		e.event(ev)
		done = true
	}()
	vPreempt(vParam("c10_preempt", 1))
	if vParam("c10_event_first", 1) == 1 && vChoice("broadcast_starts_first", 2) == 1 {
		// the broadcast gets a head start (a voluntary switch, not a
		// preemption): the preemption budget is then spent inside the broadcast,
		// i.e. the whole unsubscribe runs while the broadcast is in flight
		runtime.Gosched()
	}
	e.unsubscribe()
	vPreempt(0)
	e.flush()
	vAssert(done, "racing-broadcast-finished")
	e.event(vEvPubNoOffset) // a later publication must not arrive any more
	e.flush()

	t := vC10Collect(e.tr)
	vAssert(t.nStart == 1 && t.nEnd == 1, "one-subscribe-and-one-unsubscribe-reply-or-push")
	vAssert(t.endAt > t.startAt, "unsubscribe-after-subscribe")
	clientSide := sub == vSubClientPlain || sub == vSubClientPositioned
	vKnown("C10-push-after-unsubscribe-reply-without-queue", rwq && clientSide)
	// any channel push that passed its subscription check before the
	// unsubscribe can be added to the per-channel batch writer after the
	// unsubscribe's delWriter (first seen with offset-0 publications; with the
	// broadcast starting first also joins, leaves and positioned publications)
	vKnown("C10-batched-offset0-publication-after-unsubscribe", batching != 0)
	for _, at := range t.pushAt {
		vAssert(at > t.startAt, "no-channel-push-before-subscribe-reply")
		vAssert(at < t.endAt, "no-channel-push-after-unsubscribe-reply")
	}
	vCover(len(t.pushAt) == 1, "racing-push-delivered-before-unsubscribe")
	vCover(len(t.pushAt) == 0, "racing-push-not-delivered")
}
