package centrifuge

// C06 part C: client-level presence. Real Node + real MemoryPresenceManager +
// real Clients; the presence tick (Client.updatePresence), subscribe,
// unsubscribe and close run as interpreted threads under the preemptive
// scheduler. Observation through Node.Presence / Node.PresenceStats.
//
// Oracle (exactly the property): after everything settled,
//   the connection holds a subscription to ch (committed, flagSubscribed,
//   client not closed)  <=>  Presence(ch) contains the client id, and then the
//   entry carries the client's id, user, connection info and channel info;
//   PresenceStats(ch) == distinct clients / users of Presence(ch).

import (
	"context"

	"github.com/centrifugal/protocol"
)

type c06World struct {
	n        *Node
	chanInfo []byte
	asyncCb  bool // OnSubscribe answers from its own goroutine
	c        *Client
	cUser    string
	cInfo    []byte
	by       *Client // bystander, subscribed to ch0 for the whole run
	byUser   string
	byInfo   []byte
	done     chan int
	nthreads int
}

var c06Ch = [2]string{"pa", "pb"}

func c06NewClient(n *Node, user string, info []byte) *Client {
	ctx := SetCredentials(context.Background(), &Credentials{UserID: user, Info: info})
	c, _, err := NewClient(ctx, n, vNewTransport())
	if err != nil {
		panic("c06NewClient: " + err.Error())
	}
	if !vConnect(c) {
		panic("c06NewClient: connect refused")
	}
	return c
}

func c06Subscribe(c *Client, id uint32, ch string) bool {
	return c.HandleCommand(&protocol.Command{Id: id, Subscribe: &protocol.SubscribeRequest{Channel: ch}}, 0)
}

func c06Setup() *c06World {
	w := &c06World{done: make(chan int, 8)}
	w.n = vNewNode(Config{})
	if k := vParam("c06_tick_conc", 1); k > 1 {
		w.n.config.clientPresenceUpdateConcurrency = k
	}
	w.chanInfo = vBytes("chaninfo", 2)
	join := vParam("c06_joinleave", 0) == 1
	w.n.OnConnect(func(c *Client) {
		c.OnSubscribe(func(e SubscribeEvent, cb SubscribeCallback) {
			reply := SubscribeReply{Options: SubscribeOptions{EmitPresence: true, ChannelInfo: w.chanInfo, EmitJoinLeave: join}}
			if w.asyncCb {
				go cb(reply, nil)
			} else {
				cb(reply, nil)
			}
		})
	})
	// the bystander shares the user id with the client or not (symbolic).
	w.byUser = "u0"
	w.cUser = "u1"
	if vParam("c06_sym_user", 0) == 1 { // same user as the bystander or not
		w.cUser = "u" + string([]byte{'0' + (vU8("c_user") & 1)})
	}
	w.byInfo = []byte("B")
	w.cInfo = vBytes("conninfo", 2)
	w.by = c06NewClient(w.n, w.byUser, w.byInfo)
	vAssert(c06Subscribe(w.by, 2, c06Ch[0]), "bystander subscribe proceeds")
	w.c = c06NewClient(w.n, w.cUser, w.cInfo)
	vSettle()
	return w
}

func (w *c06World) spawn(f func()) {
	w.nthreads++
	go func() {
		f()
		w.done <- 1
	}()
}

// join blocks the harness thread (so that it is not a preemption target)
// until every spawned thread returned, then drains goroutines the operations
// started themselves.
func (w *c06World) join() {
	for w.nthreads > 0 {
		<-w.done
		w.nthreads--
	}
	vPreempt(0)
	vSettle()
}

func (w *c06World) holds(c *Client, ch string) bool {
	c.mu.RLock()
	defer c.mu.RUnlock()
	ctx, ok := c.channels[ch]
	return c.status != statusClosed && ok && channelHasFlag(ctx.flags, flagSubscribed)
}

// check is the oracle for one channel over the two clients.
func (w *c06World) check(ch string) {
	res, err := w.n.Presence(ch)
	vAssert(err == nil, "presence-no-error")
	type who struct {
		c    *Client
		user string
		info []byte
	}
	clients := 0
	var present [2]bool
	for k, e := range []who{{w.c, w.cUser, w.cInfo}, {w.by, w.byUser, w.byInfo}} {
		holds := w.holds(e.c, ch)
		info, ok := res.Presence[e.c.uid]
		present[k] = ok
		if holds {
			vAssert(ok, "holds-subscription=>present")
			if ok {
				vAssert(info != nil && info.ClientID == e.c.uid, "present-with-client-id")
				vAssert(vStrEq(info.UserID, e.user), "present-with-user-id")
				vAssert(vBytesEq(info.ConnInfo, e.info), "present-with-conn-info")
				vAssert(vBytesEq(info.ChanInfo, w.chanInfo), "present-with-chan-info")
			}
			clients++
		} else {
			vAssert(!ok, "subscription-ended=>absent")
		}
	}
	vAssert(len(res.Presence) == clients, "presence-has-no-other-entries")
	st, err := w.n.PresenceStats(ch)
	vAssert(err == nil, "stats-no-error")
	vAssert(st.NumClients == clients, "stats-clients==distinct-clients")
	users := vIteInt(present[0] || present[1], 1, 0)
	if present[0] && present[1] {
		users = vIteInt(vStrEq(w.cUser, w.byUser), 1, 2)
	}
	vAssert(st.NumUsers == users, "stats-users==distinct-users")
}

func (w *c06World) checkAll() {
	for _, ch := range c06Ch {
		w.check(ch)
	}
}

// end operations on channel pa of client c.
const (
	c06EndNone = iota
	c06EndUnsubCmd
	c06EndUnsubServer
	c06EndClose
	c06EndDisconnect
	c06NEnd
)

func (w *c06World) end(op int) {
	switch op {
	case c06EndUnsubCmd:
		w.c.HandleCommand(&protocol.Command{Id: 9, Unsubscribe: &protocol.UnsubscribeRequest{Channel: c06Ch[0]}}, 0)
	case c06EndUnsubServer:
		w.c.Unsubscribe(c06Ch[0])
	case c06EndClose:
		_ = w.c.close(DisconnectConnectionClosed)
	case c06EndDisconnect:
		w.c.Disconnect()
	}
}

// vh_C06_client_tick: settled subscription(s) with presence; then the presence
// tick runs concurrently with unsubscribe / close / nothing.
func vh_C06_client_tick() {
	w := c06Setup()
	nch := 2 // the concurrent tick path needs two channels with the duty
	if vParam("c06_one_channel", 0) == 1 {
		nch = 1
	}
	for k := 0; k < nch; k++ {
		vAssert(c06Subscribe(w.c, uint32(2+k), c06Ch[k]), "subscribe proceeds")
	}
	vSettle()
	// settled subscription => present with right info, stats right
	vAssert(w.holds(w.c, c06Ch[0]), "setup: subscription settled")
	w.checkAll()

	op := vChoice("end", c06NEnd-1+vParam("c06_disconnect", 0))
	ticks := vParam("c06_ticks", 1)
	tickFirst := vChoice("tick_first", 2) == 1
	vPreempt(vParam("c06_preempt", 1))
	if tickFirst {
		for k := 0; k < ticks; k++ {
			w.spawn(w.c.updatePresence)
		}
	}
	if op != c06EndNone {
		w.spawn(func() { w.end(op) })
	}
	if !tickFirst {
		for k := 0; k < ticks; k++ {
			w.spawn(w.c.updatePresence)
		}
	}
	w.join()

	if op == c06EndNone {
		vAssert(w.holds(w.c, c06Ch[0]), "tick alone keeps the subscription")
	} else {
		vAssert(!w.holds(w.c, c06Ch[0]), "end operation ended the subscription")
	}
	vCover(op == c06EndUnsubCmd, "unsubscribed")
	vCover(op == c06EndClose, "closed")
	vCover(nch == 2 && op == c06EndUnsubServer && w.holds(w.c, c06Ch[1]), "other-channel-kept")
	w.checkAll()
}

// vh_C06_client_sub: the subscribe itself races with unsubscribe / close (and
// optionally a tick): rollback paths must not leave a presence entry, and a
// subscription that survived must be present.
func vh_C06_client_sub() {
	w := c06Setup()
	w.asyncCb = vChoice("async_cb", 2) == 1
	op := 1 + vChoice("end", c06NEnd-2+vParam("c06_disconnect", 0))
	withTick := vParam("c06_sub_tick", 0) == 1 && vChoice("with_tick", 2) == 1
	vPreempt(vParam("c06_preempt", 1))
	// the connection's reader: subscribe command, then (unless the end
	// operation comes from elsewhere) the end operation.
	sameThread := (op == c06EndUnsubCmd) || vChoice("same_thread", 2) == 1
	w.spawn(func() {
		c06Subscribe(w.c, 2, c06Ch[0])
		if sameThread {
			w.end(op)
		}
	})
	if !sameThread {
		w.spawn(func() { w.end(op) })
	}
	if withTick {
		w.spawn(w.c.updatePresence)
	}
	w.join()
	held := w.holds(w.c, c06Ch[0])
	vCover(held, "subscription-survived")
	vCover(!held && w.c.status == statusClosed, "closed-during-subscribe")
	vCover(!held && w.c.status != statusClosed, "unsubscribed")
	w.checkAll()
}

// vh_C06_client_resub: a settled subscription; the connection's reader
// unsubscribes and (after the idle gap between two commands) subscribes again
// while a presence tick or a server-side Unsubscribe of the same channel is in
// flight. At the end the connection holds a subscription again, so it must be
// present.
func vh_C06_client_resub() {
	w := c06Setup()
	vAssert(c06Subscribe(w.c, 2, c06Ch[0]), "subscribe proceeds")
	vSettle()
	vAssert(w.holds(w.c, c06Ch[0]), "setup: subscription settled")
	other := vChoice("other", 2) // 0 presence tick, 1 server-side Unsubscribe
	gap := vChoice("gap", 2) == 1
	vPreempt(vParam("c06_preempt_resub", 1))
	switch other {
	case 0:
		w.spawn(w.c.updatePresence)
	case 1:
		w.spawn(func() { w.c.Unsubscribe(c06Ch[0]) })
	}
	w.spawn(func() {
		w.end(c06EndUnsubCmd)
		if gap {
			vYield() // the reader is idle between two commands
		}
		c06Subscribe(w.c, 10, c06Ch[0])
	})
	w.join()
	held := w.holds(w.c, c06Ch[0])
	vCover(held, "resubscribed")
	res, _ := w.n.Presence(c06Ch[0])
	_, present := res.Presence[w.c.uid]
	// Known window (acknowledged in the comments of removeRacedPresence and
	// compensateRacedPresence): a removal issued for the OLD subscription (by the
	// tick's compensation or by the losing/late unsubscribe) lands after the new
	// subscribe added its entry.
	vKnown("C06-resubscribe-races-stale-presence-removal", other == 1 && held && !present)
	w.checkAll()
}
