package centrifuge

import (
	"context"

	"github.com/centrifugal/protocol"
)

// C22 (b): a client that follows the map subscription protocol (STATE pages
// with the position frozen at the first page, STREAM pages, then LIVE) while
// the channel is modified BETWEEN its requests ends, once traffic stops,
// holding exactly the broker's state — or is told unrecoverable / insufficient.
// The real handlers (handleSubscribe -> handleMapSubscribe*, Node.MapStateRead,
// Node.MapStreamRead, MemoryMapBroker) are driven through HandleCommand; the
// client model below is what an SDK does with the replies and pushes.
func vh_C22_protocol_converges() {
	nkeys := vParam("c22b_keys", 4)
	ordered := vChoice("ordered", vParam("c22b_ordered", 1)) == 1
	// channel mode: recoverable (stream) or ephemeral (streamless: the position
	// stays at offset 0, only the epoch identifies the state)
	mapMode := MapModeRecoverable
	if vChoice("ephemeral", vParam("c22b_modes", 2)) == 1 {
		mapMode = MapModeEphemeral
	}
	n := vNewNode(Config{Map: MapConfig{GetMapChannelOptions: func(string) MapChannelOptions {
		return MapChannelOptions{Mode: mapMode, KeyTTL: 3600_000_000_000, MinPageSize: 1, ordered: ordered}
	}}})
	n.OnConnect(func(c *Client) {
		c.OnSubscribe(func(e SubscribeEvent, cb SubscribeCallback) {
			cb(SubscribeReply{Options: SubscribeOptions{Type: SubscriptionTypeMap}}, nil)
		})
	})
	ctx := context.Background()
	const ch = "m"
	b := n.mapBroker
	keyName := func(i int) string { return string([]byte{'k', byte('0' + i)}) }
	for i := 0; i < nkeys; i++ {
		_, err := b.Publish(ctx, ch, keyName(i), MapPublishOptions{Data: []byte{byte(i)}, score: int64(i % 2)})
		vAssert(err == nil, "setup publish")
	}
	tr := vNewTransport()
	c := vNewClient(n, "u", tr)
	vAssert(vConnect(c), "connect")
	vSettle()

	local := map[string]byte{}
	apply := func(pubs []*protocol.Publication, stream bool) {
		for _, p := range pubs {
			if stream && p.Removed {
				delete(local, p.Key)
				continue
			}
			if len(p.Data) == 1 {
				local[p.Key] = p.Data[0]
			}
		}
	}
	// one modification of the channel between two client requests
	serial := byte(100)
	keyChanged := false // a key was published or removed between two client requests
	modify := func() {
		op := vChoice("modify", 4+vParam("c22b_clear", 1))
		if op == 4 {
			// the whole channel is cleared (new epoch)
			_ = b.Clear(ctx, ch, MapClearOptions{})
			vSettle()
			vCover(true, "cleared-between-requests")
			return
		}
		k := keyName(vChoice("modkey", nkeys+1)) // last index = a new key
		if op != 0 {
			keyChanged = true
		}
		switch op {
		case 1:
			_, _ = b.Remove(ctx, ch, k, MapRemoveOptions{})
		case 2, 3:
			serial++
			_, _ = b.Publish(ctx, ch, k, MapPublishOptions{Data: []byte{serial}, score: int64(op)})
		}
		vSettle()
	}
	pageSize := int32(1 + vChoice("page_size", 2))
	var id uint32 = 10
	request := func(req *protocol.SubscribeRequest) (*protocol.SubscribeResult, *protocol.Error) {
		id++
		base := len(tr.frames)
		c.HandleCommand(&protocol.Command{Id: id, Subscribe: req}, 0)
		vSettle()
		for k := base; k < len(tr.frames); k++ {
			r, _ := vDecoded(tr.frames[k]).(*protocol.Reply)
			if r != nil && r.Id == id {
				return r.Subscribe, r.Error
			}
		}
		return nil, nil
	}
	res, perr := request(&protocol.SubscribeRequest{Channel: ch, Type: int32(SubscriptionTypeMap), Phase: MapPhaseState, Limit: pageSize})
	vAssert(perr == nil && res != nil, "first state page")
	apply(res.State, false)
	savedOffset, savedEpoch := res.Offset, res.Epoch
	cursor := res.Cursor
	phase := res.Phase
	live := phase == MapPhaseLive
	if live {
		apply(res.Publications, true)
	}
	mods := vParam("c22b_mods", 2)
	refused := false
	for step := 0; step < 12 && !live && !refused; step++ {
		if mods > 0 {
			mods--
			modify()
		}
		var r *protocol.SubscribeResult
		var e *protocol.Error
		if cursor != "" {
			r, e = request(&protocol.SubscribeRequest{Channel: ch, Type: int32(SubscriptionTypeMap), Phase: MapPhaseState, Limit: pageSize, Cursor: cursor, Offset: savedOffset, Epoch: savedEpoch})
		} else {
			r, e = request(&protocol.SubscribeRequest{Channel: ch, Type: int32(SubscriptionTypeMap), Phase: MapPhaseStream, Limit: pageSize, Offset: savedOffset, Epoch: savedEpoch})
		}
		if e != nil || r == nil {
			// explicitly told the position is unrecoverable / state insufficient
			vAssert(e != nil && (e.Code == ErrorUnrecoverablePosition.Code), "refusal-is-explicit")
			refused = true
			break
		}
		switch r.Phase {
		case MapPhaseState:
			apply(r.State, false)
			cursor = r.Cursor
		case MapPhaseStream:
			apply(r.Publications, true)
			savedOffset = r.Offset
		case MapPhaseLive:
			apply(r.State, false)
			apply(r.Publications, true)
			savedOffset = r.Offset
			live = true
		}
	}
	if refused {
		vCover(true, "refused")
		return
	}
	vAssert(live, "reaches-live")
	// live pushes that arrived after the transition
	for _, f := range tr.frames {
		r, _ := vDecoded(f).(*protocol.Reply)
		if r != nil && r.Push != nil && r.Push.Channel == ch && r.Push.Pub != nil && (mapMode == MapModeEphemeral || r.Push.Pub.Offset > savedOffset) {
			// streamless channels carry no offsets: every push is applied in order
			apply([]*protocol.Publication{r.Push.Pub}, true)
			if r.Push.Pub.Offset > savedOffset {
				savedOffset = r.Push.Pub.Offset
			}
		}
	}
	st, err := b.ReadState(ctx, ch, MapReadStateOptions{Limit: -1})
	vAssert(err == nil, "final read")
	// Known finding: a streamless (ephemeral) channel has no stream to catch up
	// from and the subscription joins the hub only at the live transition, so a
	// key published or removed between two state-page requests is neither in a
	// later page (when it sorts before the cursor) nor delivered afterwards,
	// and the client is not told.
	vKnown("C22-streamless-change-between-state-pages", mapMode == MapModeEphemeral && keyChanged)
	vAssert(st.Position.Offset == savedOffset, "client-position-is-the-stream-top")
	vAssert(len(st.Publications) == len(local), "same-number-of-keys")
	for _, p := range st.Publications {
		v, ok := local[p.Key]
		vAssert(ok, "client-holds-every-broker-key")
		vAssert(ok && len(p.Data) == 1 && v == p.Data[0], "client-holds-the-current-value")
	}
	vCover(len(local) < nkeys, "key-removed-during-subscribe")
	vCover(pageSize == 1, "one-key-pages")
}

// C22 (c): recovery join with a tags filter. A client holding the state of a
// saved position comes back with Phase=LIVE, Recover=true after `backlog`
// further publications, each tagged team=eng or team=sales; its filter admits
// team=eng; the catch-up limit is 2. The server either refuses explicitly
// (unrecoverable position) or says recovered - and then the reply carries
// every admitted publication after the saved position, in order, and nothing
// else, and the reported position is the stream top.
func vh_C22_recovery_join_filtered() {
	limit := 2
	n := vNewNode(Config{Map: MapConfig{GetMapChannelOptions: func(string) MapChannelOptions {
		return MapChannelOptions{Mode: MapModeRecoverable, KeyTTL: 3600_000_000_000, MinPageSize: 1, StreamSize: 100, LiveTransitionMaxPublicationLimit: limit}
	}}})
	serverFilter := vChoice("server_side_filter", 2) == 1
	flt := &protocol.FilterNode{Cmp: "eq", Key: "team", Val: "eng"}
	vStub("github.com/centrifugal/centrifuge/internal/filter.Hash", func(f *protocol.FilterNode) [32]byte { return [32]byte{1} })
	n.OnConnect(func(c *Client) {
		c.OnSubscribe(func(e SubscribeEvent, cb SubscribeCallback) {
			opts := SubscribeOptions{Type: SubscriptionTypeMap, AllowTagsFilter: true}
			if serverFilter {
				opts.ServerTagsFilter = flt
			}
			cb(SubscribeReply{Options: opts}, nil)
		})
	})
	ctx := context.Background()
	const ch = "m"
	b := n.mapBroker
	eng := map[string]string{"team": "eng"}
	sales := map[string]string{"team": "sales"}
	res, err := b.Publish(ctx, ch, "seed", MapPublishOptions{Data: []byte{1}, Tags: eng})
	vAssert(err == nil, "setup publish")
	saved := res.Position
	backlog := 1 + vChoice("backlog", vParam("c22c_backlog", 5))
	var admitted []uint64 // offsets of the admitted publications after the saved position
	for i := 0; i < backlog; i++ {
		tags := sales
		if vChoice("admitted", 2) == 1 {
			tags = eng
		}
		r, err := b.Publish(ctx, ch, string([]byte{'k', byte('0' + i)}), MapPublishOptions{Data: []byte{byte(10 + i)}, Tags: tags})
		vAssert(err == nil && !r.Suppressed, "backlog publish")
		if tags["team"] == "eng" {
			admitted = append(admitted, r.Position.Offset)
		}
	}
	tr := vNewTransport()
	c := vNewClient(n, "u", tr)
	vAssert(vConnect(c), "connect")
	vSettle()
	base := len(tr.frames)
	req := &protocol.SubscribeRequest{Channel: ch, Type: int32(SubscriptionTypeMap), Phase: MapPhaseLive, Offset: saved.Offset, Epoch: saved.Epoch, Recover: true}
	if !serverFilter {
		req.Tf = flt
	}
	c.HandleCommand(&protocol.Command{Id: 7, Subscribe: req}, 0)
	vSettle()
	var reply *protocol.Reply
	for k := base; k < len(tr.frames); k++ {
		if r, _ := vDecoded(tr.frames[k]).(*protocol.Reply); r != nil && r.Id == 7 {
			reply = r
		}
	}
	if reply == nil {
		vFail("no reply to the recovery join")
		return
	}
	if reply.Error != nil {
		vAssert(reply.Error.Code == ErrorUnrecoverablePosition.Code, "refusal-is-explicit")
		vCover(true, "refused")
		vCover(len(admitted) <= limit, "refused-although-few-admitted")
		return
	}
	r := reply.Subscribe
	vAssert(r != nil && r.Phase == MapPhaseLive, "live")
	if !r.Recovered {
		vCover(true, "not-recovered")
		return
	}
	top := saved.Offset + uint64(backlog)
	vAssert(r.Offset == top, "recovered: position is the stream top")
	vAssert(len(r.Publications) == len(admitted), "recovered: every admitted publication after the saved position, and only those")
	for k, p := range r.Publications {
		if k < len(admitted) {
			vAssert(p.Offset == admitted[k], "recovered: admitted publications in stream order")
		}
	}
	vCover(backlog > limit+1, "backlog-beyond-limit-recovered")
	vCover(len(admitted) > 0, "recovered-with-publications")
}
