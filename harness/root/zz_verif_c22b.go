package centrifuge

import (
	"context"

	"github.com/centrifugal/protocol"
)

// C22 (b): a client that follows the map subscription protocol (STATE pages
// with the position frozen at the first page, STREAM pages, then LIVE) while
// the channel is modified BETWEEN its requests ends, once traffic stops,
// holding exactly the broker's state — or is told unrecoverable / insufficient.
// The real handlers (handleSubscribe -> handleMapSubscribe*, Node.MapStateRead,
// Node.MapStreamRead, MemoryMapBroker) are driven through HandleCommand; the
// client model below is what an SDK does with the replies and pushes.
func vh_C22_protocol_converges() {
	nkeys := vParam("c22b_keys", 4)
	ordered := vChoice("ordered", vParam("c22b_ordered", 1)) == 1
	n := vNewNode(Config{Map: MapConfig{GetMapChannelOptions: func(string) MapChannelOptions {
		return MapChannelOptions{Mode: MapModeRecoverable, KeyTTL: 3600_000_000_000, MinPageSize: 1, ordered: ordered}
	}}})
	n.OnConnect(func(c *Client) {
		c.OnSubscribe(func(e SubscribeEvent, cb SubscribeCallback) {
			cb(SubscribeReply{Options: SubscribeOptions{Type: SubscriptionTypeMap}}, nil)
		})
	})
	ctx := context.Background()
	const ch = "m"
	b := n.mapBroker
	keyName := func(i int) string { return string([]byte{'k', byte('0' + i)}) }
	for i := 0; i < nkeys; i++ {
		_, err := b.Publish(ctx, ch, keyName(i), MapPublishOptions{Data: []byte{byte(i)}, score: int64(i % 2)})
		vAssert(err == nil, "setup publish")
	}
	tr := vNewTransport()
	c := vNewClient(n, "u", tr)
	vAssert(vConnect(c), "connect")
	vSettle()

	local := map[string]byte{}
	apply := func(pubs []*protocol.Publication, stream bool) {
		for _, p := range pubs {
			if stream && p.Removed {
				delete(local, p.Key)
				continue
			}
			if len(p.Data) == 1 {
				local[p.Key] = p.Data[0]
			}
		}
	}
	// one modification of the channel between two client requests
	serial := byte(100)
	modify := func() {
		op := vChoice("modify", 4)
		k := keyName(vChoice("modkey", nkeys+1)) // last index = a new key
		switch op {
		case 1:
			_, _ = b.Remove(ctx, ch, k, MapRemoveOptions{})
		case 2, 3:
			serial++
			_, _ = b.Publish(ctx, ch, k, MapPublishOptions{Data: []byte{serial}, score: int64(op)})
		}
		vSettle()
	}
	pageSize := int32(1 + vChoice("page_size", 2))
	var id uint32 = 10
	request := func(req *protocol.SubscribeRequest) (*protocol.SubscribeResult, *protocol.Error) {
		id++
		base := len(tr.frames)
		c.HandleCommand(&protocol.Command{Id: id, Subscribe: req}, 0)
		vSettle()
		for k := base; k < len(tr.frames); k++ {
			r, _ := vDecoded(tr.frames[k]).(*protocol.Reply)
			if r != nil && r.Id == id {
				return r.Subscribe, r.Error
			}
		}
		return nil, nil
	}
	res, perr := request(&protocol.SubscribeRequest{Channel: ch, Type: int32(SubscriptionTypeMap), Phase: MapPhaseState, Limit: pageSize})
	vAssert(perr == nil && res != nil, "first state page")
	apply(res.State, false)
	savedOffset, savedEpoch := res.Offset, res.Epoch
	cursor := res.Cursor
	phase := res.Phase
	live := phase == MapPhaseLive
	if live {
		apply(res.Publications, true)
	}
	mods := vParam("c22b_mods", 2)
	refused := false
	for step := 0; step < 12 && !live && !refused; step++ {
		if mods > 0 {
			mods--
			modify()
		}
		var r *protocol.SubscribeResult
		var e *protocol.Error
		if cursor != "" {
			r, e = request(&protocol.SubscribeRequest{Channel: ch, Type: int32(SubscriptionTypeMap), Phase: MapPhaseState, Limit: pageSize, Cursor: cursor, Offset: savedOffset, Epoch: savedEpoch})
		} else {
			r, e = request(&protocol.SubscribeRequest{Channel: ch, Type: int32(SubscriptionTypeMap), Phase: MapPhaseStream, Limit: pageSize, Offset: savedOffset, Epoch: savedEpoch})
		}
		if e != nil || r == nil {
			// explicitly told the position is unrecoverable / state insufficient
			vAssert(e != nil && (e.Code == ErrorUnrecoverablePosition.Code), "refusal-is-explicit")
			refused = true
			break
		}
		switch r.Phase {
		case MapPhaseState:
			apply(r.State, false)
			cursor = r.Cursor
		case MapPhaseStream:
			apply(r.Publications, true)
			savedOffset = r.Offset
		case MapPhaseLive:
			apply(r.State, false)
			apply(r.Publications, true)
			savedOffset = r.Offset
			live = true
		}
	}
	if refused {
		vCover(true, "refused")
		return
	}
	vAssert(live, "reaches-live")
	// live pushes that arrived after the transition
	for _, f := range tr.frames {
		r, _ := vDecoded(f).(*protocol.Reply)
		if r != nil && r.Push != nil && r.Push.Channel == ch && r.Push.Pub != nil && r.Push.Pub.Offset > savedOffset {
			apply([]*protocol.Publication{r.Push.Pub}, true)
			savedOffset = r.Push.Pub.Offset
		}
	}
	st, err := b.ReadState(ctx, ch, MapReadStateOptions{Limit: -1})
	vAssert(err == nil, "final read")
	vAssert(st.Position.Offset == savedOffset, "client-position-is-the-stream-top")
	vAssert(len(st.Publications) == len(local), "same-number-of-keys")
	for _, p := range st.Publications {
		v, ok := local[p.Key]
		vAssert(ok, "client-holds-every-broker-key")
		vAssert(ok && len(p.Data) == 1 && v == p.Data[0], "client-holds-the-current-value")
	}
	vCover(len(local) < nkeys, "key-removed-during-subscribe")
	vCover(pageSize == 1, "one-key-pages")
}
