package centrifuge

// Scaffolding shared by the delivery properties C01, C10 and C16: a Broker
// wrapper with hook points inside the subscribe sequence and a fault-injecting
// BrokerEventHandler shim between the real MemoryBroker and the real Node.

const vHistTTL = 3600 * 1000000000 // history TTL: 1h as time.Duration (ns)

// vHookBroker forwards to the real broker. onSubscribe runs after the broker
// subscription of the first subscriber (inside Node.addSubscription, i.e.
// after Hub.addSub and before the subscribe reply is built); beforeHistory /
// afterHistory run around the next History call while armed (the recovery or
// stream-top read of subscribeCmd).
type vHookBroker struct {
	Broker
	armed         bool
	onSubscribe   func()
	beforeHistory func()
	afterHistory  func()
	onUnsubscribe func()
}

func (b *vHookBroker) Subscribe(chs ...string) error {
	err := b.Broker.Subscribe(chs...)
	if b.armed && b.onSubscribe != nil {
		f := b.onSubscribe
		b.onSubscribe = nil
		f()
	}
	return err
}

func (b *vHookBroker) Unsubscribe(chs ...string) error {
	if b.armed && b.onUnsubscribe != nil {
		f := b.onUnsubscribe
		b.onUnsubscribe = nil
		f()
	}
	return b.Broker.Unsubscribe(chs...)
}

func (b *vHookBroker) History(ch string, opts HistoryOptions) ([]*Publication, StreamPosition, error) {
	if b.armed && b.beforeHistory != nil {
		f := b.beforeHistory
		b.beforeHistory = nil
		f()
	}
	pubs, sp, err := b.Broker.History(ch, opts)
	if b.armed && b.afterHistory != nil {
		f := b.afterHistory
		b.afterHistory = nil
		f()
	}
	return pubs, sp, err
}

func vInstallHookBroker(n *Node) *vHookBroker {
	hb := &vHookBroker{Broker: n.broker}
	n.broker = hb
	return hb
}

// vDelivery is one PUB/SUB delivery from the broker to the node.
type vDelivery struct {
	ch    string
	pub   *Publication
	sp    StreamPosition
	delta bool
	prev  *Publication
}

// vFaultHandler sits between the MemoryBroker and the Node. While hold is set
// deliveries are captured instead of forwarded; the harness then forwards,
// drops, duplicates, delays or reorders them.
type vFaultHandler struct {
	n    *Node
	hold bool
	held []vDelivery
}

func (h *vFaultHandler) HandlePublication(ch string, pub *Publication, sp StreamPosition, delta bool, prev *Publication) error {
	if h.hold {
		h.held = append(h.held, vDelivery{ch, pub, sp, delta, prev})
		return nil
	}
	return h.n.HandlePublication(ch, pub, sp, delta, prev)
}
func (h *vFaultHandler) HandleJoin(ch string, info *ClientInfo) error  { return h.n.HandleJoin(ch, info) }
func (h *vFaultHandler) HandleLeave(ch string, info *ClientInfo) error { return h.n.HandleLeave(ch, info) }

func (h *vFaultHandler) deliver(d vDelivery) {
	_ = h.n.HandlePublication(d.ch, d.pub, d.sp, d.delta, d.prev)
}

func vInstallFaultHandler(n *Node, mb *MemoryBroker) *vFaultHandler {
	fh := &vFaultHandler{n: n}
	mb.eventHandler = fh
	return fh
}
