package centrifuge

import (
	"sync"
	"time"
)

// Shared scaffolding for the MemoryBroker harnesses (C17, C19): the real
// MemoryBroker wired to a recording BrokerEventHandler, without a full Node
// (NewMemoryBroker only reads node.config.HistoryMetaTTL). The real cleanup
// goroutines (expireStreams, removeStreams, expireResultCache) run under the
// engine's virtual clock.

type vSinkRec struct {
	ch  string
	pub *Publication
	sp  StreamPosition
}

type vBrokerSink struct {
	recs []vSinkRec
}

func (s *vBrokerSink) HandlePublication(ch string, pub *Publication, sp StreamPosition, useDelta bool, prevPub *Publication) error {
	s.recs = append(s.recs, vSinkRec{ch: ch, pub: pub, sp: sp})
	return nil
}
func (s *vBrokerSink) HandleJoin(ch string, info *ClientInfo) error  { return nil }
func (s *vBrokerSink) HandleLeave(ch string, info *ClientInfo) error { return nil }

// vNewMemBroker: with membroker_real_ctor=1 the broker comes from the real
// NewMemoryBroker (4096 publish locks, ~35k interpreted instructions per path);
// by default the same struct is built directly with only the publish locks of
// the channels the harness uses.
func vNewMemBroker(metaTTL time.Duration, chans ...string) (*MemoryBroker, *vBrokerSink) {
	n := &Node{config: Config{HistoryMetaTTL: metaTTL}}
	var b *MemoryBroker
	if vParam("membroker_real_ctor", 0) == 1 {
		var err error
		b, err = NewMemoryBroker(n, MemoryBrokerConfig{})
		if err != nil {
			panic("vNewMemBroker: " + err.Error())
		}
	} else {
		closeCh := make(chan struct{})
		b = &MemoryBroker{
			node:        n,
			historyHub:  newHistoryHub(n.config.HistoryMetaTTL, closeCh),
			pubLocks:    map[int]*sync.Mutex{},
			closeCh:     closeCh,
			resultCache: make(map[string]resultCacheEntry),
		}
		for _, ch := range chans {
			b.pubLocks[index(ch, numPubLocks)] = &sync.Mutex{}
		}
	}
	sink := &vBrokerSink{}
	if err := b.RegisterBrokerEventHandler(sink); err != nil {
		panic("vNewMemBroker: " + err.Error())
	}
	vSettle() // let the cleanup goroutines start and arm their first 1 s ticks now
	return b, sink
}

// vAdvanceSec moves the virtual clock by whole seconds; due sweeps of the real
// cleanup goroutines run at their tick times.
func vAdvanceSec(s int) {
	vAdvance(int64(s) * int64(time.Second))
	vSettle()
}
