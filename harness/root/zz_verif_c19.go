package centrifuge

import (
	"context"
	"sync"
	"time"
)

// C19: idempotent and versioned publishes suppress exactly the duplicates.
// Real MemoryBroker.Publish (+ result cache under virtual time, historyHub.add,
// memstream.Stream.Add) and real MemoryMapBroker.Publish (+ mapHub.add).
//
// Reference version rule (the one the Redis Lua script and the map broker
// implement, and the statement spells out): the channel (map broker: the key)
// remembers the last ACCEPTED versioned publish (V, VE). A publish (v, ve):
//   v == 0 : never suppressed by version, does NOT touch (V, VE);
//   v  > 0 : suppressed iff (ve == "" || ve == VE) && v <= V; else accepted and
//            (V, VE) := (v, ve).

const (
	vC19Chan       = "ch19"
	vC19HistTTLSec = 10
)

type vC19Model struct {
	epoch   string
	top     uint64
	kept    int // retained publications (history size is larger than any sequence here)
	expAt   int // history deadline per reference (set by STORED publishes only)
	lateAt  int // latest deadline any publish attempt (stored or suppressed) asked for
	now     int
	V       uint64
	VE      string
	sent    int // publications handed to the node
	resetBy bool // an unversioned publish was stored while a version was remembered
	taint   bool
}

func (m *vC19Model) tick() {
	if m.top > 0 && m.now >= m.expAt {
		m.kept = 0
	}
}

func (m *vC19Model) stale() bool { return m.top > 0 && m.now >= m.expAt && m.now < m.lateAt }

// checkHistory compares the full retained history with the reference.
func (m *vC19Model) checkHistory(b *MemoryBroker, sink *vBrokerSink, what string) {
	m.tick()
	pubs, pos, err := b.History(vC19Chan, HistoryOptions{Filter: HistoryFilter{Limit: -1}})
	vAssert(err == nil, what+": history no error")
	if m.top == 0 {
		vAssert(pos.Offset == 0 && len(pubs) == 0, what+": nothing stored yet")
		return
	}
	vAssert(pos.Offset == m.top && pos.Epoch == m.epoch, what+": top position unchanged by suppressed publishes")
	// Confirmed divergence (ignored unless listed open): a version-suppressed
	// publish re-arms the history TTL although it "changes nothing".
	vKnown("C19-suppressed-refreshes-history-ttl", m.stale() || m.taint)
	vAssert(len(pubs) == m.kept, what+": history holds exactly the stored publications")
	vAssert(len(sink.recs) == m.sent, what+": node received exactly the stored publications")
}

// publish performs a real publish; wantSupp / wantReason is the reference
// verdict computed by the caller BEFORE the call.
func (m *vC19Model) publish(b *MemoryBroker, sink *vBrokerSink, opts PublishOptions, wantSupp bool, wantReason SuppressReason, wantPos StreamPosition, what string) PublishResult {
	m.tick()
	opts.HistorySize = 10
	opts.HistoryTTL = vC19HistTTLSec * time.Second
	nrec := len(sink.recs)
	res, err := b.Publish(vC19Chan, []byte("x"), opts)
	vAssert(err == nil, what+": no error")
	vAssert(vIff(res.Suppressed, wantSupp), what+": suppressed exactly when the reference says so")
	if res.Suppressed {
		vAssert(res.SuppressReason == wantReason, what+": suppress reason")
		vAssert(res.Offset == wantPos.Offset && res.Epoch == wantPos.Epoch, what+": suppressed publish returns the expected stream position")
		vAssert(len(sink.recs) == nrec, what+": suppressed publish reaches no subscriber")
		if wantReason == SuppressReasonVersion {
			if m.stale() {
				m.taint = true
			}
			if m.now+vC19HistTTLSec > m.lateAt {
				m.lateAt = m.now + vC19HistTTLSec
			}
		}
		return res
	}
	vAssert(res.SuppressReason == SuppressReasonNone, what+": no reason when stored")
	if m.top == 0 {
		vAssert(len(res.Epoch) > 0, what+": epoch set")
		m.epoch = res.Epoch
	}
	vAssert(res.Offset == m.top+1 && res.Epoch == m.epoch, what+": stored publish gets top+1 in the same epoch")
	vAssert(len(sink.recs) == nrec+1, what+": stored publish delivered once")
	if m.stale() {
		m.taint = true
	}
	m.top++
	m.kept++
	m.sent++
	m.expAt = m.now + vC19HistTTLSec
	if m.expAt > m.lateAt {
		m.lateAt = m.expAt
	}
	return res
}

var vC19Epochs = []string{"", "x", "y"}

// vh_C19_membroker_versions: sequences of versioned / unversioned publishes with
// symbolic uint64 versions (whole range, so > 2^53 too) and version epochs in
// {"", "x", "y"}, with optional 7 s pauses (history TTL 10 s).
func vh_C19_membroker_versions() {
	k := vParam("c19_pubs", 3)
	b, sink := vNewMemBroker(100*time.Second, vC19Chan)
	m := &vC19Model{}
	for step := 0; step < k; step++ {
		if step > 0 && vChoice("pause", 2) == 1 {
			vAdvanceSec(7)
			m.now += 7
		}
		kind := vChoice("kind", 4) // 0: unversioned; 1..3: versioned with epoch "", "x", "y"
		var v uint64
		ve := ""
		if kind > 0 {
			v = vU64("version")
			vAssume(v > 0)
			ve = vC19Epochs[kind-1]
		}
		wantSupp := false
		if kind > 0 && m.top > 0 && (ve == "" || ve == m.VE) {
			wantSupp = v <= m.V
		}
		// Confirmed defect (ignored unless listed open): Stream.Add overwrites the
		// remembered version with 0 on an unversioned publish.
		vKnown("C19-unversioned-resets-version", m.resetBy)
		res := m.publish(b, sink, PublishOptions{Version: v, VersionEpoch: ve}, wantSupp, SuppressReasonVersion,
			StreamPosition{Offset: m.top, Epoch: m.epoch}, "versions")
		if !res.Suppressed {
			if kind > 0 {
				m.V, m.VE = v, ve
			} else if m.V > 0 {
				m.resetBy = true
			}
		}
		vCover(vAnd(res.Suppressed, v > 1<<53), "suppressed-above-2^53")
		vCover(vAnd(vAnd(!res.Suppressed, step > 0), vAnd(v > 1<<53, v == m.V)), "accepted-above-2^53")
		vCover(res.Suppressed && ve == "" && m.VE != "", "suppressed-by-wildcard-epoch")
		vCover(!res.Suppressed && kind > 0 && step > 0 && ve != "", "accepted-other-epoch-or-higher")
		m.checkHistory(b, sink, "versions")
	}
	// after a final pause the reference history is expired; a suppressed publish
	// must not have prolonged it
	vAdvanceSec(7)
	m.now += 7
	m.checkHistory(b, sink, "versions-final")
}

type vC19Idem struct {
	pos   StreamPosition
	expAt int
	ok    bool
}

var vC19Keys = []string{"", "k1", "k2"}

// vh_C19_membroker_idempotency: keyed / unkeyed publishes with pauses around
// the result TTL (5 s; the default 300 s when c19_default_ttl=1), with or
// without history.
func vh_C19_membroker_idempotency() {
	k := vParam("c19_idem_pubs", 3)
	withVersions := vParam("c19_idem_versions", 0) == 1
	// meta TTL beyond the longest pause sequence (2 x 300 s): stream metadata is
	// never discarded in this harness (that is C17's subject)
	b, sink := vNewMemBroker(1000*time.Second, vC19Chan)
	// Publishes happen half a second off the cleanup goroutines' 1 s ticks, so the
	// result-cache sweep (which runs ON the ticks) cannot mask the expiry
	// comparison made by Publish itself at exactly the TTL.
	vAdvance(int64(500 * time.Millisecond))
	vSettle()
	m := &vC19Model{}
	ttlSec := 5
	var ttl time.Duration = 5 * time.Second
	pauses := []int{0, 3, 5}
	if vParam("c19_default_ttl", 0) == 1 && vChoice("ttlkind", 2) == 1 {
		ttlSec, ttl = 300, 0
		pauses = []int{0, 299, 300}
	}
	hist := vChoice("history", 2) == 1
	cache := map[string]*vC19Idem{}
	for step := 0; step < k; step++ {
		if step > 0 {
			p := pauses[vChoice("pause", len(pauses))]
			if p > 0 {
				vAdvanceSec(p)
				m.now += p
			}
		}
		key := vC19Keys[vChoice("key", len(vC19Keys))]
		var v uint64
		if withVersions && hist {
			v = vU64("version") // 0 = unversioned
		}
		opts := PublishOptions{IdempotencyKey: key, IdempotentResultTTL: ttl, Version: v}
		ent := cache[key]
		dup := key != "" && ent != nil && ent.ok && m.now < ent.expAt
		if !hist {
			// no history: nothing is stored, every non-duplicate is delivered
			nrec := len(sink.recs)
			res, err := b.Publish(vC19Chan, []byte("x"), opts)
			vAssert(err == nil, "nohist: no error")
			vAssert(res.Suppressed == dup, "nohist: suppressed exactly when the key repeats within its TTL")
			vAssert(res.Offset == 0 && res.Epoch == "", "nohist: zero stream position")
			if dup {
				vAssert(res.SuppressReason == SuppressReasonIdempotency, "nohist: reason")
				vAssert(len(sink.recs) == nrec, "nohist: duplicate reaches no subscriber")
				vCover(true, "nohist-duplicate")
			} else {
				vAssert(len(sink.recs) == nrec+1, "nohist: delivered once")
				if key != "" {
					cache[key] = &vC19Idem{ok: true, expAt: m.now + ttlSec}
				}
			}
			continue
		}
		wantSupp := dup
		reason := SuppressReasonIdempotency
		wantPos := StreamPosition{}
		if dup {
			wantPos = ent.pos
		} else {
			wantPos = StreamPosition{Offset: m.top, Epoch: m.epoch}
			reason = SuppressReasonVersion
			if m.top > 0 {
				wantSupp = vAnd(v > 0, v <= m.V)
			}
		}
		vKnown("C19-unversioned-resets-version", m.resetBy)
		res := m.publish(b, sink, opts, wantSupp, reason, wantPos, "idem")
		if !res.Suppressed {
			if key != "" {
				cache[key] = &vC19Idem{ok: true, pos: res.StreamPosition, expAt: m.now + ttlSec}
			}
			if withVersions {
				// (v may be symbolic; the branch below is decided on this path
				// because the code under test compared it already or it is 0)
				m.resetBy = vOr(m.resetBy, vAnd(v == 0, m.V > 0))
				m.V = vIteU64(v > 0, v, m.V)
			}
		}
		vCover(dup && res.Suppressed && res.Offset < m.top, "duplicate-returns-original-position")
		vCover(key != "" && ent != nil && !dup && !res.Suppressed, "fresh-after-ttl")
		m.checkHistory(b, sink, "idem")
	}
}

// vh_C19_membroker_cachekey: the result cache must not confuse (channel, key)
// pairs: a result saved for (chA, keyA) is found for (chB, keyB) only if
// chA == chB and keyA == keyB. Channel and key bytes are symbolic, lengths 1..3.
func vh_C19_membroker_cachekey() {
	maxLen := vParam("c19_strlen", 3)
	la, lka := 1+vChoice("lenChA", maxLen), 1+vChoice("lenKeyA", maxLen)
	lb, lkb := 1+vChoice("lenChB", maxLen), 1+vChoice("lenKeyB", maxLen)
	chA, keyA := vString("chA", la), vString("keyA", lka)
	chB, keyB := vString("chB", lb), vString("keyB", lkb)
	b := &MemoryBroker{resultCache: make(map[string]resultCacheEntry)}
	b.saveResultToCache(chA, keyA, StreamPosition{Offset: 7, Epoch: "e"}, 5)
	same := vAnd(vStrEq(chA, chB), vStrEq(keyA, keyB))
	// Confirmed defect (ignored unless listed open): the cache key is ch+"_"+key.
	vKnown("C19-idempotency-cache-key-collision", vNot(same))
	pos, ok := b.getResultFromCache(chB, keyB)
	vAssert(vIff(ok, same), "result cache hit exactly for the same (channel, idempotency key)")
	vCover(ok, "cache-hit")
	if ok {
		vAssert(pos.Offset == 7 && pos.Epoch == "e", "cached position returned")
	}
}

// ---------------------------------------------------------------------------
// MemoryMapBroker

type vC19KeyState struct {
	V      uint64
	VE     string
	exists bool
}

func vNewMapBroker(chans ...string) (*MemoryMapBroker, *vBrokerSink) {
	n := &Node{config: Config{Map: MapConfig{GetMapChannelOptions: func(string) MapChannelOptions {
		return MapChannelOptions{Mode: MapModePersistent}
	}}}}
	var e *MemoryMapBroker
	if vParam("membroker_real_ctor", 0) == 1 {
		var err error
		e, err = NewMemoryMapBroker(n, MemoryMapBrokerConfig{})
		if err != nil {
			panic(err.Error())
		}
	} else {
		pubLocks := map[int]*sync.Mutex{}
		for _, ch := range chans {
			pubLocks[index(ch, numPubLocks)] = &sync.Mutex{}
		}
		closeCh := make(chan struct{})
		hub := newMapHub(n, pubLocks, closeCh)
		hub.setChannelOptionsResolver(n.config.Map.GetMapChannelOptions)
		e = &MemoryMapBroker{node: n, mapHub: hub, pubLocks: pubLocks, closeCh: closeCh,
			resultCache: make(map[string]map[string]resultCacheEntry)}
	}
	sink := &vBrokerSink{}
	if err := e.RegisterEventHandler(sink); err != nil {
		panic(err.Error())
	}
	vSettle()
	return e, sink
}

// vh_C19_mapbroker: per-key versions and idempotency keys on the memory map
// broker (persistent mode). State keys {"a","b"}; versions symbolic uint64;
// version epochs {"", "x", "y"}; idempotency keys {"", "k1"}; pauses around the
// 5 s result TTL.
func vh_C19_mapbroker() {
	k := vParam("c19_map_pubs", 2)
	versionsOnly := false
	vC19MapRun(k, versionsOnly)
}

// vh_C19_mapbroker_versions: the same driver restricted to versioned /
// unversioned publishes (no idempotency keys, no pauses), one step longer, so
// that "versioned, unversioned, lower version" sequences are inside the bound.
func vh_C19_mapbroker_versions() {
	vC19MapRun(vParam("c19_map_vpubs", 3), true)
}

func vC19MapRun(k int, versionsOnly bool) {
	e, sink := vNewMapBroker(vC19Chan)
	vAdvance(int64(500 * time.Millisecond)) // off the sweepers' ticks, see above
	vSettle()
	ctx := context.Background()
	keys := map[string]*vC19KeyState{"a": {}, "b": {}}
	cache := map[string]*vC19Idem{}
	var top uint64
	epoch := ""
	now := 0
	stored := 0
	for step := 0; step < k; step++ {
		if step > 0 && !versionsOnly {
			p := []int{0, 3, 5}[vChoice("pause", 3)]
			if p > 0 {
				vAdvanceSec(p)
				now += p
			}
		}
		key := []string{"a", "b"}[vChoice("key", 2)]
		ik := ""
		if !versionsOnly {
			ik = []string{"", "k1"}[vChoice("idem", 2)]
		}
		kind := vChoice("kind", 4) // 0 unversioned, 1..3 versioned with epoch "", "x", "y"
		var v uint64
		ve := ""
		if kind > 0 {
			v = vU64("version")
			vAssume(v > 0)
			ve = vC19Epochs[kind-1]
		}
		ks := keys[key]
		ent := cache[ik]
		dup := ik != "" && ent != nil && m19Live(ent, now)
		wantSupp := dup
		reason := SuppressReasonIdempotency
		wantPos := StreamPosition{Offset: top, Epoch: epoch}
		if dup {
			wantPos = ent.pos
		} else {
			reason = SuppressReasonVersion
			if kind > 0 && ks.exists && (ve == "" || ve == ks.VE) {
				wantSupp = v <= ks.V
			}
		}
		// white-box snapshot for "suppressed publishes change nothing"
		var stBefore *stateEntry
		var lenBefore int
		var topBefore uint64
		if ch, ok := e.mapHub.channels[vC19Chan]; ok {
			stBefore = ch.state[key]
			lenBefore = len(ch.state)
			topBefore = ch.stream.Top()
		}
		nrec := len(sink.recs)
		res, err := e.Publish(ctx, vC19Chan, key, MapPublishOptions{Data: []byte("d"), IdempotencyKey: ik, IdempotentResultTTL: 5 * time.Second, Version: v, VersionEpoch: ve})
		vAssert(err == nil, "map: no error")
		vAssert(vIff(res.Suppressed, wantSupp), "map: suppressed exactly when the reference says so")
		if res.Suppressed {
			vAssert(res.SuppressReason == reason, "map: suppress reason")
			vAssert(res.Position.Offset == wantPos.Offset && res.Position.Epoch == wantPos.Epoch, "map: suppressed publish returns the expected position")
			vAssert(len(sink.recs) == nrec, "map: suppressed publish reaches no subscriber")
			ch := e.mapHub.channels[vC19Chan]
			vAssert(ch != nil && ch.state[key] == stBefore && len(ch.state) == lenBefore && ch.stream.Top() == topBefore, "map: suppressed publish changes neither state nor stream")
			vCover(vAnd(reason == SuppressReasonVersion, v > 1<<53), "map-suppressed-above-2^53")
			vCover(reason == SuppressReasonIdempotency, "map-duplicate-key")
		} else {
			if top == 0 {
				epoch = res.Position.Epoch
			}
			vAssert(res.Position.Offset == top+1 && res.Position.Epoch == epoch && len(epoch) > 0, "map: stored publish gets top+1")
			vAssert(len(sink.recs) == nrec+1, "map: stored publish delivered once")
			top++
			stored++
			if kind > 0 {
				ks.V, ks.VE = v, ve
			}
			ks.exists = true
			if ik != "" {
				cache[ik] = &vC19Idem{ok: true, pos: res.Position, expAt: now + 5}
			}
			vCover(kind == 0 && ks.V > 0, "map-unversioned-keeps-version")
		}
		sr, err := e.ReadStream(ctx, vC19Chan, MapReadStreamOptions{Filter: StreamFilter{Limit: -1}})
		vAssert(err == nil, "map: read stream ok")
		vAssert(sr.Position.Offset == top && len(sr.Publications) == stored, "map: stream holds exactly the stored publications")
	}
}

func m19Live(e *vC19Idem, now int) bool { return e.ok && now < e.expAt }
