package centrifuge

import "time"

// C17b/c: the real MemoryBroker (Publish / History / RemoveHistory and the
// expiry + meta-removal sweeps under virtual time) against the ideal bounded
// append-only log.

const (
	vC17MetaTTLSec = 50
	vC17Chan       = "ch17"
)

// vC17Log is the reference model: an append-only log of which only the `kept`
// newest offsets are retained.
type vC17Log struct {
	alive  bool   // stream metadata exists (epoch + top are remembered)
	epoch  string // epoch of the live metadata
	top    uint64
	kept   int // retained suffix length (may be a symbolic int)
	expAt  int // virtual second at which the retained items expire (history TTL)
	metaAt int // virtual second from which the metadata MAY be discarded
	lateAt int  // latest history deadline ever requested by a publish
	stale  bool // reference says expired, but an earlier publish had asked for a later deadline
	taint  bool // a publish happened while stale (known-finding region is sticky from then on)
	past   []string
	now    int
}

// tick applies the passage of time to the reference: history TTL elapsed =>
// nothing retained (top and epoch survive).
func (l *vC17Log) tick() {
	if l.alive && l.now >= l.expAt {
		l.kept = 0
	}
	l.stale = l.alive && l.now >= l.expAt && l.now < l.lateAt
}

// observe reconciles a position reported by the broker with the reference and
// returns whether the stream continued (same epoch). The epoch may change only
// when there was no metadata or its TTL has elapsed; a fresh stream has a
// never-seen epoch and restarts at offset 0.
func (l *vC17Log) observe(epoch string, what string) bool {
	vAssert(len(epoch) > 0, what+": epoch non-empty")
	if l.alive && epoch == l.epoch {
		return true
	}
	if l.alive {
		vAssert(l.now >= l.metaAt, what+": epoch changed although the stream metadata had not expired")
		vCover(true, "meta-discarded-new-epoch")
	}
	for _, p := range l.past {
		vAssert(p != epoch, what+": a fresh stream must get a new epoch")
	}
	l.past = append(l.past, epoch)
	l.alive = true
	l.epoch = epoch
	l.top = 0
	l.kept = 0
	return false
}

func vC17Data(off uint64) []byte { return []byte{byte(off)} }

// publish performs one real publish and checks it against the reference.
func (l *vC17Log) publish(b *MemoryBroker, sink *vBrokerSink, size int, ttlSec int) {
	l.tick()
	nrec := len(sink.recs)
	// data is stamped with the offset the reference expects on continuation;
	// fresh-stream publishes are re-stamped below.
	pubData := []byte{0}
	res, err := b.Publish(vC17Chan, pubData, PublishOptions{HistorySize: size, HistoryTTL: time.Duration(ttlSec) * time.Second})
	vAssert(err == nil, "publish: no error")
	vAssert(!res.Suppressed, "publish: plain publish is never suppressed")
	l.observe(res.Epoch, "publish")
	vAssert(res.Offset == l.top+1, "publish: offset = previous top + 1 (1 on a fresh stream)")
	pubData[0] = byte(res.Offset)
	l.top = res.Offset
	l.kept = vIteInt(l.kept+1 > size, size, l.kept+1)
	l.expAt = l.now + ttlSec
	if l.stale {
		l.taint = true
	}
	if l.expAt > l.lateAt {
		l.lateAt = l.expAt
	}
	l.metaAt = l.now + vC17MetaTTLSec
	vAssert(len(sink.recs) == nrec+1, "publish: delivered to the node exactly once")
	r := sink.recs[len(sink.recs)-1]
	vAssert(r.ch == vC17Chan && r.sp.Offset == res.Offset && r.sp.Epoch == res.Epoch && r.pub.Offset == res.Offset, "publish: delivered with its stream position")
}

// historyAll reads the whole retained history forward and compares.
func (l *vC17Log) historyAll(b *MemoryBroker, what string) {
	l.tick()
	pubs, pos, err := b.History(vC17Chan, HistoryOptions{Filter: HistoryFilter{Limit: -1}})
	vAssert(err == nil, what+": no error")
	l.observe(pos.Epoch, what)
	l.metaAt = l.now + vC17MetaTTLSec
	vAssert(pos.Offset == l.top, what+": position is the top offset")
	// Confirmed divergence (ignored unless listed as open): a publish with a
	// SHORTER history TTL than an earlier one does not bring the expiry forward.
	vKnown("C17-ttl-shortened-late", l.stale || l.taint)
	vAssert(len(pubs) == l.kept, what+": retained count")
	for i, p := range pubs {
		want := l.top - uint64(len(pubs)) + 1 + uint64(i)
		vAssert(p.Offset == want, what+": retained suffix offsets")
		vAssert(len(p.Data) == 1 && p.Data[0] == byte(want), what+": publication content belongs to its offset")
	}
}

func vh_C17_broker_seq() {
	k := vParam("c17_ops", 3)
	nsizes := vParam("c17_seq_sizes", 1) // 1: every publish uses history size 2; n>1: sizes 1..n per publish
	pickSize := func() int {
		if nsizes <= 1 {
			return 2
		}
		return 1 + vChoice("size", nsizes)
	}
	b, sink := vNewMemBroker(vC17MetaTTLSec*time.Second, vC17Chan)
	l := &vC17Log{}
	for step := 0; step < k; step++ {
		switch vChoice("op", 8) {
		case 0:
			l.publish(b, sink, pickSize(), 10)
		case 1:
			l.publish(b, sink, pickSize(), 40)
		case 2:
			vAssert(b.RemoveHistory(vC17Chan) == nil, "remove: no error")
			l.kept = 0
			vCover(l.top > 0, "removed-nonempty")
		case 3:
			l.historyAll(b, "history")
		case 4:
			vAdvanceSec(3)
			l.now += 3
		case 5:
			vAdvanceSec(10)
			l.now += 10
		case 6:
			vAdvanceSec(37)
			l.now += 37
		case 7:
			vAdvanceSec(45)
			l.now += 45
		}
	}
	topBefore, aliveBefore, keptBefore := l.top, l.alive, l.kept
	l.tick()
	vCover(vAnd(aliveBefore && topBefore >= 2, vAnd(keptBefore > 0, l.kept == 0)), "expired-keeps-top")
	l.historyAll(b, "final history")
	vCover(l.top == 3, "three-stored")
	vCover(l.top >= 3 && l.kept == 2, "trimmed")
	// the History call above re-armed the meta TTL: 45 s later (< 50 s) the stream
	// metadata must still be there, and a publish continues the numbering in the
	// same epoch
	vAdvanceSec(45)
	l.now += 45
	l.publish(b, sink, 2, 10)
	l.historyAll(b, "history after closing publish")
}

// vh_C17_broker_history: history queries with symbolic since/limit/reverse on a
// stream built by 0..3 real publishes (symbolic history sizes), optionally
// removed, vs the reference "retained suffix filtered by since, limit and
// direction".
func vh_C17_broker_history() {
	maxPub := vParam("c17_pubs", 3)
	b, sink := vNewMemBroker(vC17MetaTTLSec*time.Second, vC17Chan)
	l := &vC17Log{}
	np := vChoice("npub", maxPub+1)
	for i := 0; i < np; i++ {
		l.publish(b, sink, vRange("size", 1, 3), 40)
	}
	state := vChoice("state", 3)
	if np == 0 && state != 0 {
		vAssume(false)
	}
	switch state {
	case 1:
		vAssert(b.RemoveHistory(vC17Chan) == nil, "remove: no error")
		l.kept = 0
	case 2:
		vAdvanceSec(45) // history TTL (40 s) elapsed, metadata (50 s) still alive
		l.now += 45
		l.tick()
	}
	top := l.top

	hasSince := vBool("hasSince")
	sinceOff := vU64("sinceOffset")
	limit := vInt("limit")
	reverse := vBool("reverse")
	var since *StreamPosition
	epochKind := 0
	if hasSince {
		epochKind = vChoice("sinceEpoch", 3)
		e := ""
		if epochKind == 1 {
			e = l.epoch
		} else if epochKind == 2 {
			e = "FOREIGN"
		}
		since = &StreamPosition{Offset: sinceOff, Epoch: e}
	}

	// ---- reference: per-offset predicates (no branching on symbolic data)
	n := int(top)
	retained := make([]bool, n+1)
	inRange := make([]bool, n+1)
	for o := 1; o <= n; o++ {
		retained[o] = o > n-l.kept
		fwd := uint64(o) > sinceOff
		bwd := uint64(o) < sinceOff
		dir := vOr(vAnd(reverse, bwd), vAnd(vNot(reverse), fwd))
		inRange[o] = vAnd(retained[o], vOr(vNot(hasSince), dir))
	}
	sel := make([]bool, n+1)
	count := 0
	for o := 1; o <= n; o++ {
		rankF, rankR := 0, 0
		for j := 1; j < o; j++ {
			rankF = vIteInt(inRange[j], rankF+1, rankF)
		}
		for j := o + 1; j <= n; j++ {
			rankR = vIteInt(inRange[j], rankR+1, rankR)
		}
		rank := vIteInt(reverse, rankR, rankF)
		sel[o] = vAnd(inRange[o], vOr(limit < 0, rank < limit))
		count = vIteInt(sel[o], count+1, count)
	}

	// Divergences of the real code from the reference that were confirmed by
	// reading (ignored unless listed as open in known_findings.json):
	vKnown("C17-reverse-above-top", vAnd(vAnd(hasSince, reverse), sinceOff > top+1))
	vKnown("C17-since-offset-wrap", vAnd(vAnd(hasSince, vNot(reverse)), sinceOff == 0xFFFFFFFFFFFFFFFF))

	pubs, pos, err := b.History(vC17Chan, HistoryOptions{Filter: HistoryFilter{Since: since, Limit: limit, Reverse: reverse}})
	vAssert(err == nil, "history: no error")
	if np == 0 {
		vAssert(pos.Offset == 0 && len(pos.Epoch) > 0 && len(pubs) == 0, "history of an unknown channel: empty at offset 0 with an epoch")
		return
	}
	vAssert(pos.Offset == top && pos.Epoch == l.epoch, "history: position = (top, epoch) whatever the filter")
	vAssert(len(pubs) == count, "history: number of publications = |retained ∩ since-range| capped by limit")
	for i := range pubs {
		match := false
		for o := 1; o <= n; o++ {
			before := 0
			if reverse {
				for j := o + 1; j <= n; j++ {
					before = vIteInt(sel[j], before+1, before)
				}
			} else {
				for j := 1; j < o; j++ {
					before = vIteInt(sel[j], before+1, before)
				}
			}
			match = vOr(match, vAnd(vAnd(sel[o], before == i), pubs[i].Offset == uint64(o)))
		}
		vAssert(match, "history: i-th publication is the i-th selected retained offset in travel order")
		vAssert(len(pubs[i].Data) == 1 && pubs[i].Data[0] == byte(pubs[i].Offset), "history: publication content belongs to its offset")
	}
	vCover(len(pubs) == 3, "all-three")
	vCover(vAnd(hasSince, vAnd(vNot(reverse), len(pubs) == 2)), "since-forward-two")
	vCover(vAnd(hasSince, vAnd(reverse, len(pubs) == 2)), "since-reverse-two")
	vCover(vAnd(limit == 1, vAnd(l.kept >= 2, len(pubs) == 1)), "limit-truncates")
	vCover(vAnd(state == 1 && top == 3, len(pubs) == 0), "removed-keeps-top")
	vCover(vAnd(state == 2 && top == 3, len(pubs) == 0), "expired-keeps-top")
	vCover(vAnd(vAnd(hasSince, vNot(reverse)), vAnd(l.kept == 1 && top == 3, vAnd(sinceOff == 0, len(pubs) == 1))), "since-trimmed-falls-to-front")

	// the query changed nothing
	l.historyAll(b, "history after query")
}

// vh_C17_recreated_stream: a stream whose metadata TTL is shorter than its
// history TTL is discarded by the meta sweep while its history deadline is
// still pending; the channel is then published to again. The re-created
// stream must expire after ITS history TTL (top offset and epoch kept), and
// must not expire early because of the first stream's deadline.
func vh_C17_recreated_stream() {
	b, sink := vNewMemBroker(vC17MetaTTLSec*time.Second, vC17Chan)
	t1 := []int{3, 10}[vChoice("ttl1", 2)]
	m1 := []int{1, 5}[vChoice("meta1", 2)]
	gap := []int{2, 6, 12}[vChoice("gap", 3)]
	t2 := []int{3, 10}[vChoice("ttl2", 2)]
	wait := []int{2, 4, 11}[vChoice("wait", 3)]
	now := 0
	// publish 1 with a per-publication metadata TTL
	r1, err := b.Publish(vC17Chan, []byte{1}, PublishOptions{HistorySize: 2, HistoryTTL: time.Duration(t1) * time.Second, HistoryMetaTTL: time.Duration(m1) * time.Second})
	vAssert(err == nil && r1.Offset == 1, "first publish stored at offset 1")
	vAdvanceSec(gap)
	now += gap
	// publish 2 (default metadata TTL, 50 s)
	r2, err := b.Publish(vC17Chan, []byte{2}, PublishOptions{HistorySize: 2, HistoryTTL: time.Duration(t2) * time.Second})
	vAssert(err == nil, "second publish ok")
	pub2At := now
	sameStream := r2.Epoch == r1.Epoch
	if sameStream {
		vAssert(r2.Offset == 2, "same epoch continues the numbering")
		vCover(true, "metadata-survived")
	} else {
		vAssert(gap >= m1, "epoch changed although the metadata TTL had not elapsed")
		vAssert(r2.Offset == 1, "a fresh stream starts at offset 1")
		vCover(gap >= t1, "recreated-after-first-history-deadline")
	}
	vAdvanceSec(wait)
	now += wait
	pubs, pos, err := b.History(vC17Chan, HistoryOptions{Filter: HistoryFilter{Limit: -1}})
	vAssert(err == nil, "history ok")
	vAssert(pos.Epoch == r2.Epoch && pos.Offset == r2.Offset, "top offset and epoch kept")
	if now-pub2At >= t2 {
		// Known finding C17-ttl-shortened-late: the channel's expiry-queue entry is
		// pushed once and never re-prioritised, so a later publish whose deadline
		// is EARLIER than a still-pending older deadline (same stream, or a stream
		// re-created after its metadata was discarded) expires only at the older one.
		vKnown("C17-ttl-shortened-late", pub2At+t2 < t1 && now < t1)
		vAssert(len(pubs) == 0, "history expired after its own TTL")
	} else {
		// not yet expired: the second publication must still be there (the first
		// one too if it is in the same stream and was stored less than ttl2 ago —
		// the history deadline is per stream and was re-armed by publish 2)
		want := 1
		if sameStream {
			want = 2
			// Known finding C17-ttl-shortened-late does not apply here: a LONGER
			// or equal second TTL only moves the deadline later; a shorter one is
			// excluded from this clause.
			if t2 < t1 && now < t1 {
				want = -1
			}
		}
		if want >= 0 {
			vAssert(len(pubs) == want, "unexpired history still retained")
		}
	}
	_ = sink
}
