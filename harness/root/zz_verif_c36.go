package centrifuge

// C36: liveness timers close exactly the connections they should. All
// harnesses run on the engine's virtual clock; vAdvance fires due timers.

import (
	"context"
	"time"

	"github.com/centrifugal/protocol"
)

const (
	c36sec = int64(time.Second)
)

func c36noPing(tr *vTransport) { tr.ping = PingPongConfig{PingInterval: -1, PongTimeout: -1} }

func c36nowUnix() int64 { return vNowNano() / c36sec }

// c36client creates a client whose credentials expire at exp (0 = never).
func c36client(n *Node, tr *vTransport, exp int64) *Client {
	ctx := SetCredentials(context.Background(), &Credentials{UserID: "u1", ExpireAt: exp})
	c, _, err := NewClient(ctx, n, tr)
	if err != nil {
		panic("c36client: " + err.Error())
	}
	return c
}

// ---------------------------------------------------------------------------
// (a) timer multiplexing: with arbitrary pending event times the single timer
// is armed for the earliest set event, with duration event - now.

type c36sched struct {
	d         []time.Duration
	cb        []func()
	cancelled []bool
}

type c36cancel struct {
	s *c36sched
	k int
}

func (x *c36cancel) Cancel() { x.s.cancelled[x.k] = true }

func (s *c36sched) ScheduleTimer(d time.Duration, cb func()) TimerCanceler {
	s.d = append(s.d, d)
	s.cb = append(s.cb, cb)
	s.cancelled = append(s.cancelled, false)
	return &c36cancel{s, len(s.d) - 1}
}

func vh_C36_timer_mux() {
	s := &c36sched{}
	n := vNewNode(Config{ClientTimerScheduler: s})
	tr := vNewTransport()
	c := vNewClient(n, "u1", tr)
	vAssert(len(s.d) == 1 && s.d[0] == n.config.ClientStaleCloseDelay && c.timerOp == timerOpStale, "stale timer armed at creation")
	now := vNowNano()
	ev := func(name string) int64 {
		d := vI64(name)
		vAssume(d >= -5*c36sec && d <= 1000*c36sec)
		return int64(vIteInt(vBool(name+"_set"), int(now+d), 0))
	}
	c.mu.Lock()
	c.nextExpire, c.nextPresence, c.nextPing, c.nextPong = ev("expire"), ev("presence"), ev("ping"), ev("pong")
	c.scheduleNextTimer()
	c.mu.Unlock()
	vAssert(s.cancelled[0], "previous timer cancelled")
	anySet := vOr(vOr(c.nextExpire > 0, c.nextPresence > 0), vOr(c.nextPing > 0, c.nextPong > 0))
	if len(s.d) == 1 {
		vAssert(!anySet, "no timer only when no event is pending")
		vCover(true, "nothing-pending")
		return
	}
	vAssert(anySet && len(s.d) == 2 && !s.cancelled[1], "exactly one timer armed")
	var at int64
	switch c.timerOp {
	case timerOpExpire:
		at = c.nextExpire
	case timerOpPresence:
		at = c.nextPresence
	case timerOpPing:
		at = c.nextPing
	case timerOpPong:
		at = c.nextPong
	default:
		vFail("armed op is none of expire/presence/ping/pong")
	}
	vAssert(at > 0, "armed op is a pending event")
	le := func(x int64) bool { return vOr(x == 0, at <= x) }
	vAssert(vAnd(vAnd(le(c.nextExpire), le(c.nextPresence)), vAnd(le(c.nextPing), le(c.nextPong))), "armed op is the earliest pending event")
	vAssert(int64(s.d[1]) == at-now, "timer duration is event time minus now")
	vCover(c.timerOp == timerOpPong, "pong-armed")
	vCover(c.timerOp == timerOpExpire, "expire-armed")
	vCover(c.timerOp == timerOpPing, "ping-armed")
	vCover(c.timerOp == timerOpPresence, "presence-armed")
}

// ---------------------------------------------------------------------------
// (b) ping / pong

func vh_C36_pingpong() {
	n := vNewNode(Config{})
	tr := vNewTransport() // ping every 25s, pong within 10s
	c := vNewClient(n, "u1", tr)
	if vChoice("connect_offset", 2) == 1 {
		vAdvance(300 * int64(time.Millisecond))
	}
	vAssert(vConnect(c), "connect proceeds")
	vSettle()
	pingEvery, pongWithin := 25*c36sec, 10*c36sec
	frames := len(tr.frames)
	// first ping is sent between interval/2 and interval after connect
	// (randomised; the engine's random source returns 0 => interval/2)
	vAdvance(pingEvery/2 - 1)
	vAssert(len(tr.frames) == frames && !tr.closed, "no ping before its time")
	vAdvance(1)
	vAssert(len(tr.frames) == frames+1 && !tr.closed, "ping sent")
	frames++
	rounds := vParam("c36_rounds", 2)
	for r := 0; r < rounds; r++ {
		// a ping was just sent; its pong deadline is pongWithin from now
		switch vChoice("pong", 4) {
		case 0: // never answered
			vAdvance(pongWithin - 1)
			vAssert(!tr.closed, "not closed before the pong deadline")
			vAdvance(1)
			vAssert(tr.closed && tr.closeD.Code == DisconnectNoPong.Code, "no pong within the timeout: DisconnectNoPong")
			vCover(true, "no-pong-closed")
			return
		case 1: // answered at once
			vAssert(c.HandleCommand(&protocol.Command{}, 0), "pong accepted")
			vAdvance(pongWithin)
		case 2: // answered one tick before the deadline
			vAdvance(pongWithin - 1)
			vAssert(c.HandleCommand(&protocol.Command{}, 0), "pong accepted")
			vAdvance(1)
			vCover(true, "pong-just-in-time")
		case 3: // answered one tick after the deadline
			vAdvance(pongWithin)
			vAssert(tr.closed && tr.closeD.Code == DisconnectNoPong.Code, "late pong: already DisconnectNoPong")
			vAssert(!c.HandleCommand(&protocol.Command{}, 0), "late pong refused")
			return
		}
		vSettle()
		vAssert(!tr.closed, "pong in time: not closed at the deadline")
		vAssert(len(tr.frames) == frames, "no extra frame")
		// next ping is due pingEvery after the previous one
		vAdvance(pingEvery - pongWithin - 1)
		vAssert(!tr.closed && len(tr.frames) == frames, "pong in time: alive until the next ping")
		vAdvance(1)
		vAssert(!tr.closed && len(tr.frames) == frames+1, "next ping sent on schedule")
		frames++
		vCover(r == 1, "two-rounds-survived")
	}
}

// ---------------------------------------------------------------------------
// (c) stale close

func vh_C36_stale() {
	delay := []time.Duration{0, 3 * time.Second, 40 * time.Second}[vChoice("stale_delay", 3)]
	n := vNewNode(Config{ClientStaleCloseDelay: delay})
	d := int64(n.config.ClientStaleCloseDelay) // 0 => default 15s
	fail := false
	n.OnConnecting(func(ctx context.Context, e ConnectEvent) (ConnectReply, error) {
		if fail {
			return ConnectReply{}, ErrorUnauthorized
		}
		return ConnectReply{}, nil
	})
	tr := vNewTransport()
	c36noPing(tr)
	c := vNewClient(n, "u1", tr)
	slow := false
	n.OnConnect(func(c *Client) {
		if slow {
			// the connect callback is slow: the stale deadline passes while it runs
			vAdvance(2)
			vSettle()
		}
	})
	switch vChoice("mode", 5) {
	case 4: // connects in time; the stale deadline passes while OnConnect still runs
		slow = true
		vAdvance(d - 1)
		vAssert(vConnect(c), "connect in time")
		vSettle()
		vAssert(!tr.closed, "a connection authenticated in time is not closed as stale while its connect callback runs")
		vAdvance(3 * d)
		vAssert(!tr.closed, "authenticated connection is never closed as stale")
		vCover(true, "deadline-inside-connect-callback")
	case 0: // never sends connect
		vAdvance(d - 1)
		vAssert(!tr.closed, "not closed before the stale delay")
		vAdvance(1)
		vAssert(tr.closed && tr.closeD.Code == DisconnectStale.Code, "unauthenticated connection closed as stale after the delay")
		vCover(true, "stale-closed")
	case 1: // connects just in time
		vAdvance(d - 1)
		vAssert(vConnect(c) && !tr.closed, "connect in time")
		vAdvance(1)
		vAssert(!tr.closed, "authenticated connection survives the stale deadline")
		vAdvance(3 * d)
		vAssert(!tr.closed, "authenticated connection is never closed as stale")
		vCover(true, "connected-in-time")
	case 2: // connect refused: connection unusable but still open
		fail = true
		vAdvance(d / 2)
		ok := vConnect(c)
		vSettle()
		vAssert(!ok && !c.authenticated, "connect refused")
		if !tr.closed {
			vAdvance(d - d/2 - 1)
			vAssert(!tr.closed, "not closed before the stale delay")
			vAdvance(1)
			vAssert(tr.closed && tr.closeD.Code == DisconnectStale.Code, "unusable connection closed as stale after the delay")
			vCover(true, "unusable-closed")
		}
	case 3: // connects at once
		vAssert(vConnect(c) && !tr.closed, "connect")
		vAdvance(d)
		vAssert(!tr.closed, "authenticated connection survives the stale deadline")
	}
}

// ---------------------------------------------------------------------------
// (d) connection expiry

// c36refreshReply enumerates RefreshHandler answers. kind: 0 new expiry in the
// future (now+40s), 1 new expiry now+1s, 2 ExpireAt == now, 3 ExpireAt in the
// past, 4 ExpireAt == 0 ("no expiration"), 5 Expired, 6 client error,
// 7 disconnect, 8 foreign error.
func c36refreshReply(kind int) (RefreshReply, error) {
	now := c36nowUnix()
	switch kind {
	case 0:
		return RefreshReply{ExpireAt: now + 40}, nil
	case 1:
		return RefreshReply{ExpireAt: now + 1}, nil
	case 2:
		return RefreshReply{ExpireAt: now}, nil
	case 3:
		return RefreshReply{ExpireAt: now - 1}, nil
	case 4:
		return RefreshReply{ExpireAt: 0}, nil
	case 5:
		return RefreshReply{Expired: true}, nil
	case 6:
		return RefreshReply{}, ErrorPermissionDenied
	case 7:
		return RefreshReply{}, DisconnectForceNoReconnect
	}
	return RefreshReply{}, vErr("refresh backend down")
}

// client-side refresh: closed with DisconnectExpired at ExpireAt +
// ClientExpiredCloseDelay unless a refresh command succeeded before.
func vh_C36_expire_client() {
	grace := []time.Duration{0, 2 * time.Second}[vChoice("grace", 2)]
	n := vNewNode(Config{ClientExpiredCloseDelay: grace})
	g := int64(n.config.ClientExpiredCloseDelay) // 0 => default 25s
	n.OnConnecting(func(ctx context.Context, e ConnectEvent) (ConnectReply, error) {
		return ConnectReply{ClientSideRefresh: true}, nil
	})
	tr := vNewTransport()
	c36noPing(tr)
	frac := int64(0)
	if vChoice("connect_offset", 2) == 1 {
		frac = 300 * int64(time.Millisecond)
		vAdvance(frac)
	}
	ttl := int64(5)
	exp := c36nowUnix() + ttl
	c := c36client(n, tr, exp)
	kind := 0
	invoked := 0
	c.OnRefresh(func(e RefreshEvent, cb RefreshCallback) {
		invoked++
		vAssert(e.ClientSideRefresh && e.Token == "t", "client-side refresh event")
		r, err := c36refreshReply(kind)
		cb(r, err)
	})
	vAssert(vConnect(c) && !tr.closed, "connect")
	vSettle()
	rs := vReplies(tr)
	vAssert(len(rs) == 1 && rs[0].Connect != nil && rs[0].Connect.Expires && rs[0].Connect.Ttl == uint32(ttl), "connect reply announces expiry")
	// timer: ttl seconds + grace after connect
	deadline := ttl*c36sec + g // relative to connect time
	when := vChoice("refresh_when", 3) // 0 never, 1 one tick before the deadline, 2 early
	if when == 0 {
		vAdvance(deadline - 1)
		vAssert(!tr.closed, "not closed before expiry plus grace")
		vAdvance(1)
		vAssert(tr.closed && tr.closeD.Code == DisconnectExpired.Code, "not refreshed: closed as expired at expiry plus grace")
		vAssert(invoked == 0, "refresh handler not invoked by the timer in client-side mode")
		vCover(true, "expired-closed")
		return
	}
	elapsed := int64(1) * c36sec
	if when == 1 {
		elapsed = deadline - 1
	}
	vAdvance(elapsed)
	vAssert(!tr.closed, "alive before the refresh")
	kind = vChoice("refresh_reply", 9)
	base := len(tr.frames)
	refreshUnix := c36nowUnix()
	proceed := c.HandleCommand(&protocol.Command{Id: 9, Refresh: &protocol.RefreshRequest{Token: "t"}}, 0)
	vSettle()
	vAssert(invoked == 1, "refresh handler invoked")
	same, _, r := vccCountReplies(tr, base, 9)
	switch kind {
	case 0, 1: // refreshed: new deadline = refresh time + new ttl + grace
		newTTL := int64(40)
		if kind == 1 {
			newTTL = 1
		}
		vAssert(proceed && !tr.closed && same == 1 && r.Error == nil && r.Refresh != nil && r.Refresh.Expires && r.Refresh.Ttl == uint32(newTTL), "refresh reply")
		vAssert(c.exp == refreshUnix+newTTL, "expiry updated")
		newDeadline := newTTL*c36sec + g // relative to now
		oldLeft := deadline - elapsed
		if oldLeft < newDeadline {
			vAdvance(oldLeft)
			vAssert(!tr.closed, "refreshed in time: alive at the old deadline")
			vAdvance(newDeadline - oldLeft - 1)
		} else {
			vAdvance(newDeadline - 1)
		}
		vAssert(!tr.closed, "refreshed: alive until the new expiry plus grace")
		vAdvance(1)
		vAssert(tr.closed && tr.closeD.Code == DisconnectExpired.Code, "closed as expired at the new expiry plus grace")
		vCover(when == 1, "refreshed-just-in-time")
		vCover(oldLeft < newDeadline, "survived-old-deadline")
	case 2, 3: // handler returned an expiry that is not in the future: not refreshed
		vAssert(proceed && !tr.closed && same == 1 && r.Error != nil && r.Error.Code == ErrorExpired.Code, "expired error reply")
		vAdvance(deadline - elapsed - 1)
		vAssert(!tr.closed, "not closed before the original deadline")
		vAdvance(1)
		vAssert(tr.closed && tr.closeD.Code == DisconnectExpired.Code, "not refreshed: closed as expired")
	case 4: // "no expiration"
		vAssert(proceed && !tr.closed && same == 1 && r.Error == nil && r.Refresh != nil && !r.Refresh.Expires, "refresh reply: does not expire")
		vAdvance(deadline - elapsed)
		vKnown("C36-refresh-expireat-zero", true)
		vAssert(!tr.closed, "refreshed without expiration: alive at the old deadline")
		vAdvance(100 * c36sec)
		vAssert(!tr.closed, "refreshed without expiration: never expires")
		vCover(true, "refresh-no-expiration")
	case 5:
		vAssert(tr.closed && tr.closeD.Code == DisconnectExpired.Code, "handler says expired: closed as expired")
	case 6, 8:
		vAssert(proceed && !tr.closed && same == 1 && r.Error != nil, "error reply")
		vAdvance(deadline - elapsed - 1)
		vAssert(!tr.closed, "not closed before the original deadline")
		vAdvance(1)
		vAssert(tr.closed && tr.closeD.Code == DisconnectExpired.Code, "refresh failed: closed as expired")
	case 7:
		vAssert(tr.closed && tr.closeD.Code == DisconnectForceNoReconnect.Code, "handler disconnect honoured")
	}
}

// server-side refresh: at ExpireAt the RefreshHandler decides.
func vh_C36_expire_server() {
	n := vNewNode(Config{})
	tr := vNewTransport()
	c36noPing(tr)
	frac := int64(0)
	if vChoice("connect_offset", 2) == 1 {
		frac = 300 * int64(time.Millisecond)
		vAdvance(frac)
	}
	ttl := int64(5)
	c := c36client(n, tr, c36nowUnix()+ttl)
	withHandler := vChoice("handler", 2) == 1
	kind := 0
	invoked := 0
	if withHandler {
		c.OnRefresh(func(e RefreshEvent, cb RefreshCallback) {
			invoked++
			vAssert(!e.ClientSideRefresh, "server-side refresh event")
			r, err := c36refreshReply(kind)
			cb(r, err)
		})
	}
	vAssert(vConnect(c) && !tr.closed, "connect")
	vSettle()
	vAdvance(ttl*c36sec - 1)
	vAssert(!tr.closed && invoked == 0, "nothing happens before the expiry time")
	if !withHandler {
		vAdvance(1)
		vAssert(tr.closed && tr.closeD.Code == DisconnectExpired.Code, "no refresh handler: closed as expired at the expiry time")
		vCover(true, "no-handler-expired")
		return
	}
	kind = vChoice("refresh_reply", 9)
	vAdvance(1)
	vAssert(invoked == 1, "refresh handler invoked at the expiry time")
	switch kind {
	case 0, 1:
		newTTL := int64(40)
		if kind == 1 {
			newTTL = 1
		}
		vAssert(!tr.closed, "refreshed: alive")
		kind = 5 // next time: expired
		vAdvance(newTTL*c36sec - 1)
		vAssert(!tr.closed && invoked == 1, "refreshed: alive until the new expiry time")
		vAdvance(1)
		vAssert(invoked == 2, "refresh handler invoked again at the new expiry time")
		vAssert(tr.closed && tr.closeD.Code == DisconnectExpired.Code, "second refresh says expired: closed as expired")
		vCover(true, "refreshed-then-expired")
	case 2, 3:
		vAssert(tr.closed && tr.closeD.Code == DisconnectExpired.Code, "handler returned a non-future expiry: closed as expired")
	case 4:
		vKnown("C36-refresh-expireat-zero", true)
		vAssert(!tr.closed, "refreshed without expiration: alive")
		vAdvance(100 * c36sec)
		vAssert(!tr.closed && invoked == 1, "refreshed without expiration: never expires")
	case 5:
		vAssert(tr.closed && tr.closeD.Code == DisconnectExpired.Code, "handler says expired: closed as expired")
	case 6, 8:
		vAssert(tr.closed && tr.closeD.Code == DisconnectServerError.Code, "handler error: closed")
	case 7:
		vAssert(tr.closed && tr.closeD.Code == DisconnectForceNoReconnect.Code, "handler disconnect honoured")
	}
}

// ---------------------------------------------------------------------------
// (e) subscription expiry

// unit: checkSubscriptionExpiration with symbolic expireAt / reply.ExpireAt
// (relative to the clock), every flag combination, generation-matched
// write-back.
func vh_C36_subexpire_unit() {
	delay := []time.Duration{0, 25 * time.Second, 1500 * time.Millisecond}[vChoice("delay", 3)]
	n := vNewNode(Config{})
	tr := vNewTransport()
	c := vNewClient(n, "u1", tr)
	now := c36nowUnix()
	rel := vI64("expire_at_rel")
	vAssume(rel >= -100 && rel <= 100)
	expireAt := int64(vIteInt(vBool("expire_at_zero"), 0, int(now+rel)))
	flags := uint16(flagSubscribed)
	clientSide := vChoice("client_side_refresh", 2) == 1
	if clientSide {
		flags |= flagClientSideRefresh
	}
	chCtx := ChannelContext{flags: flags, expireAt: expireAt, subGen: 7}
	stored := chCtx
	resub := vChoice("resubscribed", 2) == 1
	if resub {
		stored.subGen = 8 // the channel was unsubscribed and subscribed again meanwhile
	}
	c.channels["ch"] = stored
	invoked := 0
	var rep SubRefreshReply
	var rerr error
	if vChoice("handler", 2) == 1 {
		c.OnSubRefresh(func(e SubRefreshEvent, cb SubRefreshCallback) {
			invoked++
			vAssert(e.Channel == "ch" && !e.ClientSideRefresh, "server-side sub refresh event")
			rerr = vccErr(vChoice("reply_err", 2), "subrefresh")
			if rerr == nil {
				nrel := vI64("new_expire_at_rel")
				vAssume(nrel >= -100 && nrel <= 100)
				rep = SubRefreshReply{Expired: vBool("reply_expired"), ExpireAt: int64(vIteInt(vBool("new_expire_at_zero"), 0, int(now+nrel)))}
			}
			cb(rep, rerr)
		})
	}
	results := 0
	result := false
	c.checkSubscriptionExpiration("ch", chCtx, delay, func(ok bool) { results++; result = ok })
	vAssert(results == 1, "result callback called exactly once")
	delaySec := int64(delay / time.Second)
	expired := vAnd(expireAt > 0, now > expireAt+delaySec)
	if !expired {
		vAssert(result && invoked == 0, "not past expiry plus grace: kept, handler not consulted")
		vAssert(c.channels["ch"].expireAt == expireAt, "context untouched")
		vCover(vAnd(expireAt > 0, now > expireAt), "within-grace-delay")
		return
	}
	if clientSide || c.eventHub.subRefreshHandler == nil {
		vAssert(!result && invoked == 0, "expired and nobody to refresh server-side: expired")
		vCover(true, "expired-client-side")
		return
	}
	vAssert(invoked == 1, "sub refresh handler consulted once")
	if rerr != nil {
		vAssert(!result, "handler error: expired")
		return
	}
	refreshed := vAnd(!rep.Expired, vOr(rep.ExpireAt == 0, rep.ExpireAt >= now))
	vAssert(vIff(result, refreshed), "kept iff the handler refreshed it to a non-past expiry")
	if result {
		if resub {
			vAssert(c.channels["ch"].expireAt == expireAt && c.channels["ch"].subGen == 8, "newer subscription generation not overwritten")
			vCover(true, "generation-mismatch")
		} else {
			vAssert(c.channels["ch"].expireAt == rep.ExpireAt, "new expiry written back")
			vCover(rep.ExpireAt > now, "refreshed-server-side")
		}
	} else {
		vCover(true, "expired-server-side")
	}
}

// flow: a real subscription with an expiry; the periodic tick unsubscribes it
// with the expired code once it is past expiry + ClientExpiredSubCloseDelay,
// unless a sub_refresh command succeeded in time.
func vh_C36_subexpire_flow() {
	n := vNewNode(Config{})
	grace := int64(n.config.ClientExpiredSubCloseDelay / time.Second) // 25
	tr := vNewTransport()
	c36noPing(tr)
	c := vNewClient(n, "u1", tr)
	start := c36nowUnix()
	ttl := []int64{5, 30}[vChoice("ttl", 2)]
	c.OnSubscribe(func(e SubscribeEvent, cb SubscribeCallback) {
		cb(SubscribeReply{ClientSideRefresh: true, Options: SubscribeOptions{ExpireAt: start + ttl}}, nil)
	})
	newTTL := int64(0)
	noExpiry := false // the refresh reply removes the expiration (ExpireAt 0)
	c.OnSubRefresh(func(e SubRefreshEvent, cb SubRefreshCallback) {
		if noExpiry {
			cb(SubRefreshReply{ExpireAt: 0}, nil)
			return
		}
		cb(SubRefreshReply{ExpireAt: c36nowUnix() + newTTL}, nil)
	})
	unsubs := 0
	c.OnUnsubscribe(func(e UnsubscribeEvent) {
		unsubs++
		vAssert(e.Channel == "ch" && e.Code == UnsubscribeCodeExpired, "unsubscribe event carries the expired code")
	})
	vAssert(vConnect(c), "connect")
	vSettle()
	vAssert(c.HandleCommand(&protocol.Command{Id: 2, Subscribe: &protocol.SubscribeRequest{Channel: "ch"}}, 0), "subscribe")
	vSettle()
	vAssert(c.IsSubscribed("ch") && !tr.closed, "subscribed")
	expireAt := start + ttl
	refreshAt := int64(-1)
	switch vChoice("refresh", 4) {
	case 1:
		refreshAt, newTTL = 20, 1000 // long before it matters
	case 2:
		refreshAt, newTTL = 40, 10 // after expiry, within grace for ttl=30 / too late for ttl=5 (tick at 37.5)
	case 3:
		refreshAt, noExpiry = 20, true // refreshed to "no expiration"
	}
	// ticks happen at 12.5s, 37.5s, 62.5s, ... after connect
	tick := int64(time.Second) * 25 / 2
	elapsed := int64(0)
	gone := false
	for k := 0; k < vParam("c36_ticks", 5); k++ {
		next := tick + int64(k)*25*c36sec
		// a refresh command between ticks
		if refreshAt >= 0 && elapsed <= refreshAt*c36sec && refreshAt*c36sec < next && !gone {
			vAdvance(refreshAt*c36sec - elapsed)
			elapsed = refreshAt * c36sec
			base := len(tr.frames)
			ok := c.HandleCommand(&protocol.Command{Id: 30, SubRefresh: &protocol.SubRefreshRequest{Channel: "ch", Token: "t"}}, 0)
			vSettle()
			same, _, r := vccCountReplies(tr, base, 30)
			if noExpiry {
				vAssert(ok && same == 1 && r.Error == nil && r.SubRefresh != nil && !r.SubRefresh.Expires, "sub refresh reply: no expiration")
				expireAt = start + 1_000_000 // never, as far as this harness goes
				vCover(true, "sub-refreshed-to-no-expiration")
			} else {
				vAssert(ok && same == 1 && r.Error == nil && r.SubRefresh != nil && r.SubRefresh.Expires && r.SubRefresh.Ttl == uint32(newTTL), "sub refresh reply")
				expireAt = start + refreshAt + newTTL
			}
			vCover(true, "sub-refreshed")
		}
		vAdvance(next - elapsed - 1)
		elapsed = next - 1
		vAssert(c.IsSubscribed("ch") == !gone, "no change between ticks")
		base := len(tr.frames)
		vAdvance(1)
		elapsed = next
		nowU := start + elapsed/c36sec
		shouldGo := nowU > expireAt+grace
		if gone {
			continue
		}
		if shouldGo {
			vAssert(!c.IsSubscribed("ch") && !tr.closed, "past expiry plus grace: unsubscribed, connection kept")
			ps := vccPushes(tr, base)
			vAssert(len(ps) == 1 && ps[0].Channel == "ch" && ps[0].Unsubscribe != nil && ps[0].Unsubscribe.Code == UnsubscribeCodeExpired, "unsubscribe push with the expired code")
			vAssert(unsubs == 1, "unsubscribe handler called once")
			gone = true
			vCover(true, "sub-expired")
			vCover(refreshAt >= 0, "sub-expired-after-refresh")
		} else {
			vAssert(c.IsSubscribed("ch") && len(tr.frames) == base, "not past expiry plus grace: still subscribed")
			vCover(nowU > expireAt, "within-grace")
		}
	}
	vCover(!gone, "survived-all-ticks")
}

// vh_C36_liveness_after_expiration_removed: a connection whose expiration is
// removed by a refresh (ExpireAt 0: "no expiration") is not closed at the old
// deadline AND keeps its ping/pong liveness: the pending expire timer op must
// not stop the connection's shared timer.
func vh_C36_liveness_after_expiration_removed() {
	n := vNewNode(Config{})
	serverSide := vChoice("server_side_refresh", 2) == 1
	n.OnConnecting(func(ctx context.Context, e ConnectEvent) (ConnectReply, error) {
		return ConnectReply{ClientSideRefresh: !serverSide}, nil
	})
	tr := vNewTransport() // ping every 25 s, pong timeout 10 s
	exp := c36nowUnix() + 5
	c := c36client(n, tr, exp)
	c.OnRefresh(func(e RefreshEvent, cb RefreshCallback) {
		cb(RefreshReply{ExpireAt: 0}, nil)
	})
	vAssert(vConnect(c) && !tr.closed, "connect")
	vSettle()
	if !serverSide {
		vAdvance(1 * c36sec)
		vAssert(c.HandleCommand(&protocol.Command{Id: 9, Refresh: &protocol.RefreshRequest{Token: "t"}}, 0), "refresh proceeds")
		vSettle()
	}
	// well past the old deadline (5 s + 25 s grace) and past two ping intervals
	pingsBefore := c36countPings(tr)
	for k := 0; k < 8 && !tr.closed; k++ {
		vAdvance(10 * c36sec)
		vSettle()
		// answer every server ping with a pong (an empty command)
		if c36countPings(tr) > pingsBefore {
			pingsBefore = c36countPings(tr)
			c.HandleCommand(&protocol.Command{}, 0)
			vSettle()
		}
	}
	vAssert(!tr.closed, "refreshed to no-expiration: never closed as expired")
	vAssert(c36countPings(tr) >= 2, "server pings continue after the expiration was removed")
	vCover(serverSide, "server-side-refresh")
}

func c36countPings(tr *vTransport) int {
	k := 0
	for _, f := range tr.frames {
		// the JSON server ping is the literal frame {} (not produced by an encoder)
		if len(f) == 2 && f[0] == '{' && f[1] == '}' {
			k++
		}
	}
	return k
}

// (b') a peer that answers every server ping at once (the pong is dispatched
// as soon as the ping frame reaches the transport, on its own thread, the way
// a reader goroutine would) is never disconnected: neither for a missing pong
// nor for an "unsolicited" one. One preemption inside the ping timer callback
// lets the pong be handled before the callback finished its bookkeeping.
func vh_C36_prompt_pong() {
	n := vNewNode(Config{})
	tr := vNewTransport() // ping every 25s, pong within 10s
	c := vNewClient(n, "u1", tr)
	vAssert(vConnect(c), "connect proceeds")
	vSettle()
	pings := 0
	tr.onWrite = func(b []byte) {
		if len(b) == 2 && b[0] == '{' && b[1] == '}' {
			pings++
			go c.HandleCommand(&protocol.Command{}, 0)
		}
	}
	pingEvery := 25 * c36sec
	vPreempt(vParam("c36_pong_preempt", 1))
	vAdvance(pingEvery / 2) // the first ping is due (random source returns 0 => interval/2)
	vSettle()
	vPreempt(0)
	vAssert(pings == 1, "ping sent")
	vAssert(!tr.closed, "a connection that answers the ping at once is not disconnected")
	vAdvance(pingEvery)
	vSettle()
	vAssert(pings == 2 && !tr.closed, "next ping sent on schedule and answered")
	vCover(true, "two-pings-answered")
}
