package centrifuge

import (
	"time"

	"github.com/centrifugal/protocol"
)

// C03: cache recovery delivers the newest visible publication.
//
// vC03Recover is the cache-mode recovery branch of Client.subscribeCmd reduced
// to its two real callees, Node.recoverCache and isCacheRecovered.
func vC03Recover(n *Node, off uint64, epoch string, tf, stf *tagsFilter) ([]*protocol.Publication, bool, StreamPosition) {
	latestPub, recoveredPub, sp, err := n.recoverCache(vRecChanName, 0, tf, stf)
	if err != nil {
		vFail("recoverCache: unexpected error")
	}
	pubs, recovered := isCacheRecovered(latestPub, recoveredPub, sp, off, epoch)
	return pubs, recovered, sp
}

func vh_C03_cache_recover() {
	maxL := vParam("c03_limit", 3)
	L := vInt("maxPublicationLimit")
	vAssume(L >= 0 && L <= maxL)
	c := vRecBuild(vParam("c03_pubs", 3), L)
	off := vU64("offset")
	ek, epoch := c.pickEpoch()
	fk, tf, stf := vRecPickFilters(vParam("c03_filters", 3))

	pubs, recovered, sp := vC03Recover(c.n, off, epoch, tf, stf)

	// ---- reference
	top := c.top
	n := int(top)
	if c.exists {
		vAssert(sp.Offset == top && sp.Epoch == c.epoch, "current position reported")
	}
	newestPresent := vAnd(top > 0, c.kept > 0)
	clientAtTop := vAnd(ek == 1, off == top)
	wantRecovered := vOr(newestPresent, clientAtTop)

	// retained / visible per offset of the ideal log
	retained := make([]bool, n+1)
	visible := make([]bool, n+1)
	anyVisible := false
	for o := 1; o <= n; o++ {
		retained[o] = o > n-c.kept
		visible[o] = vAnd(retained[o], vRecVisible(fk, c.log[o-1].tag))
		anyVisible = vOr(anyVisible, visible[o])
	}
	// visible within the window the recovery limit lets recoverCache scan (only
	// used to delimit the known-finding region below)
	anyVisibleInWindow := anyVisible
	if fk != 0 {
		anyVisibleInWindow = false
		for o := 1; o <= n; o++ {
			inWin := vOr(L <= 0, o > n-L)
			anyVisibleInWindow = vOr(anyVisibleInWindow, vAnd(visible[o], inWin))
		}
	}

	// Divergences confirmed by reading (ignored unless listed as open):
	// (1) newest publication present but no visible publication found =>
	//     recoverCache returns (nil, nil) and recovered=false is reported.
	vKnown("C03-newest-present-none-visible", vAnd(vAnd(newestPresent, vNot(clientAtTop)), vNot(anyVisibleInWindow)))
	// (2) empty stream (top 0) and the client holds exactly (0, epoch):
	//     isCacheRecovered demands cmdOffset > 0.
	vKnown("C03-empty-stream-same-position", vAnd(clientAtTop, top == 0))

	vAssert(vIff(recovered, wantRecovered), "recovered exactly when the newest publication is in history or the client already holds the current position")
	vAssert(len(pubs) <= 1, "at most one publication")
	if !recovered {
		vAssert(len(pubs) == 0, "recovered=false carries no publication")
		vCover(vAnd(top > 0, c.kept == 0), "unrecovered-history-gone")
		vCover(top == 0, "unrecovered-empty-channel")
	}
	if len(pubs) == 1 {
		p := pubs[0]
		o := vConcU64(p.Offset)
		if o < 1 || o > top {
			vFail("delivered publication outside the ideal log")
			return
		}
		vAssert(visible[o], "delivered publication is retained and passes both filters")
		newer := false
		for j := int(o) + 1; j <= n; j++ {
			newer = vOr(newer, visible[j])
		}
		vAssert(vNot(newer), "delivered publication is the NEWEST visible one")
		vAssert(len(p.Data) == 1 && p.Data[0] == byte(0x40+o), "delivered publication content belongs to its offset")
		vCover(o < top, "delivered-older-because-newest-filtered")
		vCover(o == top && fk != 0, "delivered-newest-through-filter")
	}
	vAssert(vImplies(vAnd(vAnd(recovered, vNot(clientAtTop)), anyVisibleInWindow), len(pubs) == 1), "recovered and behind: the newest visible publication is delivered")
	vCover(vAnd(recovered, len(pubs) == 0), "recovered-client-at-top-nothing-delivered")
	vCover(vAnd(vAnd(recovered, clientAtTop), vAnd(top > 0, c.kept == 0)), "recovered-at-top-of-expired-stream")
}

// ---------------------------------------------------------------------------
// End to end: the real Client.subscribeCmd in RecoveryModeCache, including the
// cache-empty handler (populate + retry) and server-forced AutoCacheRecover.

func vh_C03_subscribe_e2e() {
	const ch = "che2e3"
	n := vNewNode(Config{})
	auto := false
	n.OnConnect(func(c *Client) {
		c.OnSubscribe(func(e SubscribeEvent, cb SubscribeCallback) {
			cb(SubscribeReply{Options: SubscribeOptions{EnableRecovery: true, RecoveryMode: RecoveryModeCache, AutoCacheRecover: auto}}, nil)
		})
	})
	// channel: never published | 2 publications live (size 2) | 2 publications, history removed
	shape := vChoice("channel", 3)
	var top uint64
	kept := 0
	curEpoch := ""
	if shape > 0 {
		for k := 0; k < 2; k++ {
			res, err := n.Publish(ch, []byte{byte(0x41 + k)}, WithHistory(2, 60*time.Second))
			if err != nil || res.Offset != uint64(k+1) {
				vFail("c03 e2e builder: publish")
			}
			curEpoch, top = res.Epoch, res.Offset
		}
		kept = 2
		if shape == 2 {
			if n.RemoveHistory(ch) != nil {
				vFail("c03 e2e builder: remove")
			}
			kept = 0
		}
	}
	// cache-empty handler: publishes 0/1 publication and claims Populated or not
	handlerKind := vChoice("handler", vParam("c03_handler_kinds", 4)) // bit0: publishes, bit1: Populated; 4 = no handler
	called := 0
	if handlerKind < 4 {
		n.OnCacheEmpty(func(e CacheEmptyEvent) (CacheEmptyReply, error) {
			called++
			if handlerKind&1 != 0 {
				res, err := n.Publish(ch, []byte{byte(0x41 + top)}, WithHistory(2, 60*time.Second))
				if err != nil {
					vFail("c03 e2e handler: publish")
				}
				if curEpoch == "" {
					curEpoch = res.Epoch
				}
			}
			return CacheEmptyReply{Populated: handlerKind&2 != 0}, nil
		})
	}
	tr := vNewTransport()
	cl := vNewClient(n, "u1", tr)
	if !vConnect(cl) {
		vFail("c03 e2e: connect")
	}
	vSettle()
	// request: 0 epoch "" | 1 current epoch | 2 foreign epoch | 3 no client recovery, server forces it
	rk := vChoice("request", 4)
	off := vU64("offset")
	epoch := ""
	recoverFlag := true
	switch rk {
	case 1:
		vAssume(shape > 0)
		epoch = curEpoch
	case 2:
		epoch = "FOREIGN!"
	case 3:
		auto = true
		recoverFlag = false
		vAssume(off == 0)
	}
	ok := cl.HandleCommand(&protocol.Command{Id: 2, Subscribe: &protocol.SubscribeRequest{Channel: ch, Recover: recoverFlag, Offset: off, Epoch: epoch}}, 0)
	vAssert(ok, "c03 e2e: subscribe handled")
	vSettle()
	rs := vReplies(tr)
	if len(rs) < 2 || rs[1] == nil || rs[1].Id != 2 || rs[1].Error != nil || rs[1].Subscribe == nil {
		vFail("c03 e2e: no successful subscribe reply")
		return
	}
	res := rs[1].Subscribe

	// ---- reference
	handlerExpected := kept == 0 && handlerKind < 4
	vAssert((called == 1) == handlerExpected && called <= 1, "cache-empty handler runs exactly when history holds no publication")
	atTop0 := vAnd(rk == 1, off == top)
	published := handlerExpected && handlerKind&1 != 0
	populatedClaim := handlerExpected && handlerKind&2 != 0
	// state the final verdict is taken on: the retry looks at the channel again
	retried := vAnd(populatedClaim, vNot(atTop0))
	top1, kept1 := top, kept
	if published {
		top1, kept1 = top+1, 1
	}
	var wantRecovered bool
	{
		newest0 := kept > 0
		newest1 := kept1 > 0
		atTop1 := vAnd(rk == 1, off == top1)
		want0 := vOr(newest0, atTop0)
		want1 := vOr(newest1, atTop1)
		wantRecovered = vOr(vAnd(retried, want1), vAnd(vNot(retried), want0))
	}
	vKnown("C03-empty-stream-same-position", vAnd(rk == 1, vAnd(off == 0, top == 0)))
	vAssert(vIff(res.Recovered, wantRecovered), "c03 e2e: recovered exactly when the newest publication is in history or the client holds the current position")
	vAssert(res.WasRecovering, "c03 e2e: was_recovering set for client and server-forced recovery")
	vAssert(len(res.Publications) <= 1, "c03 e2e: at most one publication without delta")
	if !res.Recovered {
		vAssert(len(res.Publications) == 0, "c03 e2e: recovered=false carries no publication")
	}
	if len(res.Publications) == 1 {
		p := res.Publications[0]
		vAssert(p.Offset == top1, "c03 e2e: the delivered publication is the newest one")
		vAssert(len(p.Data) == 1 && p.Data[0] == byte(0x40+top1), "c03 e2e: content of the newest publication")
		vCover(published, "e2e-delivered-populated-publication")
		vCover(!published, "e2e-delivered-cached-publication")
	}
	vAssert(vImplies(vAnd(res.Recovered, vNot(vAnd(rk == 1, off == top1))), vOr(len(res.Publications) == 1, kept1 == 0)), "c03 e2e: recovered and behind: the newest publication is delivered")
	vCover(vAnd(res.Recovered, rk == 3), "e2e-auto-cache-recover")
	vCover(vAnd(vNot(res.Recovered), called == 1), "e2e-empty-not-populated")
	vCover(vAnd(res.Recovered, vAnd(len(res.Publications) == 0, kept1 > 0)), "e2e-recovered-at-top")
}

// ---------------------------------------------------------------------------
// Populate-and-retry with tags filters: the channel has no history, the
// cache-empty handler publishes two publications with symbolic tag values and
// claims Populated, so the verdict is taken by the second recoverCache call.
// The reply carries the newest publication that passes BOTH the server and the
// client tags filter, or none. (Filter scaffolding shared with C16.)
func vh_C03_populated_retry_filtered() {
	e := vC16Setup(SubscribeOptions{EnableRecovery: true, RecoveryMode: RecoveryModeCache}, "c03_filter_pairs", false)
	populated := 0
	e.n.OnCacheEmpty(func(ev CacheEmptyEvent) (CacheEmptyReply, error) {
		populated++
		e.publish(true)
		e.publish(true)
		return CacheEmptyReply{Populated: true}, nil
	})
	e.connect()
	e.subscribeCmd(&protocol.SubscribeRequest{Recover: true})
	vSettle()
	vAssert(populated == 1, "cache-empty handler ran once")
	var got []*protocol.Publication
	for _, r := range vReplies(e.tr) {
		if r != nil && r.Id == 2 && r.Subscribe != nil {
			got = r.Subscribe.Publications
		}
	}
	vAssert(len(got) <= 1, "at most one publication without delta")
	// newest visible publication of the populated channel
	want := -1
	for k := len(e.pubs) - 1; k >= 0 && want < 0; k-- {
		if !e.excluded(e.pubs[k]) { // forks on the symbolic tag values
			want = k
		}
	}
	if want < 0 {
		vAssert(len(got) == 0, "nothing visible: nothing delivered")
		vCover(true, "all-filtered")
		return
	}
	vAssert(len(got) == 1, "the newest visible publication is delivered")
	if len(got) == 1 {
		p, ok := e.byData(got[0].Data)
		vAssert(ok && p.data == e.pubs[want].data, "delivered publication is the newest one passing both filters")
		vAssert(got[0].Offset == uint64(want+1), "delivered publication carries its offset")
	}
	vCover(want == 0, "newest-filtered-older-delivered")
	vCover(want == 1, "newest-delivered")
}
