package centrifuge

import "context"

// C21: paginating a map channel's state (real MemoryMapBroker.ReadState ->
// mapHub.getState with sortedKeys cache, findOrderedCursorPosition /
// findUnorderedCursorPosition, MakeOrderedCursor / parseOrderedCursor) yields
// every key exactly once in the channel's sort order, every non-final page is
// non-empty, and a single-key read returns exactly the stored entry.
//
// Keys are concrete (<= 4, inserted out of order, one is a prefix of another,
// one contains a NUL byte); the SCORES ARE SYMBOLIC int64 (ties, MinInt64,
// MaxInt64 arise by themselves); page size, direction, ordered/unordered and
// a cache-warming read are enumerated.

var c21keys = []string{"b", "a", "ab", "a\x00"}

func vh_C21_pages() {
	maxN := vParam("c21_n", 3)
	ctx := context.Background()
	const ch = "m"
	ordered := vChoice("ordered", 2) == 1
	opts := &MapChannelOptions{Mode: MapModePersistent, ordered: ordered}
	_, b, _ := vmBroker(opts, false)
	n := 1 + vChoice("nkeys", maxN)
	asc := false
	if ordered || vParam("c21_unordered_asc", 0) == 1 {
		asc = vChoice("asc", 2) == 1
	}
	limit := 1 + vChoice("page_size", n)
	// warm: 0 = cold cache; 1 = a read in the same direction before the last
	// key is written (stale sortedKeys must be rebuilt); 2 = a read in the
	// opposite direction after the last write (direction change must re-sort)
	warm := vChoice("warm", vParam("c21_warm", 3))

	scores := make([]int64, n)
	data := make([]byte, n)
	for k := 0; k < n; k++ {
		if ordered {
			scores[k] = vI64("score")
		}
		data[k] = byte(10 + k)
		if warm == 1 && k == n-1 {
			_, err := b.ReadState(ctx, ch, MapReadStateOptions{Limit: -1, Asc: asc})
			vAssert(err == nil, "warm-read-ok")
		}
		res, err := b.Publish(ctx, ch, c21keys[k], MapPublishOptions{Data: []byte{data[k]}, score: scores[k]})
		vAssert(err == nil && !res.Suppressed, "setup-publish")
	}
	if warm == 2 {
		_, err := b.ReadState(ctx, ch, MapReadStateOptions{Limit: 1, Asc: !asc})
		vAssert(err == nil, "warm-read-ok")
	}
	idx := func(key string) int {
		for k := 0; k < n; k++ {
			if c21keys[k] == key {
				return k
			}
		}
		return -1
	}

	// follow the cursors
	var got []*Publication
	cursor := ""
	pages := 0
	for {
		res, err := b.ReadState(ctx, ch, MapReadStateOptions{Limit: limit, Cursor: cursor, Asc: asc})
		vAssert(err == nil, "page-read-ok")
		vAssert(len(res.Publications) <= limit, "page-within-limit")
		got = append(got, res.Publications...)
		pages++
		if res.Cursor == "" {
			break
		}
		vAssert(len(res.Publications) > 0, "progress: non-final page is non-empty")
		if pages > n {
			vFail("pagination-terminates")
			return
		}
		cursor = res.Cursor
	}
	vCover(pages > 1, "several-pages")
	vAssert(len(got) == n, "every-key-once: count")
	for k, p := range got {
		i := idx(p.Key)
		vAssert(i >= 0, "entry-is-a-stored-key")
		if i < 0 {
			return
		}
		vAssert(len(p.Data) == 1 && p.Data[0] == data[i] && p.Offset == uint64(i+1), "entry-is-the-stored-one")
		vAssert(p.Score == scores[i], "entry-score")
		if k+1 < len(got) {
			q := got[k+1]
			j := idx(q.Key)
			if j < 0 {
				continue
			}
			// strict order => also no duplicates
			var inOrder bool
			if !ordered {
				inOrder = p.Key < q.Key
			} else if asc {
				inOrder = vOr(scores[i] < scores[j], vAnd(scores[i] == scores[j], p.Key < q.Key))
			} else {
				inOrder = vOr(scores[i] > scores[j], vAnd(scores[i] == scores[j], p.Key > q.Key))
			}
			vAssert(inOrder, "strict-sort-order-across-pages")
			if ordered {
				vCover(scores[i] == scores[j], "tie-broken-by-key")
			}
		}
	}
}

// Single-key reads: after publish / overwrite / remove with symbolic payload
// byte and score, ReadState{Key: k} returns exactly the stored entry (or
// nothing for an absent key), whatever Limit/Cursor say.
func vh_C21_single() {
	ctx := context.Background()
	const ch = "m"
	ordered := vChoice("ordered", 2) == 1
	opts := &MapChannelOptions{Mode: MapModePersistent, ordered: ordered}
	_, b, _ := vmBroker(opts, false)
	d1, d2, d3 := vByte("d1"), vByte("d2"), vByte("d3")
	s1, s2, s3 := vI64("s1"), vI64("s2"), vI64("s3")
	pub := func(key string, d byte, s int64) {
		res, err := b.Publish(ctx, ch, key, MapPublishOptions{Data: []byte{d}, score: s})
		vAssert(err == nil && !res.Suppressed, "setup-publish")
	}
	pub("a", d1, s1)  // offset 1
	pub("b", d2, s2)  // offset 2
	pub("a", d3, s3)  // offset 3 overwrites a
	pub("c", d1, s1)  // offset 4
	_, err := b.Remove(ctx, ch, "c", MapRemoveOptions{}) // offset 5
	vAssert(err == nil, "setup-remove")
	lim := vChoice("limit", 3) - 1
	cur := ""
	if vChoice("cursor", 2) == 1 {
		cur = "zz"
		if ordered {
			cur = MakeOrderedCursor("5", "zz")
		}
	}
	read := func(key string) []*Publication {
		res, err := b.ReadState(ctx, ch, MapReadStateOptions{Key: key, Limit: lim, Cursor: cur})
		vAssert(err == nil, "single-read-ok")
		vAssert(res.Position.Offset == 5, "single-read-position")
		return res.Publications
	}
	a := read("a")
	vAssert(len(a) == 1, "single: one entry")
	if len(a) == 1 {
		vAssert(a[0].Key == "a" && len(a[0].Data) == 1 && a[0].Data[0] == d3 && a[0].Offset == 3 && a[0].Score == s3 && !a[0].Removed, "single: latest stored entry of a")
	}
	bb := read("b")
	vAssert(len(bb) == 1, "single: one entry")
	if len(bb) == 1 {
		vAssert(bb[0].Key == "b" && len(bb[0].Data) == 1 && bb[0].Data[0] == d2 && bb[0].Offset == 2 && bb[0].Score == s2, "single: stored entry of b")
	}
	vAssert(len(read("c")) == 0, "single: removed key absent")
	vAssert(len(read("ab")) == 0, "single: never-written key absent")
}
