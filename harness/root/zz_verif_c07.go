package centrifuge

import "github.com/centrifugal/protocol"

// C07: join and leave events of one subscription, as seen by another
// subscriber with join/leave pushes, are paired and ordered: at most one join,
// at most one leave, the leave never before the join, and both present iff
// the subscription was established and ended. Threads: the subject's
// subscribe command races the subject's unsubscribe command or close, under
// every schedule within the preemption bound.
func vh_C07_join_leave_order() {
	// per-channel write batching on the observer's connection: off, or a delay
	// (pushes are then flushed by a virtual-timer event)
	batching := vChoice("batching", 2) == 1
	cfg := Config{}
	if batching {
		cfg.GetChannelBatchConfig = func(ch string) ChannelBatchConfig {
			return ChannelBatchConfig{MaxDelay: 100_000_000}
		}
	}
	n := vNewNode(cfg)
	n.OnConnect(func(c *Client) {
		c.OnSubscribe(func(e SubscribeEvent, cb SubscribeCallback) {
			cb(SubscribeReply{Options: SubscribeOptions{EmitJoinLeave: true, PushJoinLeave: true}}, nil)
		})
	})
	// observer
	otr := vNewTransport()
	obs := vNewClient(n, "observer", otr)
	vAssert(vConnect(obs), "observer connects")
	vAssert(obs.HandleCommand(&protocol.Command{Id: 2, Subscribe: &protocol.SubscribeRequest{Channel: "ch"}}, 0), "observer subscribes")
	vSettle()
	// subject
	str := vNewTransport()
	sub := vNewClient(n, "subject", str)
	vAssert(vConnect(sub), "subject connects")
	vSettle()
	base := len(otr.frames)

	ender := vChoice("ender", 3) // 0 = client unsubscribe command, 1 = close, 2 = server-side Unsubscribe
	first := vChoice("first", 3) // 0/1: racing threads, which one is started first; 2: strictly sequential
	subDone := false
	overlap := false // the ending operation started before the subscribe command returned
	subscribe := func() {
		sub.HandleCommand(&protocol.Command{Id: 2, Subscribe: &protocol.SubscribeRequest{Channel: "ch"}}, 0)
		subDone = true
	}
	end := func() {
		if !subDone {
			overlap = true
		}
		switch ender {
		case 0:
			sub.HandleCommand(&protocol.Command{Id: 3, Unsubscribe: &protocol.UnsubscribeRequest{Channel: "ch"}}, 0)
		case 1:
			_ = sub.close(DisconnectForceNoReconnect)
		default:
			sub.Unsubscribe("ch")
		}
	}
	vPreempt(vParam("c07_preempt", 1))
	switch first {
	case 0:
		go subscribe()
		go end()
	case 1:
		go end()
		go subscribe()
	default:
		vPreempt(0)
		subscribe()
		vSettle()
		end()
	}
	vSettle()
	vPreempt(0)
	// make sure the subscription has ended before judging pairing
	_ = sub.close(DisconnectForceNoReconnect)
	vSettle()
	if batching {
		vAdvance(200_000_000) // flush the observer's per-channel batches
		vSettle()
	}

	joins, leaves := 0, 0
	firstJoin, firstLeave := -1, -1
	for k := base; k < len(otr.frames); k++ {
		p, _ := vDecoded(otr.frames[k]).(*protocol.Reply)
		if p == nil || p.Push == nil || p.Push.Channel != "ch" {
			continue
		}
		if p.Push.Join != nil && p.Push.Join.Info != nil && p.Push.Join.Info.User == "subject" {
			joins++
			if firstJoin < 0 {
				firstJoin = k
			}
		}
		if p.Push.Leave != nil && p.Push.Leave.Info != nil && p.Push.Leave.Info.User == "subject" {
			leaves++
			if firstLeave < 0 {
				firstLeave = k
			}
		}
	}
	vAssert(joins <= 1, "at-most-one-join")
	vAssert(leaves <= 1, "at-most-one-leave")
	vAssert(joins == leaves, "join-and-leave-paired")
	if joins == 1 && leaves == 1 {
		// Known finding C07-leave-overtakes-join: the subscribe callback
		// publishes the join after the subscription was committed (wait gate
		// released), so an end of the subscription racing that window emits
		// its leave first; observers then see [leave, join].
		vKnown("C07-leave-overtakes-join", overlap && firstLeave < firstJoin)
		vAssert(firstJoin < firstLeave, "join-before-leave")
	}
	vCover(joins == 1, "subscription-established")
	vCover(joins == 0, "subscription-never-established")
	vCover(first == 2 && joins == 1 && batching, "sequential-with-batching")
}
