package centrifuge

import (
	"github.com/centrifugal/protocol"
)

// ---------------------------------------------------------------------------
// C16: a subscription without delta encoding never receives a publication
// excluded by its server tags filter or by its client tags filter, on the
// live broadcast, stream recovery (history and window-buffered publications)
// and cache recovery paths.
//
// Filters are single leaves eq / neq / in over key "k" with symbolic 1-byte
// comparison values; publications carry ONE tag whose key is symbolic in
// {"k","x"} (so the filtered key may be absent) and whose value is a symbolic
// byte. The oracle evaluates the leaf semantics directly (see C15 for the
// filter evaluator itself).
// ---------------------------------------------------------------------------

const vC16Ch = "ch"

const vFilterHashFn = "github.com/centrifugal/centrifuge/internal/filter.Hash"

const (
	vFltNone = iota
	vFltEq
	vFltNeq
	vFltIn
)

// vFilterSpec is the harness-side description of one leaf filter.
type vFilterSpec struct {
	kind   int
	v1, v2 byte
}

// vFilterPairs: (server kind, client kind); the first entries cover every kind
// on each side, the rest completes the cross product (at least one filter).
var vFilterPairs = [][2]int{
	{vFltEq, vFltNone}, {vFltNone, vFltNeq}, {vFltIn, vFltEq}, {vFltNeq, vFltIn}, {vFltNone, vFltEq},
	{vFltEq, vFltEq}, {vFltEq, vFltNeq}, {vFltEq, vFltIn}, {vFltNeq, vFltNone}, {vFltNeq, vFltEq},
	{vFltNeq, vFltNeq}, {vFltIn, vFltNone}, {vFltIn, vFltNeq}, {vFltIn, vFltIn}, {vFltNone, vFltIn},
}

func vMkFilter(name string, kind int) (vFilterSpec, *protocol.FilterNode) {
	s := vFilterSpec{kind: kind}
	switch s.kind {
	case vFltEq:
		s.v1 = vByte(name + "_v")
		return s, &protocol.FilterNode{Key: "k", Cmp: "eq", Val: string([]byte{s.v1})}
	case vFltNeq:
		s.v1 = vByte(name + "_v")
		return s, &protocol.FilterNode{Key: "k", Cmp: "neq", Val: string([]byte{s.v1})}
	case vFltIn:
		s.v1 = vByte(name + "_v1")
		s.v2 = vByte(name + "_v2")
		return s, &protocol.FilterNode{Key: "k", Cmp: "in", Vals: []string{string([]byte{s.v1}), string([]byte{s.v2})}}
	}
	return s, nil
}

// excludes: the reference meaning of "the filter excludes a publication whose
// tags are {key: val}" (hasK: the tag key is "k").
func (s vFilterSpec) excludes(hasK bool, val byte) bool {
	switch s.kind {
	case vFltEq:
		return vNot(vAnd(hasK, val == s.v1))
	case vFltNeq:
		return vAnd(hasK, val == s.v1)
	case vFltIn:
		return vNot(vAnd(hasK, vOr(val == s.v1, val == s.v2)))
	}
	return false
}

type vTaggedPub struct {
	hasK bool
	val  byte
	data byte
}

type vC16Env struct {
	n      *Node
	c      *Client
	tr     *vTransport
	srv    vFilterSpec
	cli    vFilterSpec
	cliFlt *protocol.FilterNode
	pubs   []vTaggedPub // by offset-1 (history publications) or publish order
	symKey bool         // the tag key is symbolic in {"k","x"} (else always "k")
}

func (e *vC16Env) excluded(p vTaggedPub) bool {
	return vOr(e.srv.excludes(p.hasK, p.val), e.cli.excludes(p.hasK, p.val))
}

func vC16Setup(opts SubscribeOptions, pairsParam string, symKey bool) *vC16Env {
	pair := vFilterPairs[vChoice("filterPair", vParam(pairsParam, len(vFilterPairs)))]
	e := &vC16Env{symKey: symKey}
	// filter.Hash (protobuf marshal + SHA-256) only identifies a filter; it plays
	// no part in what is delivered.
	vStub(vFilterHashFn, func(f *protocol.FilterNode) [32]byte { return [32]byte{1} })
	var srvFlt *protocol.FilterNode
	e.srv, srvFlt = vMkFilter("serverFilter", pair[0])
	e.cli, e.cliFlt = vMkFilter("clientFilter", pair[1])
	opts.AllowTagsFilter = true
	opts.ServerTagsFilter = srvFlt
	e.n = vNewNode(Config{})
	e.n.OnConnect(func(c *Client) {
		c.OnSubscribe(func(ev SubscribeEvent, cb SubscribeCallback) {
			cb(SubscribeReply{Options: opts}, nil)
		})
	})
	return e
}

func (e *vC16Env) connect() {
	e.tr = vNewTransport()
	e.c = vNewClient(e.n, "u1", e.tr)
	vAssert(vConnect(e.c), "connect")
	vSettle()
}

// publish one publication with a symbolic tag; history optional.
func (e *vC16Env) publish(history bool) vTaggedPub {
	kb := byte('k')
	if e.symKey {
		kb = vByte("tagKey")
		vAssume(vOr(kb == 'k', kb == 'x'))
	}
	p := vTaggedPub{hasK: kb == 'k', val: vByte("tagVal"), data: byte('a' + len(e.pubs))}
	tags := map[string]string{string([]byte{kb}): string([]byte{p.val})}
	opts := []PublishOption{WithTags(tags)}
	if vParam("c16_notags", 1) == 1 && vChoice("untagged", 2) == 1 {
		// a publication without any tags: the filtered key is absent
		p.hasK = false
		opts = nil
	}
	if history {
		opts = append(opts, WithHistory(8, vHistTTL))
	}
	_, err := e.n.Publish(vC16Ch, []byte{p.data}, opts...)
	vAssert(err == nil, "publish-ok")
	e.pubs = append(e.pubs, p)
	return p
}

func (e *vC16Env) byData(d []byte) (vTaggedPub, bool) {
	if len(d) == 1 {
		for _, p := range e.pubs {
			if p.data == d[0] {
				return p, true
			}
		}
	}
	return vTaggedPub{}, false
}

// check asserts the property over everything the connection received.
func (e *vC16Env) check(subID uint32) (delivered int) {
	for _, r := range vReplies(e.tr) {
		if r == nil {
			continue
		}
		var got []*protocol.Publication
		if r.Id == subID && r.Subscribe != nil {
			got = r.Subscribe.Publications
		} else if r.Push != nil && r.Push.Pub != nil {
			got = []*protocol.Publication{r.Push.Pub}
		}
		for _, gp := range got {
			vAssert(gp.Time != -1, "no-filter-marker-delivered")
			p, ok := e.byData(gp.Data)
			vAssert(ok, "delivered-publication-was-published")
			vAssert(vNot(e.excluded(p)), "excluded-publication-never-delivered")
			delivered++
		}
	}
	return delivered
}

func (e *vC16Env) subscribeCmd(req *protocol.SubscribeRequest) {
	req.Channel = vC16Ch
	req.Tf = e.cliFlt
	ok := e.c.HandleCommand(&protocol.Command{Id: 2, Subscribe: req}, 0)
	vAssert(ok, "subscribe-command-accepted")
	vSettle()
	n := 0
	for _, r := range vReplies(e.tr) {
		if r != nil && r.Id == 2 {
			vAssert(r.Error == nil && r.Subscribe != nil, "subscribe-succeeded")
			n++
		}
	}
	vAssert(n == 1, "one-subscribe-reply")
}

// vh_C16_live: live broadcast to a non-positioned or positioned subscription,
// publication without or with history (offset-0 and offset routes).
func vh_C16_live() {
	positioned := vChoice("positioned", 2) == 1
	history := vChoice("history", 2) == 1
	nPubs := vParam("c16_live_pubs", 1)
	e := vC16Setup(SubscribeOptions{EnablePositioning: positioned}, "c16_live_pairs", true)
	e.connect()
	e.subscribeCmd(&protocol.SubscribeRequest{})
	anyAllowed, anyExcluded := false, false
	for k := 0; k < nPubs; k++ {
		p := e.publish(history)
		anyAllowed = vOr(anyAllowed, vNot(e.excluded(p)))
		anyExcluded = vOr(anyExcluded, e.excluded(p))
	}
	vSettle()
	d := e.check(2)
	vAssert(!e.tr.closed, "connection-stays-open")
	vCover(d > 0, "allowed-publication-delivered")
	vCover(vAnd(d == 0, anyExcluded), "excluded-publication-withheld")
	_ = anyAllowed
}

// vh_C16_stream_recovery: history publications with symbolic tags, subscribe
// with recovery from a symbolic offset; optionally one more publication lands
// inside the subscribe window (buffered before / after the history read) and
// (c16_rec_live=1) one arrives live afterwards.
func vh_C16_stream_recovery() {
	nHist := vParam("c16_hist", 1) - vChoice("fewer", vParam("c16_hist", 1))
	window := vChoice("publicationInWindow", 3) // 0 none, 1 before, 2 after the history read
	e := vC16Setup(SubscribeOptions{EnableRecovery: true}, "c16_rec_pairs", vParam("c16_rec_symkey", 0) == 1)
	hb := vInstallHookBroker(e.n)
	for k := 0; k < nHist; k++ {
		e.publish(true)
	}
	top, _ := e.n.streamTop(vC16Ch, 0)
	e.connect()
	off := vU64("reqOffset")
	vAssume(off <= uint64(nHist))
	if window != 0 {
		w := func() { e.publish(true) }
		if window == 2 {
			hb.afterHistory = w
		} else {
			hb.beforeHistory = w
		}
		hb.armed = true
	}
	e.subscribeCmd(&protocol.SubscribeRequest{Recover: true, Offset: off, Epoch: top.Epoch})
	hb.armed = false
	if vParam("c16_rec_live", 0) == 1 {
		e.publish(true)
	}
	vSettle()
	d := e.check(2)
	vAssert(!e.tr.closed, "connection-stays-open")
	vCover(d >= 2, "several-delivered")
	vCover(d >= 1, "delivered")
	vCover(d == 0, "all-withheld")
}

// vh_C16_cache_recovery: RecoveryModeCache; the reply carries at most the
// newest publication that passes both filters.
func vh_C16_cache_recovery() {
	nHist := vParam("c16_cache_hist", 2) - vChoice("fewer", vParam("c16_cache_hist", 2))
	e := vC16Setup(SubscribeOptions{EnableRecovery: true, RecoveryMode: RecoveryModeCache}, "c16_rec_pairs", vParam("c16_rec_symkey", 0) == 1)
	for k := 0; k < nHist; k++ {
		e.publish(true)
	}
	top, _ := e.n.streamTop(vC16Ch, 0)
	e.connect()
	off := vU64("reqOffset")
	vAssume(off <= uint64(nHist))
	e.subscribeCmd(&protocol.SubscribeRequest{Recover: true, Offset: off, Epoch: top.Epoch})
	if vParam("c16_rec_live", 0) == 1 {
		e.publish(true)
	}
	vSettle()
	d := e.check(2)
	vAssert(!e.tr.closed, "connection-stays-open")
	vCover(d >= 1, "delivered")
	vCover(d == 0, "all-withheld")
}
