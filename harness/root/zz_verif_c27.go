package centrifuge

import (
	"time"

	"github.com/centrifugal/centrifuge/internal/controlpb"
	"github.com/centrifugal/centrifuge/internal/controlproto"
)

// C27: node-level Subscribe / Unsubscribe / Disconnect / Refresh act the same
// on a matching connection whether it lives on the calling node (local path:
// Node.X -> Hub.x -> Client.X) or on another node (remote path: Node.X ->
// pubX -> control command -> handleControl of a second node -> Hub.x ->
// Client.X). The four Client methods are replaced by recording stubs; the
// observable is "was the connection targeted" and "with which effective
// arguments/options". The same connection identity (client id, session, user,
// labels) is registered in the hub of the calling node A and of a second node B.

const (
	vC27Sub     = "(*github.com/centrifugal/centrifuge.Client).Subscribe"
	vC27Unsub   = "(*github.com/centrifugal/centrifuge.Client).Unsubscribe"
	vC27Disc    = "(*github.com/centrifugal/centrifuge.Client).Disconnect"
	vC27Refresh = "(*github.com/centrifugal/centrifuge.Client).Refresh"
	vC27Enc     = "(*github.com/centrifugal/centrifuge/internal/controlproto.ProtobufEncoder).EncodeCommand"
	vC27Dec     = "(*github.com/centrifugal/centrifuge/internal/controlproto.ProtobufDecoder).DecodeCommand"
)

// vC27Controller records what node A publishes to the control channel.
type vC27Controller struct {
	msgs  [][]byte
	nodes []string
}

func (c *vC27Controller) RegisterControlEventHandler(ControlEventHandler) error { return nil }
func (c *vC27Controller) PublishControl(data []byte, nodeID, shardKey string) error {
	c.msgs = append(c.msgs, data)
	c.nodes = append(c.nodes, nodeID)
	return nil
}

type vC27Rec struct {
	calls   int
	ch      string
	sub     SubscribeOptions
	nargs   int
	unsub   Unsubscribe
	disc    Disconnect
	refresh RefreshOptions
}

type vC27World struct {
	a, b   *Node
	ctl    *vC27Controller
	cl, cr *Client
	recL   *vC27Rec
	recR   *vC27Rec
	user   string // user of the call
	cmds   []*controlpb.Command
}

// vC27Node: by default a Node literal with exactly the fields the four
// operations and handleControl touch (uid, hub, codec, node registry); with
// c27_real_new=1 the real New (about 0.35M interpreted steps per node, spent
// on allocating 2x16384 lock shards the operations never use).
func vC27Node(name string) *Node {
	if vParam("c27_real_new", 0) == 1 {
		return vNewNode(Config{Name: name})
	}
	uid := "uid-" + name
	n := &Node{
		uid:            uid,
		nodes:          newNodeRegistry(uid),
		config:         Config{Name: name},
		shutdownCh:     make(chan struct{}),
		controlEncoder: controlproto.NewProtobufEncoder(),
		controlDecoder: controlproto.NewProtobufDecoder(),
		clientEvents:   &eventHub{},
		surveyRegistry: make(map[uint64]chan survey),
	}
	n.hub = newHub(nil, nil, 0)
	return n
}

// vC27Setup builds the two nodes and the twin connections and installs the
// recording stubs.
func vC27Setup() *vC27World {
	w := &vC27World{recL: &vC27Rec{}, recR: &vC27Rec{}}
	w.a = vC27Node("A")
	w.b = vC27Node("B")
	w.ctl = &vC27Controller{}
	w.a.SetController(w.ctl)
	if vParam("c27_codec_stub", 1) == 1 {
		// Codec stub (identity): the encoded frame is a 1-byte handle to the
		// command struct. Assumption: the vtprotobuf codec round-trips every
		// field of controlpb.Command (dependency-generated code).
		vStub(vC27Enc, func(e *controlproto.ProtobufEncoder, cmd *controlpb.Command) ([]byte, error) {
			w.cmds = append(w.cmds, cmd)
			return []byte{byte(len(w.cmds) - 1)}, nil
		})
		vStub(vC27Dec, func(e *controlproto.ProtobufDecoder, data []byte) (*controlpb.Command, error) {
			return w.cmds[int(data[0])], nil
		})
	}
	// connection identity
	cuser := "u1"
	if vChoice("conn_anonymous", 2) == 1 {
		cuser = ""
	}
	labels := map[string]string{"k": "p"}
	w.cl = &Client{uid: "c1", session: "s1", user: cuser, node: w.a, labels: labels}
	w.cr = &Client{uid: "c1", session: "s1", user: cuser, node: w.b, labels: labels}
	w.a.hub.add(w.cl)
	w.b.hub.add(w.cr)
	switch vChoice("call_user", 3) {
	case 0:
		w.user = "u1"
	case 1:
		w.user = ""
	default:
		w.user = "u2"
	}
	rec := func(c *Client) *vC27Rec {
		if c == w.cl {
			return w.recL
		}
		if c == w.cr {
			return w.recR
		}
		vFail("stub called for an unknown client")
		return nil
	}
	vStub(vC27Sub, func(c *Client, channel string, opts ...SubscribeOption) error {
		r := rec(c)
		r.calls++
		r.ch = channel
		o := &SubscribeOptions{}
		for _, opt := range opts {
			opt(o)
		}
		r.sub = *o
		return nil
	})
	vStub(vC27Unsub, func(c *Client, ch string, unsubscribe ...Unsubscribe) {
		r := rec(c)
		r.calls++
		r.ch = ch
		r.nargs = len(unsubscribe)
		// effective value as Client.Unsubscribe computes it
		r.unsub = unsubscribeServer
		if len(unsubscribe) > 0 {
			r.unsub = unsubscribe[0]
		}
	})
	vStub(vC27Disc, func(c *Client, disconnect ...Disconnect) {
		r := rec(c)
		r.calls++
		r.nargs = len(disconnect)
		r.disc = DisconnectForceNoReconnect
		if len(disconnect) > 0 {
			r.disc = disconnect[0]
		}
	})
	vStub(vC27Refresh, func(c *Client, opts ...RefreshOption) error {
		r := rec(c)
		r.calls++
		o := &RefreshOptions{}
		for _, opt := range opts {
			opt(o)
		}
		r.refresh = *o
		return nil
	})
	return w
}

// vC27Target returns symbolic targeting values: client id, session id (each
// unset, or a symbolic string of the length of the real id), label filter
// (nil, or one of a few shapes with symbolic leaf values).
func vC27Target() (cid string, hasCid bool, sid string, hasSid bool, lf *FilterNode) {
	if vChoice("with_client", 2) == 1 {
		hasCid = true
		cid = vString("client_id", 2)
	}
	if vChoice("with_session", 2) == 1 {
		hasSid = true
		sid = vString("session_id", 2)
	}
	switch vChoice("label_filter", vParam("c27_filters", 3)) {
	case 0:
	case 1:
		lf = &FilterNode{Key: "k", Cmp: "eq", Val: vString("lf_val", 1)}
	case 2:
		lf = &FilterNode{Op: "not", Nodes: []*FilterNode{{Key: "k", Cmp: "in", Vals: []string{vString("lf_val", 1), "q"}}}}
	default:
		lf = &FilterNode{Op: "and", Nodes: []*FilterNode{{Key: "k", Cmp: "ex"}, {Key: "k", Cmp: "neq", Val: vString("lf_val", 1)}}}
	}
	return
}

func vC27Bytes(name string) []byte {
	if vChoice(name+"_len", 2) == 0 {
		return nil
	}
	return vBytes(name, 1)
}

// vC27Deliver hands every control message node A published to node B.
func (w *vC27World) deliver() {
	vAssert(len(w.ctl.msgs) == 1, "exactly one control message published")
	for k, m := range w.ctl.msgs {
		vAssert(w.ctl.nodes[k] == "", "control message addressed to all nodes")
		err := w.b.HandleControl(m)
		vAssert(err == nil, "remote node handles the control message")
	}
}

func (w *vC27World) sameTargeting() bool {
	vAssert(w.recL.calls <= 1, "local connection targeted at most once")
	vAssert(w.recR.calls <= 1, "remote connection targeted at most once")
	vAssert(w.recL.calls == w.recR.calls, "same targeting decision local and remote")
	vCover(w.recL.calls == 1, "targeted")
	vCover(w.recL.calls == 0, "not-targeted")
	return w.recL.calls == 1 && w.recR.calls == 1
}

func vh_C27_subscribe() {
	w := vC27Setup()
	cid, hasCid, sid, hasSid, lf := vC27Target()
	ch := vString("channel", 1)
	expireAt := vI64("expire_at")
	chanInfo := vC27Bytes("channel_info")
	emitPresence := vBool("emit_presence")
	emitJoinLeave := vBool("emit_join_leave")
	pushJoinLeave := vBool("push_join_leave")
	positioning := vBool("positioning")
	recovery := vBool("recovery")
	mode := vU8("recovery_mode")
	data := vC27Bytes("data")
	autoCache := vBool("auto_cache_recover")
	source := vU8("source")
	metaTTL := vI64("history_meta_ttl")
	allUsers := vBool("all_users")
	var since *StreamPosition
	if vChoice("recover_since", 2) == 1 {
		since = &StreamPosition{Offset: vU64("since_offset"), Epoch: vString("since_epoch", 1)}
	}
	opts := []SubscribeOption{
		WithExpireAt(expireAt), WithChannelInfo(chanInfo), WithEmitPresence(emitPresence),
		WithEmitJoinLeave(emitJoinLeave), WithPushJoinLeave(pushJoinLeave), WithPositioning(positioning),
		WithRecovery(recovery), WithRecoveryMode(RecoveryMode(mode)), WithSubscribeData(data),
		WithRecoverSince(since), WithAutoCacheRecover(autoCache), WithSubscribeSource(source),
		WithSubscribeHistoryMetaTTL(time.Duration(metaTTL)), WithSubscribeAllUsers(allUsers),
	}
	if hasCid {
		opts = append(opts, WithSubscribeClient(cid))
	}
	if hasSid {
		opts = append(opts, WithSubscribeSession(sid))
	}
	if lf != nil {
		opts = append(opts, WithSubscribeLabelFilter(lf))
	}
	err := w.a.Subscribe(w.user, ch, opts...)
	vAssert(err == nil, "Node.Subscribe succeeds")
	w.deliver()
	if !w.sameTargeting() {
		return
	}
	l, r := w.recL, w.recR
	vAssert(vAnd(vStrEq(l.ch, r.ch), vStrEq(l.ch, ch)), "channel")
	// the local side is what the caller asked for (sanity of the recording)
	vAssert(l.sub.ExpireAt == expireAt && l.sub.RecoveryMode == RecoveryMode(mode) && l.sub.AutoCacheRecover == autoCache &&
		int64(l.sub.HistoryMetaTTL) == metaTTL && l.sub.Source == source, "local options are the caller's")
	vAssert(l.sub.ExpireAt == r.sub.ExpireAt, "ExpireAt")
	vAssert(vBytesEq(l.sub.ChannelInfo, r.sub.ChannelInfo), "ChannelInfo")
	vAssert(l.sub.EmitPresence == r.sub.EmitPresence, "EmitPresence")
	vAssert(l.sub.EmitJoinLeave == r.sub.EmitJoinLeave, "EmitJoinLeave")
	vAssert(l.sub.PushJoinLeave == r.sub.PushJoinLeave, "PushJoinLeave")
	vAssert(l.sub.EnablePositioning == r.sub.EnablePositioning, "EnablePositioning")
	vAssert(l.sub.EnableRecovery == r.sub.EnableRecovery, "EnableRecovery")
	vAssert(vBytesEq(l.sub.Data, r.sub.Data), "Data")
	vAssert((l.sub.RecoverSince == nil) == (r.sub.RecoverSince == nil), "RecoverSince presence")
	if l.sub.RecoverSince != nil && r.sub.RecoverSince != nil {
		vAssert(l.sub.RecoverSince.Offset == r.sub.RecoverSince.Offset, "RecoverSince.Offset")
		vAssert(vStrEq(l.sub.RecoverSince.Epoch, r.sub.RecoverSince.Epoch), "RecoverSince.Epoch")
		vCover(true, "recover-since-compared")
	}
	vAssert(l.sub.Source == r.sub.Source, "Source")
	// fields no With* option sets stay equal (zero) on both sides
	vAssert(len(l.sub.AllowedDeltaTypes) == len(r.sub.AllowedDeltaTypes) && l.sub.AllowChannelCompaction == r.sub.AllowChannelCompaction &&
		l.sub.AllowTagsFilter == r.sub.AllowTagsFilter && (l.sub.ServerTagsFilter == nil) == (r.sub.ServerTagsFilter == nil) &&
		l.sub.Type == r.sub.Type && l.sub.MapClientPresenceChannel == r.sub.MapClientPresenceChannel &&
		l.sub.MapUserPresenceChannel == r.sub.MapUserPresenceChannel &&
		l.sub.MapRemoveClientOnUnsubscribe == r.sub.MapRemoveClientOnUnsubscribe &&
		l.sub.ClientPublishDebounceInterval == r.sub.ClientPublishDebounceInterval, "fields without an option")
	// Options that controlpb.Subscribe does not carry (known finding regions).
	vKnown("C27-subscribe-recovery-mode-lost", mode != 0)
	vAssert(l.sub.RecoveryMode == r.sub.RecoveryMode, "RecoveryMode")
	vKnown("C27-subscribe-auto-cache-recover-lost", autoCache)
	vAssert(l.sub.AutoCacheRecover == r.sub.AutoCacheRecover, "AutoCacheRecover")
	vKnown("C27-subscribe-history-meta-ttl-lost", metaTTL != 0)
	vAssert(l.sub.HistoryMetaTTL == r.sub.HistoryMetaTTL, "HistoryMetaTTL")
}

func vh_C27_unsubscribe() {
	w := vC27Setup()
	cid, hasCid, sid, hasSid, lf := vC27Target()
	ch := ""
	if vChoice("empty_channel", 2) == 0 {
		ch = vString("channel", 1)
	}
	allUsers := vBool("all_users")
	opts := []UnsubscribeOption{WithUnsubscribeAllUsers(allUsers)}
	custom := vChoice("custom_unsubscribe", 2) == 1
	var cu Unsubscribe
	if custom {
		cu = Unsubscribe{Code: vU32("unsub_code"), Reason: vString("unsub_reason", 1)}
		opts = append(opts, WithCustomUnsubscribe(cu))
	}
	if hasCid {
		opts = append(opts, WithUnsubscribeClient(cid))
	}
	if hasSid {
		opts = append(opts, WithUnsubscribeSession(sid))
	}
	if lf != nil {
		opts = append(opts, WithUnsubscribeLabelFilter(lf))
	}
	err := w.a.Unsubscribe(w.user, ch, opts...)
	vAssert(err == nil, "Node.Unsubscribe succeeds")
	w.deliver()
	if !w.sameTargeting() {
		return
	}
	l, r := w.recL, w.recR
	vAssert(vAnd(vStrEq(l.ch, r.ch), vStrEq(l.ch, ch)), "channel")
	vAssert(l.unsub.Code == r.unsub.Code, "Unsubscribe.Code")
	vAssert(vStrEq(l.unsub.Reason, r.unsub.Reason), "Unsubscribe.Reason")
	if custom {
		vAssert(vAnd(l.unsub.Code == cu.Code, vStrEq(l.unsub.Reason, cu.Reason)), "local unsubscribe is the caller's")
		vCover(true, "custom-unsubscribe-compared")
	}
}

func vh_C27_disconnect() {
	w := vC27Setup()
	cid, hasCid, sid, hasSid, lf := vC27Target()
	allUsers := vBool("all_users")
	opts := []DisconnectOption{WithDisconnectAllUsers(allUsers)}
	custom := vChoice("custom_disconnect", 2) == 1
	var cd Disconnect
	if custom {
		cd = Disconnect{Code: vU32("disc_code"), Reason: vString("disc_reason", 1)}
		opts = append(opts, WithCustomDisconnect(cd))
	}
	switch vChoice("whitelist", 3) {
	case 1:
		opts = append(opts, WithDisconnectClientWhitelist([]string{vString("wl0", 2)}))
	case 2:
		opts = append(opts, WithDisconnectClientWhitelist([]string{"zz", vString("wl1", 2)}))
	}
	if hasCid {
		opts = append(opts, WithDisconnectClient(cid))
	}
	if hasSid {
		opts = append(opts, WithDisconnectSession(sid))
	}
	if lf != nil {
		opts = append(opts, WithDisconnectLabelFilter(lf))
	}
	err := w.a.Disconnect(w.user, opts...)
	vAssert(err == nil, "Node.Disconnect succeeds")
	w.deliver()
	if !w.sameTargeting() {
		return
	}
	l, r := w.recL, w.recR
	vAssert(l.disc.Code == r.disc.Code, "Disconnect.Code")
	vAssert(vStrEq(l.disc.Reason, r.disc.Reason), "Disconnect.Reason")
	if custom {
		vAssert(vAnd(l.disc.Code == cd.Code, vStrEq(l.disc.Reason, cd.Reason)), "local disconnect is the caller's")
		vCover(true, "custom-disconnect-compared")
	}
}

func vh_C27_refresh() {
	w := vC27Setup()
	cid, hasCid, sid, hasSid, lf := vC27Target()
	expired := vBool("expired")
	expireAt := vI64("expire_at")
	info := vC27Bytes("info")
	allUsers := vBool("all_users")
	opts := []RefreshOption{WithRefreshExpired(expired), WithRefreshExpireAt(expireAt), WithRefreshInfo(info), WithRefreshAllUsers(allUsers)}
	if hasCid {
		opts = append(opts, WithRefreshClient(cid))
	}
	if hasSid {
		opts = append(opts, WithRefreshSession(sid))
	}
	if lf != nil {
		opts = append(opts, WithRefreshLabelFilter(lf))
	}
	err := w.a.Refresh(w.user, opts...)
	vAssert(err == nil, "Node.Refresh succeeds")
	w.deliver()
	if !w.sameTargeting() {
		return
	}
	l, r := w.recL, w.recR
	vAssert(l.refresh.Expired == expired && l.refresh.ExpireAt == expireAt, "local options are the caller's")
	vAssert(l.refresh.Expired == r.refresh.Expired, "Expired")
	vAssert(l.refresh.ExpireAt == r.refresh.ExpireAt, "ExpireAt")
	vAssert(vBytesEq(l.refresh.Info, r.refresh.Info), "Info")
	vCover(len(info) > 0, "info-compared")
}
