package centrifuge

import (
	"sync"
	"time"

	"github.com/centrifugal/centrifuge/internal/dissolve"
)

// C26: broker subscription tracks local interest. The real
// Node.addSubscription / Node.removeSubscription and the real deferred
// "dissolve" job closure run against a recording Broker (and MapBroker) whose
// Subscribe / Unsubscribe fail under fresh symbolic booleans.
//
// vh_C26_seq: every sequence of <= N events on one channel with two clients,
// events = add(c_i) | remove(c_i) | remove(c_i, stale generation) | run one of
// the pending deferred jobs (any of them: the dissolver does not keep order; a
// failed job is re-queued as dissolve.runWorker does). After EVERY event:
// local subscribers > 0 => broker-subscribed. After the pending jobs drained:
// broker-subscribed <=> local subscribers > 0.
//
// vh_C26_race: the lock argument is not assumed but checked on the critical
// pair: a deferred job and a first addSubscription run as two threads with a
// preemption budget; whatever the interleaving, subscribers > 0 => subscribed.

const vC26Submit = "(*github.com/centrifugal/centrifuge/internal/dissolve.Dissolver).Submit"

type vC26Broker struct {
	Broker
	mu         sync.Mutex // a scheduling point inside the broker calls
	subscribed bool
	nSub       int
	nUnsub     int
	nSubFail   int
	nUnsubFail int
	noFail     bool
}

func (b *vC26Broker) Subscribe(channels ...string) error {
	b.mu.Lock()
	defer b.mu.Unlock()
	vAssert(len(channels) == 1 && channels[0] == "ch", "broker subscribe names the channel")
	if !b.noFail && vBool("broker_subscribe_fails") {
		b.nSubFail++
		return vErr("verif: subscribe failed")
	}
	b.nSub++
	b.subscribed = true
	return nil
}

func (b *vC26Broker) Unsubscribe(channels ...string) error {
	b.mu.Lock()
	defer b.mu.Unlock()
	vAssert(len(channels) == 1 && channels[0] == "ch", "broker unsubscribe names the channel")
	if !b.noFail && vBool("broker_unsubscribe_fails") {
		b.nUnsubFail++
		return vErr("verif: unsubscribe failed")
	}
	b.nUnsub++
	b.subscribed = false
	return nil
}

// vC26MapBroker: same recorder behind the MapBroker interface.
type vC26MapBroker struct {
	MapBroker
	rec *vC26Broker
}

func (b *vC26MapBroker) Subscribe(channels ...string) error   { return b.rec.Subscribe(channels...) }
func (b *vC26MapBroker) Unsubscribe(channels ...string) error { return b.rec.Unsubscribe(channels...) }

type vC26World struct {
	n     *Node
	rec   *vC26Broker // the broker that serves the channel (stream or map)
	other *vC26Broker // the broker that must not be touched
	isMap bool
	cl    [2]*Client
	gen   [2]uint64 // generation of the current hub entry (0 = none)
	next  uint64
	jobs  []dissolve.Job
}

func vC26Setup(mapChoice bool) *vC26World {
	w := &vC26World{next: 1}
	w.n = vLightNodeOpt(Config{}, false, "ch")
	w.isMap = mapChoice && vChoice("map_channel", 2) == 1
	sb := &vC26Broker{Broker: w.n.broker}
	mb := &vC26Broker{}
	w.n.broker = sb
	w.n.mapBroker = &vC26MapBroker{MapBroker: w.n.mapBroker, rec: mb}
	if w.isMap {
		w.rec, w.other = mb, sb
	} else {
		w.rec, w.other = sb, mb
	}
	for i := range w.cl {
		w.cl[i] = &Client{uid: "c" + string(rune('0'+i)), user: "u", node: w.n, transport: vNewTransport()}
	}
	vStub(vC26Submit, func(d *dissolve.Dissolver, job dissolve.Job) error {
		w.jobs = append(w.jobs, job)
		return nil
	})
	return w
}

func (w *vC26World) add(i int) {
	g := w.next
	w.next++
	_, err := w.n.addSubscription("ch", subInfo{client: w.cl[i], isMap: w.isMap, subGen: g})
	if err == nil {
		w.gen[i] = g
		vCover(true, "add-ok")
	} else {
		// rolled back: if this client had an older entry it was overwritten and
		// then removed by the rollback only when the generation matches (it does)
		w.gen[i] = 0
		vCover(true, "add-failed-rolled-back")
	}
}

func (w *vC26World) remove(i int, stale bool) {
	g := w.gen[i]
	if stale {
		g = 1000 // never issued
	} else {
		w.gen[i] = 0
	}
	if g == 0 {
		g = 999 // nothing registered for this client: any generation
	}
	err := w.n.removeSubscription("ch", w.cl[i], g)
	vAssert(err == nil, "removeSubscription returns nil")
}

// runJob runs pending job k as a dissolver worker does.
func (w *vC26World) runJob(k int) {
	job := w.jobs[k]
	w.jobs = append(w.jobs[:k:k], w.jobs[k+1:]...)
	if err := job(); err != nil {
		w.jobs = append(w.jobs, job)
		vCover(true, "job-failed-requeued")
	}
}

func (w *vC26World) invariant(label string) {
	subs := w.n.hub.NumSubscribers("ch")
	vAssert(!(subs > 0) || w.rec.subscribed, label)
	vAssert(!w.other.subscribed && w.other.nSub == 0, "the other broker kind is never subscribed")
	// reference count of hub entries
	want := 0
	for i := range w.gen {
		if w.gen[i] != 0 {
			want++
		}
	}
	vAssert(subs == want, "hub subscriber count matches the reference")
}

func vh_C26_seq() {
	w := vC26Setup(true)
	maxEv := vParam("c26_events", 5)
	stale := vParam("c26_stale", 0)
	nev := 1 + vChoice("events", maxEv)
	used0, used1 := false, false
	for e := 0; e < nev; e++ {
		// kinds: 0 add c0, 1 remove c0, 2 run job, 3 add c1, 4 remove c1, 5 stale remove c0, 6 stale remove c1
		// (c26_stale: 0 = none, 1 = stale removes of c0 only, 2 = of both clients)
		kinds := 5 + stale
		k := vChoice("event", kinds)
		switch k {
		case 0:
			w.add(0)
			used0 = true
		case 1:
			w.remove(0, false)
			used0 = true
		case 2:
			if len(w.jobs) == 0 {
				vAssume(false) // not an event: no pending job
			}
			w.runJob(vChoice("job", len(w.jobs)))
		case 3:
			if !used0 {
				vAssume(false) // symmetry: the first client touched is c0
			}
			w.add(1)
			used1 = true
		case 4:
			if !used1 {
				vAssume(false) // symmetry: c1 is only removed after it was added once (c0 covers the other case)
			}
			w.remove(1, false)
		case 5:
			w.remove(0, true)
		case 6:
			w.remove(1, true)
		}
		w.invariant("subscribers > 0 => broker-subscribed (after every event)")
	}
	// drain: run pending jobs until none is left; each job may fail a bounded
	// number of times (c26_drain_fail), after that the broker stops failing.
	budget := vParam("c26_drain_fail", 1)
	for len(w.jobs) > 0 {
		before := w.rec.nUnsubFail + w.other.nUnsubFail
		if budget <= 0 {
			w.rec.noFail, w.other.noFail = true, true
		}
		w.runJob(0)
		if w.rec.nUnsubFail+w.other.nUnsubFail > before {
			budget--
		}
		w.invariant("subscribers > 0 => broker-subscribed (while draining)")
	}
	subs := w.n.hub.NumSubscribers("ch")
	vAssert(w.rec.subscribed == (subs > 0), "after jobs drained: broker-subscribed <=> subscribers > 0")
	vCover(subs > 0 && w.rec.subscribed, "settled-subscribed")
	vCover(subs == 0 && w.rec.nSub > 0 && !w.rec.subscribed, "settled-unsubscribed-after-use")
	vCover(w.rec.nUnsubFail > 0, "unsubscribe-failure-seen")
	vCover(w.rec.nSubFail > 0, "subscribe-failure-seen")
}

// vh_C26_race: c0 subscribed and left (job J pending), then J and a fresh
// addSubscription race as threads.
func vh_C26_race() {
	w := vC26Setup(vParam("c26_race_map", 0) == 1)
	w.rec.noFail, w.other.noFail = true, true
	w.add(0)
	w.remove(0, false)
	vAssert(len(w.jobs) == 1, "a deferred unsubscribe job is pending")
	// past the job's initial 1s grace sleep, so that its locked section races
	// with the subscribe below
	vAdvance(2 * int64(time.Second))
	second := vChoice("second_thread", 3)
	w.rec.noFail = vChoice("broker_may_fail", 2) == 0
	w.other.noFail = w.rec.noFail
	vPreempt(vParam("c26_preempt", 1))
	done := 0
	go func() {
		w.runJob(0)
		done++
	}()
	go func() {
		switch second {
		case 0:
			w.add(0)
		case 1:
			w.add(1)
		case 2:
			w.add(1)
			w.remove(1, false)
		}
		done++
	}()
	vSettle()
	vPreempt(0)
	vAdvance(2 * int64(time.Second)) // a failed broker unsubscribe cools down 500ms
	vSettle()
	vAssert(done == 2, "both threads finish")
	w.invariant("subscribers > 0 => broker-subscribed (after racing job and subscribe)")
	budget := 1
	for len(w.jobs) > 0 {
		if budget <= 0 {
			w.rec.noFail, w.other.noFail = true, true
		}
		budget--
		w.runJob(0)
		w.invariant("subscribers > 0 => broker-subscribed (while draining)")
	}
	subs := w.n.hub.NumSubscribers("ch")
	vAssert(w.rec.subscribed == (subs > 0), "after jobs drained: broker-subscribed <=> subscribers > 0")
	vCover(subs > 0, "race-ends-subscribed")
	vCover(subs == 0, "race-ends-unsubscribed")
}
