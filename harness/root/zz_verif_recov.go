package centrifuge

import (
	"time"

	"github.com/centrifugal/protocol"
)

// Shared by C02 / C03: a channel whose history is built by REAL publishes on the
// real MemoryBroker (symbolic history sizes, 1-byte symbolic tag per
// publication), optionally removed / expired / epoch-reset under virtual time,
// while the harness keeps the ideal unbounded log of the current epoch.

const (
	vRecChanName   = "chrec"
	vRecHistTTLSec = 2
	vRecMetaTTLSec = 5
)

type vRecPub struct {
	off uint64
	tag string // 1 symbolic byte
	pub *Publication
}

type vRecChan struct {
	n        *Node
	b        *MemoryBroker
	sink     *vBrokerSink
	exists   bool   // stream metadata exists (epoch known)
	epoch    string // current epoch ("" when !exists)
	oldEpoch string // epoch of a discarded earlier stream ("" if none)
	top      uint64
	kept     int       // retained suffix length; may be symbolic
	log      []vRecPub // publications of the current epoch, log[i].off == i+1
	state    int
}

func (c *vRecChan) publish(size int) {
	tag := vString("tag", 1)
	data := []byte{0}
	res, err := c.b.Publish(vRecChanName, data, PublishOptions{
		HistorySize: size, HistoryTTL: vRecHistTTLSec * time.Second, Tags: map[string]string{"t": tag}})
	if err != nil || res.Suppressed {
		vFail("recov builder: publish failed")
	}
	if !c.exists {
		c.exists = true
		c.epoch = res.Epoch
		c.top = 0
		c.kept = 0
		c.log = nil
	}
	if res.Epoch != c.epoch || res.Offset != c.top+1 {
		vFail("recov builder: unexpected position (C17 territory)")
	}
	c.top = res.Offset
	data[0] = byte(0x40 + res.Offset)
	c.kept = vIteInt(c.kept+1 > size, size, c.kept+1)
	c.log = append(c.log, vRecPub{off: res.Offset, tag: tag, pub: c.sink.recs[len(c.sink.recs)-1].pub})
}

// vRecBuild: npub in 0..maxPub real publishes (history size symbolic in 1..3),
// then one of
//
//	0 live | 1 RemoveHistory | 2 history TTL elapsed (top+epoch survive)
//	3 meta TTL elapsed (stream discarded) + one publish in the new epoch
//	4 meta TTL elapsed, nothing published since (no stream)
//	5 (npub == 0 only) stream created empty by a History call (epoch known, top 0)
func vRecBuild(maxPub int, limit int) *vRecChan {
	b, sink := vNewMemBroker(vRecMetaTTLSec*time.Second, vRecChanName)
	n := b.node
	n.broker = b
	n.config.RecoveryMaxPublicationLimit = limit
	c := &vRecChan{n: n, b: b, sink: sink}
	np := vChoice("npub", maxPub+1)
	for i := 0; i < np; i++ {
		c.publish(vRange("size", 1, 3))
	}
	c.state = vChoice("state", 6)
	switch c.state {
	case 1:
		vAssume(np > 0)
		if c.b.RemoveHistory(vRecChanName) != nil {
			vFail("recov builder: remove failed")
		}
		c.kept = 0
	case 2:
		vAssume(np > 0)
		vAdvanceSec(vRecHistTTLSec + 1)
		c.kept = 0
	case 3, 4:
		vAssume(np > 0)
		vAdvanceSec(vRecMetaTTLSec + 2)
		c.oldEpoch = c.epoch
		c.exists, c.epoch, c.top, c.kept, c.log = false, "", 0, 0, nil
		if c.state == 3 {
			c.publish(2)
			if c.epoch == c.oldEpoch {
				vFail("recov builder: epoch not renewed (C17 territory)")
			}
		}
	case 5:
		vAssume(np == 0)
		_, pos, err := c.b.History(vRecChanName, HistoryOptions{})
		if err != nil || pos.Offset != 0 {
			vFail("recov builder: history on unknown channel")
		}
		c.exists, c.epoch = true, pos.Epoch
	}
	return c
}

// request epoch kinds: 0 "" | 1 current | 2 foreign | 3 epoch of the discarded stream
func (c *vRecChan) pickEpoch() (kind int, epoch string) {
	kind = vChoice("epoch", 4)
	switch kind {
	case 1:
		vAssume(c.exists)
		epoch = c.epoch
	case 2:
		epoch = "FOREIGN!"
	case 3:
		vAssume(c.oldEpoch != "")
		epoch = c.oldEpoch
	}
	return
}

func vRecEqFilter(val string) *tagsFilter {
	return &tagsFilter{filter: &protocol.FilterNode{Key: "t", Cmp: "eq", Val: val}}
}

// filter kinds: 0 none | 1 client filter t == "A" | 2 server filter t == "A" |
// 3 client t == "A" and server t != "B" (thorough)
func vRecPickFilters(nk int) (kind int, tf, stf *tagsFilter) {
	kind = vChoice("filters", nk)
	switch kind {
	case 1:
		tf = vRecEqFilter("A")
	case 2:
		stf = vRecEqFilter("A")
	case 3:
		tf = vRecEqFilter("A")
		stf = &tagsFilter{filter: &protocol.FilterNode{Key: "t", Cmp: "neq", Val: "B"}}
	}
	return
}

// visible is the reference filter verdict for a publication tag.
func vRecVisible(kind int, tag string) bool {
	switch kind {
	case 0:
		return true
	case 1, 2:
		return vStrEq(tag, "A")
	}
	return vAnd(vStrEq(tag, "A"), vNot(vStrEq(tag, "B")))
}
