package centrifuge

import (
	"context"
	"time"

	"github.com/centrifugal/protocol"
)

// C14: delta-encoded publications reconstruct the published data.
//
// The claim is STRUCTURAL. The byte-level fossil delta algorithm and the JSON
// string escaping are dependency code (rolling hash / unsafe) and are replaced
// by injective stand-ins:
//
//   fdelta.Create(a, b)  ->  a 2-byte token {0xFD, idx} (or a token as long as b,
//                            which makes the real code fall back to the full
//                            payload); the harness records (copy of a, copy of
//                            b) under idx, so a token stands for exactly one
//                            (base, target) pair.
//   json.Escape(s)       ->  '"' + s + '"'.
//
// Payload bytes are symbolic. A client model per subscription (per key for map
// and keyed channels) holds the payload it reconstructed last; it accepts a
// delta only when the recorded base equals what it holds, byte for byte, and a
// full payload replaces what it holds. Every publication frame the real code
// writes to the recording transport is fed to the model.

type vC14Pair struct{ base, target []byte }

type vC14Env struct {
	table   []vC14Pair
	longFor [][]byte // Create towards one of these targets returns a patch not smaller than the target
	creates int
	nlong   int
}

func vC14Clone(b []byte) []byte {
	out := make([]byte, len(b))
	copy(out, b)
	return out
}

// vC14Same: a and b are the same slice (same backing array position).
func vC14Same(a, b []byte) bool {
	return len(a) > 0 && len(b) > 0 && &a[0] == &b[0]
}

func vC14Install() *vC14Env {
	env := &vC14Env{}
	vStub("github.com/shadowspore/fossil-delta.Create", func(a, b []byte) []byte {
		idx := len(env.table)
		env.table = append(env.table, vC14Pair{vC14Clone(a), vC14Clone(b)})
		env.creates++
		n := 2
		for _, l := range env.longFor {
			if vC14Same(b, l) && len(b) > n {
				n = len(b)
				env.nlong++
			}
		}
		tok := make([]byte, n)
		tok[0] = 0xFD
		tok[1] = byte(idx)
		return tok
	})
	vStub("github.com/segmentio/encoding/json.Escape", func(s string) []byte {
		out := make([]byte, 0, len(s)+2)
		out = append(out, '"')
		out = append(out, s...)
		out = append(out, '"')
		return out
	})
	// filter.Hash (sha256 of the marshalled filter) only identifies a filter
	// for change detection; not part of this property.
	vStub("github.com/centrifugal/centrifuge/internal/filter.Hash", func(f *protocol.FilterNode) [32]byte {
		return [32]byte{1}
	})
	return env
}

// vC14Model is what a client SDK keeps for one delta stream.
type vC14Model struct {
	has  bool
	held []byte
}

// vC14Apply feeds one received publication to the client model of a
// subscription and demands that it reconstructs want.
//   deltaSub: the subscription negotiated fossil delta
//   isJSON:   JSON transport (delta subscriptions then carry Data as a JSON string)
func vC14Apply(env *vC14Env, m *vC14Model, pub *protocol.Publication, want []byte, deltaSub, isJSON bool) {
	data := pub.Data
	if !deltaSub {
		vAssert(!pub.Delta, "subscription-without-delta-gets-no-delta")
		vAssert(vBytesEq(data, want), "subscription-without-delta-gets-published-payload")
		return
	}
	if isJSON {
		ok := len(data) >= 2
		if ok {
			ok = vAnd(data[0] == '"', data[len(data)-1] == '"')
		}
		vAssert(ok, "json-delta-subscription-data-is-a-json-string")
		data = data[1 : len(data)-1]
	}
	if !pub.Delta {
		vAssert(vBytesEq(data, want), "full-payload-is-the-published-payload")
		m.has = true
		m.held = vC14Clone(data)
		return
	}
	isTok := len(data) >= 2
	if isTok {
		isTok = vAnd(data[0] == 0xFD, int(data[1]) < len(env.table))
	}
	vAssert(isTok, "delta-data-is-a-created-patch")
	d := env.table[int(data[1])]
	vAssert(m.has, "delta-delivered-but-client-holds-no-base")
	vAssert(vBytesEq(m.held, d.base), "delta-base-is-the-payload-the-client-holds")
	vAssert(vBytesEq(d.target, want), "delta-yields-the-published-payload")
	m.held = d.target
}

// ---------------------------------------------------------------- subscribers

type vC14Sub struct {
	c        *Client
	tr       *vTransport
	isJSON   bool
	deltaSub bool
	uni      bool
	useID    bool
	seen     int
	model    vC14Model
	gone     bool // received unsubscribe / disconnect
	npub     int  // publication frames received
	ndelta   int
	nfull    int
}

// vC14Pushes returns the pushes of frames not looked at yet.
func (s *vC14Sub) pushes() []*protocol.Push {
	var out []*protocol.Push
	for ; s.seen < len(s.tr.frames); s.seen++ {
		switch m := vDecoded(s.tr.frames[s.seen]).(type) {
		case *protocol.Reply:
			if m.Push != nil {
				out = append(out, m.Push)
			}
		case *protocol.Push:
			out = append(out, m)
		}
	}
	return out
}

// consume applies every new publication push to the model; all of them must
// reconstruct want (they were caused by the broadcast of that publication).
func (s *vC14Sub) consume(env *vC14Env, want []byte) int {
	got := 0
	for _, p := range s.pushes() {
		if p.Unsubscribe != nil || p.Disconnect != nil {
			s.gone = true
			continue
		}
		if p.Pub == nil {
			continue
		}
		vC14Apply(env, &s.model, p.Pub, want, s.deltaSub, s.isJSON)
		got++
		s.npub++
		if p.Pub.Delta {
			s.ndelta++
		} else {
			s.nfull++
		}
	}
	return got
}

const vC14Chan = "ch"

type vC14NodeOpts struct {
	positioned bool
	medium     bool
	filter     bool // subscriptions may carry a tags filter
}

func vC14Node(o vC14NodeOpts) *Node {
	cfg := Config{}
	if o.medium {
		cfg.GetChannelMediumOptions = func(ch string) ChannelMediumOptions {
			return ChannelMediumOptions{KeepLatestPublication: true}
		}
	}
	n := vNewNode(cfg)
	so := SubscribeOptions{
		EnablePositioning:      o.positioned,
		EnableRecovery:         o.positioned,
		AllowedDeltaTypes:      []DeltaType{DeltaTypeFossil},
		AllowTagsFilter:        true,
		AllowChannelCompaction: true,
	}
	n.OnConnecting(func(ctx context.Context, e ConnectEvent) (ConnectReply, error) {
		if e.Transport.Unidirectional() {
			return ConnectReply{Subscriptions: map[string]SubscribeOptions{vC14Chan: so}}, nil
		}
		return ConnectReply{}, nil
	})
	n.OnConnect(func(c *Client) {
		c.OnSubscribe(func(e SubscribeEvent, cb SubscribeCallback) {
			cb(SubscribeReply{Options: so}, nil)
		})
	})
	return n
}

// vC14Filter is the tags filter used by filtering subscribers: tag "t" == "y".
func vC14Filter() *protocol.FilterNode {
	return &protocol.FilterNode{Key: "t", Cmp: "eq", Val: "y"}
}

// vC14Subscribe connects a client of the given kind and subscribes it to the
// channel through the real command path (server-side subscription for a
// unidirectional transport). kind bits: 1 = protobuf, 2 = delta negotiated,
// 4 = unidirectional, 8 = channel compaction (push carries id, not channel).
func vC14Subscribe(n *Node, user string, kind int, withFilter bool, req *protocol.SubscribeRequest) *vC14Sub {
	s := &vC14Sub{isJSON: kind&1 == 0, deltaSub: kind&2 != 0, uni: kind&4 != 0, useID: kind&8 != 0}
	s.tr = vNewTransport()
	if !s.isJSON {
		s.tr.proto = ProtocolTypeProtobuf
	}
	s.tr.uni = s.uni
	s.c = vNewClient(n, user, s.tr)
	if req == nil {
		req = &protocol.SubscribeRequest{}
	}
	req.Channel = vC14Chan
	if s.deltaSub {
		req.Delta = "fossil"
	}
	if s.useID {
		req.Flag |= subscriptionFlagChannelCompression
	}
	if withFilter {
		req.Tf = vC14Filter()
	}
	if s.uni {
		// what a unidirectional transport does with the decoded connect request
		_ = s.c.unidirectionalConnect(&protocol.ConnectRequest{Subs: map[string]*protocol.SubscribeRequest{vC14Chan: {
			Recover: req.Recover, Offset: req.Offset, Epoch: req.Epoch, Delta: req.Delta,
		}}}, 0, true)
		vSettle()
		return s
	}
	vAssert(vConnect(s.c), "connect proceeds")
	vSettle()
	ok := s.c.HandleCommand(&protocol.Command{Id: 2, Subscribe: req}, 0)
	vAssert(ok, "subscribe proceeds")
	vSettle()
	return s
}

// subscribeResult returns the subscribe result the client received (reply for
// bidirectional, connect push/reply subs entry for unidirectional).
func (s *vC14Sub) subscribeResult() *protocol.SubscribeResult {
	for _, f := range s.tr.frames {
		switch m := vDecoded(f).(type) {
		case *protocol.Reply:
			if m.Subscribe != nil {
				return m.Subscribe
			}
			if m.Connect != nil && m.Connect.Subs != nil {
				if r, ok := m.Connect.Subs[vC14Chan]; ok {
					return r
				}
			}
			if m.Push != nil && m.Push.Connect != nil && m.Push.Connect.Subs != nil {
				if r, ok := m.Push.Connect.Subs[vC14Chan]; ok {
					return r
				}
			}
		case *protocol.Push:
			if m.Connect != nil && m.Connect.Subs != nil {
				if r, ok := m.Connect.Subs[vC14Chan]; ok {
					return r
				}
			}
		}
	}
	return nil
}

func vC14Payload(k int) []byte {
	// lengths 3,4,3,4,...: different publications may differ in length
	return vBytes("payload", 3+k%2)
}

// ------------------------------------------------------------------ part: mixed
//
// Prepared-data cache of subShard.broadcastPublication with several subscribers
// of different kinds on one channel: every subscriber must receive the
// encoding of ITS kind (delta vs full, JSON-string vs raw, broker vs local
// delta), for two consecutive publications.
func vh_C14_mixed() {
	env := vC14Install()
	nsub := vParam("c14_mixed_subs", 2)
	nkind := vParam("c14_mixed_kinds", 4) // 4: json/pb x delta/no; 8: + unidirectional; 16: + channel compaction
	npub := vParam("c14_mixed_pubs", 2)
	mode := vChoice("mode", 3) // 0 positioned  1 history offsets, not positioned, medium  2 no offsets, medium
	n := vC14Node(vC14NodeOpts{positioned: mode == 0, medium: mode != 0})
	var subs []*vC14Sub
	anyDelta, anyPlain := false, false
	for i := 0; i < nsub; i++ {
		kind := vChoice("kind", nkind)
		subs = append(subs, vC14Subscribe(n, "u"+string(rune('a'+i)), kind, false, nil))
		if kind&2 != 0 {
			anyDelta = true
		} else {
			anyPlain = true
		}
	}
	epoch := ""
	base := uint64(0)
	if mode == 0 {
		ctx := subs[0].c.channels[vC14Chan]
		epoch, base = ctx.streamPosition.Epoch, ctx.streamPosition.Offset
	}
	var prev *Publication
	for k := 0; k < npub; k++ {
		pub := &Publication{Data: vC14Payload(k)}
		sp := StreamPosition{}
		if mode != 2 {
			pub.Offset = base + uint64(k) + 1
			sp = StreamPosition{Offset: pub.Offset, Epoch: epoch}
		}
		err := n.HandlePublication(vC14Chan, pub, sp, true, prev)
		vAssert(err == nil, "handle publication ok")
		vSettle()
		for _, s := range subs {
			got := s.consume(env, pub.Data)
			vAssert(got == 1, "every-subscriber-receives-the-publication-once")
			if s.deltaSub && k > 0 {
				vAssert(s.ndelta == k, "delta-subscriber-gets-delta-after-first")
			}
		}
		prev = pub
	}
	vCover(anyDelta && anyPlain, "delta-and-plain-subscribers-mixed")
	vCover(mode == 0 && anyDelta, "positioned-delta")
	vCover(mode == 2 && anyDelta, "medium-local-delta")
}

// -------------------------------------------------------------------- part: seq
//
// One delta subscriber (JSON or Protobuf) joining before the first or the
// second publication, and a sequence of broker deliveries carrying anomalies:
// a delivery lost between broker and node, a delivery made twice, a delivery
// followed by the late arrival of the previous one, a publication whose
// previous publication the broker no longer has, a patch that is not smaller
// than the payload, a publication excluded by the subscriber's tags filter.
const (
	vC14Lost = iota
	vC14Dup
	vC14Late
	vC14PrevNil
	vC14Long
	vC14Filtered
	vC14NoDelta // published without the delta flag (mixed delta / non-delta publishes)
	vC14NAnom
)

func vh_C14_seq() {
	env := vC14Install()
	npub := vParam("c14_seq_pubs", 3)
	nanom := vParam("c14_seq_anoms", 1)
	// 0 positioned
	// 1 positioned + channel medium (KeepLatestPublication)
	// 2 not positioned, publications carry offsets, medium
	// 3 not positioned, no offsets, medium
	// 4 not positioned, publications carry offsets, no medium (never a delta)
	mode := vChoice("mode", 5)
	positioned := mode <= 1
	isPB := vChoice("protobuf", 2)
	flags := make([][vC14NAnom]bool, npub)
	anyFilter := false
	for a := 0; a < nanom; a++ {
		c := vChoice("anomaly", 1+vC14NAnom*npub)
		if c == 0 {
			continue
		}
		kind, at := (c-1)%vC14NAnom, (c-1)/vC14NAnom
		flags[at][kind] = true
		if kind == vC14Filtered {
			anyFilter = true
		}
	}
	n := vC14Node(vC14NodeOpts{positioned: positioned, medium: mode != 0 && mode != 4})
	// an earlier subscriber keeps the channel (and its medium) alive
	early := vC14Subscribe(n, "early", 2|isPB, false, nil)
	ctx := early.c.channels[vC14Chan]
	epoch, base := ctx.streamPosition.Epoch, ctx.streamPosition.Offset
	joinAt := vChoice("join_before_pub", 2)
	var s *vC14Sub
	pubs := make([]*Publication, npub)
	for k := 0; k < npub; k++ {
		pubs[k] = &Publication{Data: vC14Payload(k), Tags: map[string]string{"t": "y"}}
		if flags[k][vC14Filtered] {
			pubs[k].Tags["t"] = "n"
		}
		if mode != 3 {
			pubs[k].Offset = base + uint64(k) + 1
		}
		if flags[k][vC14Long] {
			env.longFor = append(env.longFor, pubs[k].Data)
		}
	}
	deliver := func(k int) {
		pub := pubs[k]
		sp := StreamPosition{}
		if mode != 3 {
			sp = StreamPosition{Offset: pub.Offset, Epoch: epoch}
		}
		var prev *Publication
		if k > 0 && !flags[k][vC14PrevNil] {
			prev = pubs[k-1] // broker contract: the previous publication of the stream
		}
		useDelta := !flags[k][vC14NoDelta]
		if !useDelta {
			prev = nil // a broker only supplies the previous publication for delta publishes
		}
		err := n.HandlePublication(vC14Chan, pub, sp, useDelta, prev)
		vAssert(err == nil, "handle publication ok")
		vSettle()
		early.consume(env, pub.Data)
		if s != nil {
			s.consume(env, pub.Data)
		}
	}
	for k := 0; k < npub; k++ {
		if k == joinAt {
			s = vC14Subscribe(n, "late", 2|isPB, anyFilter, nil)
			if positioned {
				// the real broker saw no publication: align the subscription
				// with the position of the harness broker's stream
				s.c.mu.Lock()
				cc := s.c.channels[vC14Chan]
				cc.streamPosition = StreamPosition{Offset: base + uint64(k), Epoch: epoch}
				s.c.channels[vC14Chan] = cc
				s.c.mu.Unlock()
			}
		}
		if flags[k][vC14Lost] {
			continue
		}
		deliver(k)
		if flags[k][vC14Dup] {
			deliver(k)
		}
		if flags[k][vC14Late] && k > 0 {
			deliver(k - 1)
		}
	}
	vCover(s.ndelta > 0, "delta-delivered")
	vCover(s.ndelta > 1, "two-deltas-delivered")
	vCover(s.gone, "insufficient-state-instead-of-delta")
	vCover(s.nfull > 1, "full-payload-again-after-first")
	vCover(mode >= 2 && mode <= 3 && s.ndelta > 0, "local-delta-from-medium")
	vCover(anyFilter && s.npub == npub, "filtered-publication-still-delivered-to-delta-subscriber")
	vCover(env.nlong > 0 && s.nfull > 1, "patch-not-smaller-than-payload")
}

// ---------------------------------------------------------------- part: recover
//
// Real MemoryBroker history, real subscribe command with recovery from a
// client-supplied position: the recovered publications of the subscribe reply
// (makeRecoveredPubsDeltaFossil) and the live publications after it (real
// Node.Publish with delta) must all reconstruct. The client is assumed to hold
// the payload of the publication at the offset it recovers from.
func vh_C14_recover() {
	env := vC14Install()
	nhist := vParam("c14_rec_hist", 3)
	nlive := vParam("c14_rec_live", 2)
	histSize := vParam("c14_rec_histsize", 3)
	n := vC14Node(vC14NodeOpts{positioned: true})
	kind := 2 | vChoice("protobuf", 2) | 4*vChoice("unidirectional", vParam("c14_rec_uni", 1)+1)
	nh := vChoice("history_len", nhist+1)
	// anomalies: one publication (history or live) excluded by the subscriber's
	// tags filter / reached by a patch that is not smaller than the payload
	ntot := nh + nlive
	filteredAt := make([]bool, ntot)
	longAt := make([]bool, ntot)
	useFilter := false
	lastHistFiltered := false
	nanom := vParam("c14_rec_anoms", 1)
	if kind&4 != 0 {
		nanom = 1 // unidirectional (server-side subscription at connect): one anomaly
	}
	for a := 0; a < nanom; a++ {
		c := vChoice("anomaly", 1+2*ntot)
		if c == 0 {
			continue
		}
		if (c-1)%2 == 0 {
			filteredAt[(c-1)/2] = true
			useFilter = true
		} else {
			longAt[(c-1)/2] = true
		}
	}
	if nh > 0 {
		lastHistFiltered = filteredAt[nh-1]
	}
	var payloads [][]byte
	publish := func() {
		k := len(payloads)
		p := vC14Payload(k)
		payloads = append(payloads, p)
		tags := map[string]string{"t": "y"}
		if filteredAt[k] {
			tags["t"] = "n"
		}
		if longAt[k] {
			env.longFor = append(env.longFor, p)
		}
		_, err := n.Publish(vC14Chan, p, WithHistory(histSize, time.Minute), WithDelta(true), WithTags(tags))
		vAssert(err == nil, "publish ok")
		vSettle()
	}
	for k := 0; k < nh; k++ {
		publish()
	}
	top, err := n.streamTop(vC14Chan, 0)
	vAssert(err == nil, "stream top ok")
	off := vChoice("recover_from", nh+1)
	req := &protocol.SubscribeRequest{Recover: true, Offset: uint64(off), Epoch: top.Epoch}
	s := vC14Subscribe(n, "u", kind, useFilter, req)
	if off >= 1 {
		// assumption: the client holds the payload of the publication it recovers from
		s.model = vC14Model{has: true, held: vC14Clone(payloads[off-1])}
	}
	res := s.subscribeResult()
	vAssert(res != nil, "subscribe result received")
	vAssert(res.Delta, "delta negotiated")
	if !res.Recovered {
		// client SDK drops its state when recovery failed
		s.model = vC14Model{}
		vAssert(len(res.Publications) == 0, "no publications without recovery")
	}
	for _, p := range res.Publications {
		vAssert(p.Offset >= 1 && int(p.Offset) <= len(payloads), "recovered offset in range")
		vC14Apply(env, &s.model, p, payloads[p.Offset-1], true, s.isJSON)
		if p.Delta {
			s.ndelta++
		}
	}
	nrec := len(res.Publications)
	s.pushes()
	for k := 0; k < nlive; k++ {
		publish()
		want := payloads[len(payloads)-1]
		// Known finding: publications excluded by the tags filter are left out
		// of the recovered set, but the live path computes the next delta
		// against the stream's previous publication, filtered or not.
		// Failing inputs: the LAST publication of the recovered range is the
		// filtered one (then the client holds an older payload, or none) and
		// the first live publication after it is sent as a real delta.
		vKnown("C14-recovery-skips-filtered-base", res.Recovered && lastHistFiltered && off < nh && !longAt[nh])
		s.consume(env, want)
	}
	vCover(res.Recovered && nrec > 1, "recovered-several")
	vCover(res.Recovered && nrec == 0, "recovered-nothing-missed")
	vCover(!res.Recovered, "not-recovered")
	vCover(env.nlong > 0, "patch-not-smaller-than-payload")
	vCover(s.ndelta > 0, "delta-delivered")
}

// ------------------------------------------------------------------ part: keyed
//
// Keyed (shared poll) channel with KeepLatestData: the real
// sharedPollChannelState.applyRefreshResponse (delta base capture:
// buildPreparedPollData with the entry's previous data and version) fans out
// through the real keyedHub to Client.keyedWritePublication
// (deltaReady first-full rule, keyedDeltaPrevVersion base check). Versions are
// symbolic. A refresh response can be missed by the connection (it is not in
// the key's hub yet/anymore while its per-key state exists - the window
// between the track commit and the hub registration), or applied twice.
func vh_C14_keyed() {
	env := vC14Install()
	npub := vParam("c14_keyed_pubs", 3)
	n := vNewNode(Config{})
	isPB := vChoice("protobuf", 2)
	tr := vNewTransport()
	if isPB == 1 {
		tr.proto = ProtocolTypeProtobuf
	}
	c := vNewClient(n, "u", tr)
	vAssert(vConnect(c), "connect proceeds")
	vSettle()
	sub := &vC14Sub{c: c, tr: tr, isJSON: isPB == 0, deltaSub: true}
	sub.pushes()

	const key = "k"
	st := &sharedPollChannelState{
		opts:      SharedPollChannelOptions{Mode: SharedPollModeVersioned, KeepLatestData: true},
		epoch:     "e",
		itemIndex: map[string]*sharedPollTrackedEntry{},
	}
	entry := &sharedPollTrackedEntry{}
	st.itemIndex[key] = entry
	ks := &keyedKeyState{}
	// start 0: nothing published yet, connection tracks the key from a
	//          client-supplied version
	// start 1: the entry has data; the connection tracked the key and got the
	//          cached item in the track reply (handleTrack step 3): version =
	//          entry version, deltaReady, and it holds that payload
	// start 2: the entry has data; the connection tracks from a client-supplied
	//          version and got no cached item (not delta-ready)
	start := vChoice("start", 3)
	last := uint64(0)
	if start >= 1 {
		entry.version = vU64("entry_version")
		vAssume(entry.version >= 1 && entry.version < 1<<62)
		entry.data = vBytes("entry_payload", 3)
		last = entry.version
	}
	if start == 1 {
		ks.version = entry.version
		ks.deltaReady = true
		sub.model = vC14Model{has: true, held: vC14Clone(entry.data)}
	} else {
		ks.version = vU64("client_version")
		if start == 2 {
			vAssume(ks.version < entry.version) // else the cached item is not newer: same as never delivered
		}
	}
	c.mu.Lock()
	c.keyed = &keyedState{
		channels:    map[string]*keyedChannelDeltaState{vC14Chan: {deltaType: DeltaTypeFossil}},
		trackedKeys: map[string]map[string]*keyedKeyState{vC14Chan: {key: ks}},
	}
	c.mu.Unlock()
	hub := newKeyedHub()
	hub.addSubscriber(key, c)

	longAt := vChoice("long_patch_at", npub+1) - 1
	for k := 0; k < npub; k++ {
		v := vU64("version")
		vAssume(v > last && v < 1<<62) // backend versions grow
		last = v
		p := vC14Payload(k)
		if k == longAt {
			env.longFor = append(env.longFor, p)
		}
		items := []SharedPollRefreshItem{{Key: key, Data: p, Version: v}}
		before := ks.version
		switch vChoice("delivery", 2+vParam("c14_keyed_dup", 0)) {
		case 0:
			st.applyRefreshResponse(vC14Chan, "e", items, hub, n, "timer")
		case 1: // missed by this connection
			hub.removeSubscriber(key, c)
			st.applyRefreshResponse(vC14Chan, "e", items, hub, n, "timer")
			hub.addSubscriber(key, c)
		default: // the same backend response applied twice
			st.applyRefreshResponse(vC14Chan, "e", items, hub, n, "timer")
			st.applyRefreshResponse(vC14Chan, "e", items, hub, n, "timer")
		}
		vSettle()
		got := sub.consume(env, p)
		vAssert(got <= 1, "at-most-one-frame-per-version")
		if got == 1 {
			vAssert(v > before, "only-newer-versions-delivered")
		}
	}
	vCover(sub.ndelta > 0, "delta-delivered")
	vCover(sub.ndelta > 1, "two-deltas-delivered")
	vCover(sub.nfull > 1, "full-payload-again-after-first")
	vCover(env.nlong > 0, "patch-not-smaller-than-payload")
}

// ----------------------------------------------------------------- part: maprec
//
// makeRecoveredMapPubsDeltaFossil: recovered publications of a map
// subscription over two keys with removals; the client keeps one payload per
// key and forgets a key on removal.
func vh_C14_maprec() {
	env := vC14Install()
	npub := vParam("c14_maprec_pubs", 3)
	n := vNewNode(Config{})
	isPB := vChoice("protobuf", 2)
	tr := vNewTransport()
	if isPB == 1 {
		tr.proto = ProtocolTypeProtobuf
	}
	c := vNewClient(n, "u", tr)
	cnt := vChoice("count", npub+1)
	longAt := vChoice("long_patch_at", cnt+1) - 1
	var in []*protocol.Publication
	var want [][]byte
	for k := 0; k < cnt; k++ {
		p := vC14Payload(k)
		pub := &protocol.Publication{Offset: uint64(k + 1), Data: p, Key: "a"}
		switch vChoice("shape", 3+vParam("c14_maprec_nodata", 0)) {
		case 1:
			pub.Key = "b"
		case 2:
			pub.Removed = true
		case 3:
			pub.Removed = true
			pub.Data = nil
		}
		if k == longAt {
			env.longFor = append(env.longFor, p)
		}
		in = append(in, pub)
		want = append(want, pub.Data)
	}
	out := c.makeRecoveredMapPubsDeltaFossil(in)
	vAssert(len(out) == cnt, "same-number-of-publications")
	models := map[string]*vC14Model{"a": {}, "b": {}}
	ndelta := 0
	for k, pub := range out {
		vAssert(pub.Offset == uint64(k+1), "order-and-offsets-kept")
		m := models[pub.Key]
		vAssert(m != nil, "key-kept")
		if pub.Removed {
			vAssert(!pub.Delta, "removal-is-not-a-delta")
			*m = vC14Model{}
			continue
		}
		vC14Apply(env, m, pub, want[k], true, isPB == 0)
		if pub.Delta {
			ndelta++
		}
	}
	vCover(ndelta > 0, "delta-delivered")
	vCover(ndelta > 1, "two-deltas-delivered")
	vCover(env.nlong > 0, "patch-not-smaller-than-payload")
}
