package centrifuge

import "github.com/centrifugal/centrifuge/internal/queue"

// C42 (item buffers of writer.go): index lemmas for every capacity/length and
// the real put/get pair with a symbolic requested length.
func vh_C42_itembuf_lemmas() {
	c := vU32("cap")
	vAssume(c >= 1 && c <= maxItemBufLength)
	pi := prevLogBase2(c)
	vAssert(pi < uint32(len(itemBufPools)), "put-index-in-range")
	vAssert((uint32(1)<<pi) <= c, "put-keeps-invariant")
	l := vU32("len")
	vAssume(l >= 1 && l <= maxItemBufLength)
	gi := nextLogBase2(l)
	vAssert(gi < uint32(len(itemBufPools)), "get-index-in-range")
	vAssert((uint32(1)<<gi) >= l, "get-large-enough")
}

var c42itemCaps = []int{1, 2, 3, 4, 5, 7, 8, 9, 15, 16, 17, 31, 32, 33}

func vh_C42_itembuf_putget() {
	c := c42itemCaps[vChoice("capidx", len(c42itemCaps))]
	n := vChoice("dirtylen", 3)
	if n == 2 {
		n = c
	}
	buf := &itemBuf{B: make([]queue.Item, n, c)}
	for k := range buf.B {
		buf.B[k] = queue.Item{Data: []byte{1}, Channel: "x"}
		if k < 2 && vChoice("item_without_data", 2) == 1 {
			// an item need not carry data to be dirty
			buf.B[k] = queue.Item{Channel: "x", Key: "k"}
		}
	}
	putItemBuf(buf)
	l := vRange("length", -2, 40)
	got := getItemBuf(l)
	vAssert(got != nil, "non-nil")
	want := l
	if l <= 0 {
		want = defaultMaxMessagesInFrame
	}
	vAssert(len(got.B) == want, "length-as-requested")
	vAssert(cap(got.B) >= want, "capacity>=length")
	for k := range got.B {
		vAssert(got.B[k].Data == nil && got.B[k].Channel == "" && got.B[k].Key == "", "no-stale-item")
	}
	vCover(got == buf, "reused-pooled-buffer")
}
