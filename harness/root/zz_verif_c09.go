package centrifuge

// C09: commands are gated by authentication and answered exactly once.

import (
	"github.com/centrifugal/protocol"
)

// c09kinds are the sub-messages of protocol.Command, in the order used by
// the shape generator below.
const (
	c09Connect = iota
	c09Subscribe
	c09Unsubscribe
	c09Publish
	c09Presence
	c09PresenceStats
	c09History
	c09Ping
	c09Send
	c09Rpc
	c09Refresh
	c09SubRefresh
	c09NumKinds
)

// c09setKind makes one sub-message of cmd non-nil (well-formed content).
func c09setKind(cmd *protocol.Command, k int) {
	switch k {
	case c09Connect:
		cmd.Connect = &protocol.ConnectRequest{}
	case c09Subscribe:
		cmd.Subscribe = &protocol.SubscribeRequest{Channel: "ch"}
	case c09Unsubscribe:
		cmd.Unsubscribe = &protocol.UnsubscribeRequest{Channel: "ch"}
	case c09Publish:
		cmd.Publish = &protocol.PublishRequest{Channel: "ch", Data: []byte("{}")}
	case c09Presence:
		cmd.Presence = &protocol.PresenceRequest{Channel: "ch"}
	case c09PresenceStats:
		cmd.PresenceStats = &protocol.PresenceStatsRequest{Channel: "ch"}
	case c09History:
		cmd.History = &protocol.HistoryRequest{Channel: "ch"}
	case c09Ping:
		cmd.Ping = &protocol.PingRequest{}
	case c09Send:
		cmd.Send = &protocol.SendRequest{Data: []byte("{}")}
	case c09Rpc:
		cmd.Rpc = &protocol.RPCRequest{Method: "m"}
	case c09Refresh:
		cmd.Refresh = &protocol.RefreshRequest{Token: "t"}
	case c09SubRefresh:
		cmd.SubRefresh = &protocol.SubRefreshRequest{Channel: "ch", Token: "t"}
	}
}

// c09shape builds a command whose set of non-nil sub-messages is chosen by
// the solver-driven exploration: with c09_powerset=1 every subset (one
// boolean per sub-message), otherwise every subset of size <= c09_slots.
// Id is a symbolic uint32. has[k] tells which sub-messages are present.
func c09shape(allowConnect bool) (*protocol.Command, [c09NumKinds]bool) {
	cmd := &protocol.Command{Id: vU32("id")}
	var has [c09NumKinds]bool
	if vParam("c09_powerset", 0) == 1 {
		for k := 0; k < c09NumKinds; k++ {
			if k == c09Connect && !allowConnect {
				continue
			}
			if vBool("has") {
				has[k] = true
			}
		}
	} else {
		slots := vParam("c09_slots", 2)
		prev := -1
		if !allowConnect {
			prev = c09Connect
		}
		for s := 0; s < slots; s++ {
			// strictly increasing kinds, c09NumKinds = "no more"
			k := prev + 1 + vChoice("kind", c09NumKinds-prev)
			if k >= c09NumKinds {
				break
			}
			prev = k
			has[k] = true
		}
	}
	for k := 0; k < c09NumKinds; k++ {
		if has[k] {
			c09setKind(cmd, k)
		}
	}
	return cmd, has
}

// c09setClientHandlers registers every per-connection handler; each records
// its invocation and answers successfully (synchronously).
func c09setClientHandlers(c *Client, l *vccLog) {
	c.OnAlive(func() { l.hit("alive") })
	c.OnDisconnect(func(e DisconnectEvent) { l.hit("disconnect") })
	c.OnUnsubscribe(func(e UnsubscribeEvent) { l.hit("unsubscribe") })
	c.OnMessage(func(e MessageEvent) { l.hit("message") })
	c.OnRefresh(func(e RefreshEvent, cb RefreshCallback) {
		l.hit("refresh")
		cb(RefreshReply{ExpireAt: vNowNano()/1000000000 + 100}, nil)
	})
	c.OnSubRefresh(func(e SubRefreshEvent, cb SubRefreshCallback) {
		l.hit("sub_refresh")
		cb(SubRefreshReply{ExpireAt: vNowNano()/1000000000 + 100}, nil)
	})
	c.OnSubscribe(func(e SubscribeEvent, cb SubscribeCallback) {
		l.hit("subscribe")
		cb(SubscribeReply{}, nil)
	})
	c.OnPublish(func(e PublishEvent, cb PublishCallback) { l.hit("publish"); cb(PublishReply{}, nil) })
	c.OnMapPublish(func(e MapPublishEvent, cb MapPublishCallback) { l.hit("map_publish"); cb(MapPublishReply{}, nil) })
	c.OnMapRemove(func(e MapRemoveEvent, cb MapRemoveCallback) { l.hit("map_remove"); cb(MapRemoveReply{}, nil) })
	c.OnPresence(func(e PresenceEvent, cb PresenceCallback) { l.hit("presence"); cb(PresenceReply{}, nil) })
	c.OnPresenceStats(func(e PresenceStatsEvent, cb PresenceStatsCallback) {
		l.hit("presence_stats")
		cb(PresenceStatsReply{}, nil)
	})
	c.OnHistory(func(e HistoryEvent, cb HistoryCallback) { l.hit("history"); cb(HistoryReply{}, nil) })
	c.OnRPC(func(e RPCEvent, cb RPCCallback) { l.hit("rpc"); cb(RPCReply{}, nil) })
}

// (a) Before connect: any command without a connect sub-message closes the
// connection with DisconnectBadRequest, no application handler runs, nothing
// but the disconnect push is written.
func vh_C09_preconnect() {
	l := &vccLog{}
	n := vNewNode(Config{})
	vccNodeHandlers(n, l, nil)
	tr := vNewTransport()
	c := vNewClient(n, "u1", tr)
	c09setClientHandlers(c, l)
	cmd, has := c09shape(false)
	proceed := c.HandleCommand(cmd, 0)
	vSettle()
	vAssert(!proceed, "pre-connect: reader told to stop")
	vAssert(tr.closed, "pre-connect: connection closed")
	vAssert(tr.closeD.Code == DisconnectBadRequest.Code, "pre-connect: bad request disconnect")
	vAssert(l.calls == 0, "pre-connect: no application handler invoked")
	vAssert(c.status == statusClosed && !c.authenticated, "pre-connect: client closed and not authenticated")
	same, other, _ := vccCountReplies(tr, 0, cmd.Id)
	vAssert(same == 0 && other == 0, "pre-connect: no command reply written")
	n2 := 0
	for k := range has {
		if has[k] {
			n2++
		}
	}
	vCover(n2 == 0, "empty-command")
	vCover(n2 >= 2, "several-sub-messages")
	vCover(cmd.Id == 0, "id-zero")
	// a later connect on the closed client is refused as well
	if vParam("c09_after", 1) == 1 && n2 == 0 {
		before := l.calls
		ok2 := c.HandleCommand(&protocol.Command{Id: 7, Connect: &protocol.ConnectRequest{}}, 0)
		vSettle()
		vAssert(!ok2 && l.calls == before && !c.authenticated, "closed: connect after close ignored")
	}
}

// (b) After connect, arbitrary shapes with well-formed content and
// synchronous successful handlers: exactly one reply with the command id
// unless the connection was closed; id 0 without send is a bad request (no
// ping is outstanding); a second connect is a bad request.
func vh_C09_dispatch() {
	l := &vccLog{}
	n := vNewNode(Config{})
	expireAt := vNowNano()/1000000000 + 1000
	vccNodeHandlers(n, l, func() (ConnectReply, error) {
		return ConnectReply{ClientSideRefresh: true, Credentials: &Credentials{UserID: "u1", ExpireAt: expireAt}}, nil
	})
	tr := vNewTransport()
	c := vNewClient(n, "u1", tr)
	c09setClientHandlers(c, l)
	vAssert(vConnect(c), "connect proceeds")
	vSettle()
	vAssert(c.authenticated && !tr.closed, "connected")
	base := len(tr.frames)
	callsBefore := l.calls

	cmd, has := c09shape(true)
	id := cmd.Id
	proceed := c.HandleCommand(cmd, 0)
	vSettle()

	same, other, _ := vccCountReplies(tr, base, id)
	vAssert(other == 0, "post-connect: no reply with a foreign id")
	any := false
	for k := range has {
		any = any || has[k]
	}
	onlyPingOrNone := true
	for k := range has {
		if has[k] && k != c09Ping {
			onlyPingOrNone = false
		}
	}
	if has[c09Connect] {
		if id != 0 || has[c09Send] {
			vAssert(tr.closed && tr.closeD.Code == DisconnectBadRequest.Code, "post-connect: second connect is a bad request")
			vAssert(l.count("connecting") == 1 && l.count("connect") == 1, "post-connect: connect handlers not re-run")
		}
	}
	if id == 0 && !has[c09Send] {
		vAssert(!proceed && tr.closed && tr.closeD.Code == DisconnectBadRequest.Code, "post-connect: pong without ping is a bad request")
		vAssert(l.calls == callsBefore+1 && l.count("disconnect") == 1, "post-connect: pong without ping runs no command handler")
		vCover(true, "pong-without-ping")
		return
	}
	if onlyPingOrNone {
		vAssert(tr.closed && tr.closeD.Code == DisconnectBadRequest.Code, "post-connect: command without a known request is a bad request")
		vCover(any, "ping-only")
		return
	}
	if id != 0 {
		// one-way Send is the first request the dispatcher looks at when no
		// request with a reply precedes it
		sendFirst := has[c09Send] && !has[c09Connect] && !has[c09Ping] && !has[c09Subscribe] && !has[c09Unsubscribe] &&
			!has[c09Publish] && !has[c09Presence] && !has[c09PresenceStats] && !has[c09History] && !has[c09Rpc]
		vKnown("C09-send-with-id", sendFirst)
		vAssert(tr.closed || same == 1, "post-connect: exactly one reply with the command id unless closed")
		vAssert(tr.closed || proceed, "post-connect: reader continues unless closed")
		vCover(same == 1 && !tr.closed, "replied-once")
		vCover(tr.closed, "closed-instead")
	} else {
		// id 0 with a send sub-message: not a command "that carries an id"
		vAssert(same <= 1, "post-connect: at most one reply to an id-less command")
		vCover(true, "idless-send")
	}
}

// ---------------------------------------------------------------------------
// (c) every replying command kind, with a handler that answers synchronously
// or later (parked callback run by the harness), with success or an error of
// each class (client error / disconnect / foreign error, codes symbolic).

type c09plan struct {
	async    bool
	errClass int
}

const (
	c09kRPC = iota
	c09kPublish
	c09kPresence
	c09kPresenceStats
	c09kHistory
	c09kRefresh
	c09kSubRefresh
	c09kUnsubscribe
	c09kSubscribe
	c09kNum
)

func c09nowUnix() int64 { return vNowNano() / 1000000000 }

// c09planHandlers registers handlers that follow plan p for the command under
// test. The subscribe handler accepts the set-up subscription of channel
// "ch0" unconditionally.
func c09planHandlers(c *Client, l *vccLog, p *c09plan) {
	c.OnDisconnect(func(e DisconnectEvent) { l.hit("disconnect") })
	c.OnUnsubscribe(func(e UnsubscribeEvent) { l.hit("unsubscribe") })
	c.OnMessage(func(e MessageEvent) { l.hit("message") })
	c.OnRPC(func(e RPCEvent, cb RPCCallback) {
		l.hit("rpc")
		err := vccErr(p.errClass, "rpc")
		l.finish(p.async, func() { cb(RPCReply{Data: []byte("{}")}, err) })
	})
	c.OnPublish(func(e PublishEvent, cb PublishCallback) {
		l.hit("publish")
		err := vccErr(p.errClass, "publish")
		r := PublishReply{}
		if err == nil && vChoice("publish_result_given", 2) == 1 {
			r.Result = &PublishResult{}
		}
		l.finish(p.async, func() { cb(r, err) })
	})
	c.OnPresence(func(e PresenceEvent, cb PresenceCallback) {
		l.hit("presence")
		err := vccErr(p.errClass, "presence")
		r := PresenceReply{}
		if err == nil && vChoice("presence_result_given", 2) == 1 {
			r.Result = &PresenceResult{Presence: map[string]*ClientInfo{"x": {ClientID: "x", UserID: "u"}}}
		}
		l.finish(p.async, func() { cb(r, err) })
	})
	c.OnPresenceStats(func(e PresenceStatsEvent, cb PresenceStatsCallback) {
		l.hit("presence_stats")
		err := vccErr(p.errClass, "presence_stats")
		r := PresenceStatsReply{}
		if err == nil && vChoice("stats_result_given", 2) == 1 {
			r.Result = &PresenceStatsResult{PresenceStats: PresenceStats{NumClients: 1, NumUsers: 1}}
		}
		l.finish(p.async, func() { cb(r, err) })
	})
	c.OnHistory(func(e HistoryEvent, cb HistoryCallback) {
		l.hit("history")
		err := vccErr(p.errClass, "history")
		r := HistoryReply{}
		if err == nil && vChoice("history_result_given", 2) == 1 {
			r.Result = &HistoryResult{}
		}
		l.finish(p.async, func() { cb(r, err) })
	})
	c.OnRefresh(func(e RefreshEvent, cb RefreshCallback) {
		l.hit("refresh")
		err := vccErr(p.errClass, "refresh")
		r := RefreshReply{}
		if err == nil {
			r.Expired = vBool("refresh_expired")
			d := vI64("refresh_expire_delta")
			vAssume(d >= -3 && d <= 3)
			if vBool("refresh_expire_zero") {
				r.ExpireAt = 0
			} else {
				r.ExpireAt = c09nowUnix() + d
			}
		}
		l.finish(p.async, func() { cb(r, err) })
	})
	c.OnSubRefresh(func(e SubRefreshEvent, cb SubRefreshCallback) {
		l.hit("sub_refresh")
		err := vccErr(p.errClass, "sub_refresh")
		r := SubRefreshReply{}
		if err == nil {
			d := vI64("subrefresh_expire_delta")
			vAssume(d >= -3 && d <= 3)
			if vBool("subrefresh_expire_zero") {
				r.ExpireAt = 0
			} else {
				r.ExpireAt = c09nowUnix() + d
			}
		}
		l.finish(p.async, func() { cb(r, err) })
	})
	c.OnSubscribe(func(e SubscribeEvent, cb SubscribeCallback) {
		l.hit("subscribe")
		if e.Channel == "ch0" {
			cb(SubscribeReply{ClientSideRefresh: true, Options: SubscribeOptions{ExpireAt: c09nowUnix() + 1000}}, nil)
			return
		}
		err := vccErr(p.errClass, "subscribe")
		l.finish(p.async, func() { cb(SubscribeReply{}, err) })
	})
}

func c09connected(l *vccLog, p *c09plan) (*Node, *Client, *vTransport) {
	n := vNewNode(Config{})
	expireAt := c09nowUnix() + 1000
	vccNodeHandlers(n, l, func() (ConnectReply, error) {
		return ConnectReply{ClientSideRefresh: true, Credentials: &Credentials{UserID: "u1", ExpireAt: expireAt}}, nil
	})
	tr := vNewTransport()
	c := vNewClient(n, "u1", tr)
	if p != nil {
		c09planHandlers(c, l, p)
	}
	vAssert(vConnect(c), "connect proceeds")
	vSettle()
	vAssert(c.authenticated && !tr.closed, "connected")
	return n, c, tr
}

// c09chan picks the channel of the request: 0 "" (malformed), 1 "ch0" (the
// subscribed one, where one exists), 2 "zz" (not subscribed).
func c09chan(nopts int) string {
	switch vChoice("chan", nopts) {
	case 0:
		return ""
	case 1:
		return "ch0"
	}
	return "zz"
}

// c09failBroker / c09failPM make the node-level calls behind a successful
// handler answer fail.
type c09failBroker struct {
	*MemoryBroker
	err error
}

func (b c09failBroker) History(ch string, opts HistoryOptions) ([]*Publication, StreamPosition, error) {
	return nil, StreamPosition{}, b.err
}
func (b c09failBroker) Publish(ch string, data []byte, opts PublishOptions) (PublishResult, error) {
	return PublishResult{}, b.err
}

type c09failPM struct{ err error }

func (m c09failPM) Presence(ch string) (map[string]*ClientInfo, error) { return nil, m.err }
func (m c09failPM) PresenceStats(ch string) (PresenceStats, error)      { return PresenceStats{}, m.err }
func (m c09failPM) AddPresence(ch string, clientID string, info *ClientInfo) error {
	return nil
}
func (m c09failPM) RemovePresence(ch string, clientID string, userID string) error { return nil }

func vh_C09_reply_once() {
	l := &vccLog{}
	p := &c09plan{}
	kind := vChoice("kind", c09kNum)
	p.async = vChoice("async", 2) == 1
	p.errClass = vChoice("errclass", vParam("c09_errclasses", 4))
	n, c, tr := c09connected(l, p)
	if p.errClass == 0 && kind >= c09kPublish && kind <= c09kHistory && vChoice("backend_fails", 2) == 1 {
		berr := vccErr(1+2*vChoice("backend_errclass", 2), "backend") // *Error or foreign error
		fb := c09failBroker{n.broker.(*MemoryBroker), berr}
		n.config.GetBroker = func(ch string) (Broker, bool) { return fb, true }
		n.config.GetPresenceManager = func(ch string) (PresenceManager, bool) { return c09failPM{berr}, true }
		vCover(true, "backend-failure")
	}
	if kind >= c09kSubRefresh {
		// an established subscription with client-side refresh
		ok := c.HandleCommand(&protocol.Command{Id: 2, Subscribe: &protocol.SubscribeRequest{Channel: "ch0"}}, 0)
		vSettle()
		vAssert(ok && !tr.closed, "set-up subscription")
		_, subscribed := c.getSubscribedChannelContext("ch0")
		vAssert(subscribed, "set-up subscription established")
	}
	base := len(tr.frames)
	id := vU32("id")
	vAssume(id != 0)
	cmd := &protocol.Command{Id: id}
	want := ""
	switch kind {
	case c09kRPC:
		cmd.Rpc = &protocol.RPCRequest{Method: "m", Data: []byte("{}")}
		want = "rpc"
	case c09kPublish:
		cmd.Publish = &protocol.PublishRequest{Channel: c09chan(2), Data: []byte("{}")}
		want = "publish"
	case c09kPresence:
		cmd.Presence = &protocol.PresenceRequest{Channel: c09chan(2)}
		want = "presence"
	case c09kPresenceStats:
		cmd.PresenceStats = &protocol.PresenceStatsRequest{Channel: c09chan(2)}
		want = "presence_stats"
	case c09kHistory:
		cmd.History = &protocol.HistoryRequest{Channel: c09chan(2), Limit: vI32("limit")}
		want = "history"
	case c09kRefresh:
		tok := "t"
		if vChoice("token_empty", 2) == 1 {
			tok = ""
		}
		cmd.Refresh = &protocol.RefreshRequest{Token: tok}
		want = "refresh"
	case c09kSubRefresh:
		tok := "t"
		if vChoice("token_empty", 2) == 1 {
			tok = ""
		}
		cmd.SubRefresh = &protocol.SubRefreshRequest{Channel: c09chan(3), Token: tok}
		want = "sub_refresh"
	case c09kUnsubscribe:
		cmd.Unsubscribe = &protocol.UnsubscribeRequest{Channel: c09chan(3)}
		want = "unsubscribe"
	case c09kSubscribe:
		cmd.Subscribe = &protocol.SubscribeRequest{Channel: c09chan(3), Recover: vBool("recover")}
		want = "subscribe"
	}
	hitsBefore := l.count(want)
	proceed := c.HandleCommand(cmd, 0)
	vSettle()
	invoked := l.count(want) - hitsBefore
	if kind != c09kUnsubscribe {
		vAssert(invoked <= 1, "handler invoked at most once per command")
	}
	if len(l.parked) > 0 {
		same0, other0, _ := vccCountReplies(tr, base, id)
		vAssert(same0 == 0 && other0 == 0, "no reply before the asynchronous handler answers")
		vAssert(proceed && !tr.closed, "reader continues while the handler is pending")
		for _, f := range l.parked {
			f()
		}
		l.parked = nil
		vSettle()
		vCover(true, "async-callback-run")
	}
	same, other, _ := vccCountReplies(tr, base, id)
	vAssert(other == 0, "no reply with a foreign id")
	vAssert(tr.closed || same == 1, "exactly one reply with the command id unless closed")
	vAssert(same <= 1, "never two replies to one command")
	vCover(!tr.closed && same == 1 && invoked == 1, "handler-answered-once")
	vCover(!tr.closed && same == 1 && invoked == 0, "rejected-before-handler-with-error-reply")
	vCover(tr.closed, "closed")
}

// (d) no handler registered: every replying kind gets exactly one error reply.
func vh_C09_nohandler() {
	l := &vccLog{}
	_, c, tr := c09connected(l, nil)
	base := len(tr.frames)
	id := vU32("id")
	vAssume(id != 0)
	cmd := &protocol.Command{Id: id}
	kind := 1 + vChoice("kind", c09NumKinds-1)
	c09setKind(cmd, kind)
	proceed := c.HandleCommand(cmd, 0)
	vSettle()
	same, other, last := vccCountReplies(tr, base, id)
	vAssert(other == 0, "no reply with a foreign id")
	if kind == c09Send || kind == c09Ping {
		vAssert(tr.closed, "send without handler / bare ping: closed")
		return
	}
	vAssert(tr.closed || same == 1, "exactly one reply with the command id unless closed")
	if !tr.closed && kind != c09Unsubscribe { // unsubscribe needs no handler
		vAssert(proceed && last.Error != nil, "no handler: error reply")
		vCover(last.Error.Code == ErrorNotAvailable.Code, "not-available")
	}
}

// (e) two commands in flight, asynchronous callbacks completing in either
// order: each id is answered exactly once.
func vh_C09_async_order() {
	l := &vccLog{}
	p := &c09plan{async: true}
	_, c, tr := c09connected(l, p)
	base := len(tr.frames)
	id1, id2 := vU32("id1"), vU32("id2")
	vAssume(id1 != 0 && id2 != 0 && id1 != id2)
	mk := func(id uint32, k int) *protocol.Command {
		cmd := &protocol.Command{Id: id}
		switch k {
		case 0:
			cmd.Rpc = &protocol.RPCRequest{Method: "m"}
		case 1:
			cmd.History = &protocol.HistoryRequest{Channel: "ch"}
		case 2:
			cmd.PresenceStats = &protocol.PresenceStatsRequest{Channel: "ch"}
		}
		return cmd
	}
	nk := vParam("c09_order_kinds", 2)
	k1, k2 := vChoice("kind1", nk), vChoice("kind2", nk)
	p.errClass = vChoice("errclass1", 2) // 0 success, 1 client error
	ok1 := c.HandleCommand(mk(id1, k1), 0)
	p.errClass = vChoice("errclass2", 2)
	ok2 := c.HandleCommand(mk(id2, k2), 0)
	vSettle()
	vAssert(ok1 && ok2 && len(l.parked) == 2, "both handlers pending")
	s1, _, _ := vccCountReplies(tr, base, id1)
	s2, _, _ := vccCountReplies(tr, base, id2)
	vAssert(s1 == 0 && s2 == 0, "no reply while pending")
	first := vChoice("first", 2)
	l.parked[first]()
	vSettle()
	s1, _, _ = vccCountReplies(tr, base, id1)
	s2, _, _ = vccCountReplies(tr, base, id2)
	if first == 0 {
		vAssert(s1 == 1 && s2 == 0, "only the completed command is answered")
	} else {
		vAssert(s1 == 0 && s2 == 1, "only the completed command is answered")
	}
	l.parked[1-first]()
	vSettle()
	s1, o1, _ := vccCountReplies(tr, base, id1)
	s2, _, _ = vccCountReplies(tr, base, id2)
	vAssert(!tr.closed && s1 == 1 && s2 == 1 && o1 == 1, "each id answered exactly once")
	vCover(first == 1, "reverse-order")
}

// (f) pong validation: a pong is accepted exactly once per server ping.
func vh_C09_pong() {
	l := &vccLog{}
	_, c, tr := c09connected(l, &c09plan{})
	steps := vParam("c09_pong_steps", 3)
	outstanding := false
	for s := 0; s < steps; s++ {
		if vChoice("op", 2) == 0 {
			c.sendPing()
			vSettle()
			outstanding = true
			continue
		}
		callsBefore := l.calls
		proceed := c.HandleCommand(&protocol.Command{}, 0)
		vSettle()
		if outstanding {
			vAssert(proceed && !tr.closed, "pong after ping accepted")
			vAssert(l.calls == callsBefore, "pong runs no handler")
			outstanding = false
			vCover(true, "pong-accepted")
		} else {
			vAssert(!proceed && tr.closed && tr.closeD.Code == DisconnectBadRequest.Code, "pong without ping: bad request")
			vCover(s > 0, "second-pong-rejected")
			return
		}
	}
}
