package centrifuge

// C34: in Redis Cluster mode all keys and the PUB/SUB channel touched by one
// broker script hash to the same slot, and the receiving side recovers the
// channel name from the PUB/SUB channel.
//
// Oracle: Redis' hash-tag rule, stated independently of redisSlot
// (cluster.c keyHashSlot): find the first '{'; if there is one, find the first
// '}' after it; if there is one and at least one byte lies between them, only
// that content is hashed, otherwise the whole key. Two keys whose effective
// hash inputs are equal strings are in the same slot, so the symbolic run
// compares effective hash inputs (a CRC16 over symbolic bytes is never
// compared); the native replay of a counterexample compares the real slots
// computed by redisSlot.

// c34HashInput returns the part of key that Redis hashes. It walks the key
// like any scanner (forks on symbolic bytes); the result has concrete length.
func c34HashInput(key string) string {
	for i := 0; i < len(key); i++ {
		if key[i] == '{' {
			for j := i + 1; j < len(key); j++ {
				if key[j] == '}' {
					if j == i+1 {
						return key // "{}": empty tag, whole key is hashed
					}
					return key[i+1 : j]
				}
			}
			return key // no closing brace
		}
	}
	return key
}

// c34SameSlot: symbolic run: equal effective hash inputs; native replay: equal
// real slots.
func c34SameSlot(a, b string) bool {
	if !vSymbolic() {
		return redisSlot(a) == redisSlot(b)
	}
	return vStrEq(c34HashInput(a), c34HashInput(b))
}

func c34AllSameSlot(keys []string, label string) {
	for k := 1; k < len(keys); k++ {
		vAssert(c34SameSlot(keys[0], keys[k]), label)
	}
}

const c34Prefix = "centrifuge"

func c34Broker(partitions int, tags []string, useLists bool, prefix string) *RedisBroker {
	return &RedisBroker{
		config:        RedisBrokerConfig{Prefix: prefix, NumShardedPubSubPartitions: partitions, UseLists: useLists},
		partitionTags: tags,
		shardChannel:  prefix + redisPubSubShardChannelSuffix,
		messagePrefix: prefix + redisClientChannelPrefix,
	}
}

// c34EmptyTag describes the inputs of the known finding C34-empty-hash-tag:
// in non-sharded cluster mode the channel itself is the hash tag, and a
// channel that is empty or starts with '}' makes the tag "{}" empty.
func c34EmptyTag(ch string) bool {
	if len(ch) == 0 {
		return true
	}
	return ch[0] == '}'
}

// c34BrokerKeys: the keys + PUB/SUB channel of each RedisBroker script.
func c34BrokerScripts(b *RedisBroker, s *RedisShard, ch, idem string) (stream, list, idemp, hist []string) {
	chID := string(b.messageChannelID(s, ch))
	res := string(b.resultCacheKey(s, ch, idem))
	// broker_history_add_stream.lua: KEYS stream, meta, result + PUBLISH channel
	b.config.UseLists = false
	stream = []string{string(b.historyStreamKey(s, ch)), string(b.historyMetaKey(s, ch)), res, chID}
	// broker_history_stream.lua: KEYS stream, meta
	hist = []string{string(b.historyStreamKey(s, ch)), string(b.historyMetaKey(s, ch))}
	// broker_history_add_list.lua: KEYS list, meta (list infix), result + PUBLISH channel
	b.config.UseLists = true
	list = []string{string(b.historyListKey(s, ch)), string(b.historyMetaKey(s, ch)), res, chID}
	b.config.UseLists = false
	// broker_publish_idempotent.lua: KEYS result + PUBLISH channel
	idemp = []string{res, chID}
	return
}

// C34 (1): RedisBroker + RedisPresenceManager, modes without sharded PUB/SUB:
// plain Redis (only the channel round trip matters) and Redis Cluster.
func vh_C34_cluster() {
	maxN := vParam("c34_len", 4)
	cluster := vChoice("cluster", 2) == 1
	n := vChoice("len", maxN+1)
	ch := vString("ch", n)
	idem := vString("idem", vChoice("idem_len", vParam("c34_idem", 1)+1))
	b := c34Broker(0, nil, false, c34Prefix)
	s := &RedisShard{isCluster: cluster}

	// channel round trip (every mode)
	chID := b.messageChannelID(s, ch)
	back := b.extractChannel(cluster, chID)
	vAssert(vStrEq(back, ch), "extractChannel(messageChannelID(ch)) == ch")
	if !cluster {
		vCover(true, "non-cluster")
		return
	}
	vKnown("C34-empty-hash-tag", c34EmptyTag(ch))
	sfx := ""
	if n == 0 {
		sfx = " [empty channel name]" // reported separately from non-empty names
	}
	stream, list, idemp, hist := c34BrokerScripts(b, s, ch, idem)
	c34AllSameSlot(stream, "history-add-stream script: keys and channel in one slot"+sfx)
	c34AllSameSlot(list, "history-add-list script: keys and channel in one slot"+sfx)
	c34AllSameSlot(idemp, "idempotent-publish script: key and channel in one slot"+sfx)
	c34AllSameSlot(hist, "history script: keys in one slot"+sfx)
	m := &RedisPresenceManager{config: RedisPresenceManagerConfig{Prefix: c34Prefix}}
	pres := []string{string(m.presenceSetKey(s, ch)), string(m.presenceHashKey(s, ch)), string(m.userSetKey(s, ch)), string(m.userHashKey(s, ch))}
	c34AllSameSlot(pres, "presence scripts: keys in one slot"+sfx)
	vCover(n >= 2 && ch[0] == '{', "channel-with-open-brace")
	vCover(n >= 3 && ch[1] == '}', "channel-with-inner-close-brace")
	vCover(n >= 2 && ch[0] == '.', "channel-with-dot")
}

// c34Slot: Redis' HASH_SLOT of a byte string taken WHOLE (no hash-tag
// processing): table-driven CRC16 (crc = crc<<8 ^ tab[(crc>>8) ^ byte]) & 0x3FFF.
func c34Slot(s string) uint16 {
	var crc uint16
	for i := 0; i < len(s); i++ {
		crc = (crc << 8) ^ crc16tab[byte(crc>>8)^s[i]]
	}
	return crc & 0x3FFF
}

// C34 (3): redisSlot (the repository's own slot function, used to decide
// counterexamples at replay) applies exactly the hash-tag rule above: for every
// key, redisSlot(key) is the CRC16 slot of the effective hash input.
func vh_C34_slot_rule() {
	maxN := vParam("c34_keylen", 4)
	n := vChoice("len", maxN+1)
	key := vString("key", n)
	in := c34HashInput(key)
	vCover(len(in) < n, "tag-used")
	vCover(n >= 2 && len(in) == n && key[0] == '{', "empty-or-open-tag-hashes-whole-key")
	vAssert(redisSlot(key) == c34Slot(in), "redisSlot hashes the hash-tag content")
	if n == 0 {
		// concrete side conditions, checked once: the table is the CCITT/XMODEM table
		// (polynomial 0x1021) that Redis publishes in crc16.c, and known answers
		for i := 0; i < 256; i++ {
			c := uint16(i) << 8
			for k := 0; k < 8; k++ {
				if c&0x8000 != 0 {
					c = c<<1 ^ 0x1021
				} else {
					c <<= 1
				}
			}
			vAssert(crc16tab[i] == c, "crc16tab is the CRC-16/XMODEM table")
		}
		vAssert(redisSlot("123456789") == 0x31C3, "known-answer")
		vAssert(redisSlot("{user1000}.following") == redisSlot("{user1000}.followers"), "redis-doc-example")
		vAssert(redisSlot("foo{}{bar}") == c34Slot("foo{}{bar}"), "redis-doc-example-empty-tag")
		vAssert(redisSlot("foo{{bar}}zap") == c34Slot("{bar"), "redis-doc-example-nested")
		vAssert(redisSlot("foo{bar}{zap}") == c34Slot("bar"), "redis-doc-example-first-tag")
	}
}

// c34PrefixBreaks describes the inputs of the known finding
// C34-prefix-open-brace: the configured Prefix contains a '{' that is not
// closed by a '}' at least two bytes later inside the prefix itself, so the
// hash tag of every key starts in the prefix and runs into the (different)
// key infixes, or is empty.
func c34PrefixBreaks(prefix string) bool {
	for i := 0; i < len(prefix); i++ {
		if prefix[i] == '{' {
			for j := i + 1; j < len(prefix); j++ {
				if prefix[j] == '}' {
					return j == i+1
				}
			}
			return true
		}
	}
	return false
}

// C34 (4): the Prefix option. Cluster mode without sharded PUB/SUB, symbolic
// prefix (any bytes, short), channel a single symbolic byte other than '}'.
func vh_C34_prefix() {
	prefix := vString("prefix", vChoice("prefix_len", vParam("c34_prefix", 2)+1))
	ch := vString("ch", 1)
	vAssume(ch[0] != '}') // the empty-tag finding is handled by vh_C34_cluster
	b := c34Broker(0, nil, false, prefix)
	s := &RedisShard{isCluster: true}
	vAssert(vStrEq(b.extractChannel(true, b.messageChannelID(s, ch)), ch), "prefix: extractChannel(messageChannelID(ch)) == ch")
	vKnown("C34-prefix-open-brace", c34PrefixBreaks(prefix))
	stream, list, idemp, hist := c34BrokerScripts(b, s, ch, "")
	c34AllSameSlot(stream, "prefix: history-add-stream script: keys and channel in one slot")
	c34AllSameSlot(list, "prefix: history-add-list script: keys and channel in one slot")
	c34AllSameSlot(idemp, "prefix: idempotent-publish script: key and channel in one slot")
	c34AllSameSlot(hist, "prefix: history script: keys in one slot")
	vCover(len(prefix) == 2 && prefix[1] == '}', "prefix-with-close-brace")
	vCover(len(prefix) >= 1 && prefix[0] == '.', "prefix-with-dot")
}
