package centrifuge

import (
	"math"

	"github.com/centrifugal/protocol"
)

// ---------------------------------------------------------------------------
// C01: positioned stream delivery is gap-free, duplicate-free and ordered.
// ---------------------------------------------------------------------------

const vC01Ch = "ch"

const vInsufficientStub = "(*github.com/centrifugal/centrifuge.Client).handleInsufficientState"

// vC01Client builds a connected real Client whose channel "ch" is subscribed
// and positioned with the given stream position and extra flags.
func vC01Client(pos StreamPosition, extra uint16) (*Client, *vTransport) {
	n := vNewNode(Config{})
	tr := vNewTransport()
	c := vNewClient(n, "u1", tr)
	vAssert(vConnect(c), "c01-connect")
	vSettle()
	c.mu.Lock()
	c.channels[vC01Ch] = ChannelContext{
		flags:          flagSubscribed | flagPositioning | extra,
		streamPosition: pos,
		subGen:         c.subGenCounter.Add(1),
	}
	c.mu.Unlock()
	return c, tr
}

func vC01Position(c *Client) (StreamPosition, uint16, bool) {
	c.mu.RLock()
	defer c.mu.RUnlock()
	ctx, ok := c.channels[vC01Ch]
	return ctx.streamPosition, ctx.flags, ok
}

func vBit(b bool, flag uint16) uint16 { return uint16(vIteU64(b, uint64(flag), 0)) }

var vEpochsPos = []string{"", "A"}
var vEpochsPub = []string{"A", "B"}

// vh_C01_live_step: ONE arbitrary live publication against an ARBITRARY valid
// positioned state (inductive step). Position offset and publication offset
// are unconstrained 64-bit values (so the wrap-around at 2^64-1 and the
// MaxUint64 sentinel are included).
func vh_C01_live_step() {
	p := vU64("pos")
	posEpoch := vEpochsPos[vChoice("posEpoch", len(vEpochsPos))]
	pubEpoch := vEpochsPub[vChoice("pubEpoch", len(vEpochsPub))]
	serverSide := vBool("serverSide")
	deltaAllowed := vBool("deltaAllowed")
	c, tr := vC01Client(StreamPosition{Offset: p, Epoch: posEpoch},
		vBit(serverSide, flagServerSide)|vBit(deltaAllowed, flagDeltaAllowed))

	var sigCh []string
	var sigSS []bool
	vStub(vInsufficientStub, func(cc *Client, ch string, ss bool) {
		sigCh = append(sigCh, ch)
		sigSS = append(sigSS, ss)
	})

	o := vU64("off")
	// Offset 0 means "publication outside the stream" (no history); it takes the
	// non-positioned route and is not part of the offset sequence (see C10).
	vAssume(o != 0)
	lag := vBool("lag")
	filtered := vBool("filtered")
	deltaSub := vBool("deltaSub")
	pub := &protocol.Publication{Offset: o, Data: []byte("d")}
	prep := preparedData{
		fullData:        []byte("F"),
		brokerDeltaData: []byte("B"),
		localDeltaData:  []byte("L"),
		deltaSub:        deltaSub,
		wasFiltered:     filtered,
	}
	if filtered {
		prep.filteredPub = &protocol.Publication{Offset: o, Time: -1}
	}
	before := len(tr.frames)
	err := c.writePublication(vC01Ch, pub, prep, StreamPosition{Offset: o, Epoch: pubEpoch}, lag, ChannelBatchConfig{})
	vSettle()
	vAssert(err == nil, "no-error")

	// ---- transition specification
	next := p + 1 // Go uint64 arithmetic, as the stream offsets are
	mismatch := posEpoch != "" && posEpoch != pubEpoch
	epochOK := !mismatch
	inOrder := vAnd(vAnd(vNot(lag), epochOK), o == next)
	wantDelivered := vAnd(inOrder, vNot(vAnd(filtered, vNot(deltaSub))))
	wantInsufficient := vOr(vOr(lag, mismatch), o > next)

	delivered := len(tr.frames) - before
	vAssert(delivered == 0 || delivered == 1, "at-most-one-frame")
	vAssert(vIff(delivered == 1, wantDelivered), "delivered-iff-in-order-and-not-withheld")
	if delivered == 1 {
		f := tr.frames[before]
		vAssert(len(f) == 1 && (f[0] == 'F' || f[0] == 'B'), "frame-is-this-publication")
	}
	sp, flags, ok := vC01Position(c)
	vAssert(ok && channelHasFlag(flags, flagSubscribed), "still-subscribed(stubbed-signal)")
	vAssert(sp.Offset == vIteU64(inOrder, o, p), "position-advances-exactly-when-in-order")
	vAssert(vImplies(inOrder, sp.Epoch == pubEpoch), "epoch-adopted-or-equal")
	vAssert(vImplies(vNot(inOrder), sp.Epoch == posEpoch || (posEpoch == "" && sp.Epoch == pubEpoch)), "epoch-otherwise-kept-or-adopted")
	signalled := len(sigCh)
	vAssert(signalled == 0 || signalled == 1, "at-most-one-signal")
	vAssert(vIff(signalled == 1, wantInsufficient), "insufficient-state-iff-lag-or-epoch-or-gap")
	if signalled == 1 {
		vAssert(sigCh[0] == vC01Ch, "signal-names-channel")
		vAssert(vIff(sigSS[0], serverSide), "signal-carries-server-side-flag")
		vAssert(delivered == 0, "nothing-queued-when-insufficient")
		vAssert(sp.Offset == p, "position-kept-when-insufficient")
	}
	// o <= p (duplicate or stale): dropped silently.
	stale := vAnd(vAnd(vNot(lag), epochOK), vAnd(o <= p, p != math.MaxUint64))
	vAssert(vImplies(stale, vAnd(delivered == 0, signalled == 0)), "stale-offset-dropped-silently")

	vCover(delivered == 1, "delivered")
	vCover(vAnd(inOrder, delivered == 0), "withheld-by-filter-position-advanced")
	vCover(vAnd(signalled == 1, vAnd(vNot(lag), epochOK)), "gap-signalled")
	vCover(vAnd(signalled == 1, mismatch), "epoch-signalled")
	vCover(vAnd(signalled == 1, lag), "lag-signalled")
	vCover(stale, "stale-dropped")
	vCover(vAnd(p == math.MaxUint64, signalled == 1), "wrap-around-signalled")
	vCover(vAnd(o == math.MaxUint64, signalled == 1), "sentinel-signalled")
	vCover(vAnd(posEpoch == "", delivered == 1), "empty-epoch-adopted")
}

// vh_C01_live_real: same step, but the REAL handleInsufficientState runs (no
// stub): a client-side subscription must end with an insufficient-state
// unsubscribe push, a server-side one with an insufficient-state disconnect,
// and in both cases the publication itself never reaches the transport.
func vh_C01_live_real() {
	p := vU64("pos")
	posEpoch := vEpochsPos[vChoice("posEpoch", len(vEpochsPos))]
	pubEpoch := vEpochsPub[vChoice("pubEpoch", len(vEpochsPub))]
	serverSide := vChoice("serverSide", 2) == 1
	var extra uint16
	if serverSide {
		extra = flagServerSide
	}
	c, tr := vC01Client(StreamPosition{Offset: p, Epoch: posEpoch}, extra)
	o := vU64("off")
	vAssume(o != 0)
	lag := vBool("lag")
	filtered := vBool("filtered")
	pub := &protocol.Publication{Offset: o, Data: []byte("d")}
	prep := preparedData{fullData: []byte("F"), wasFiltered: filtered}
	if filtered {
		prep.filteredPub = &protocol.Publication{Offset: o, Time: -1}
	}
	before := len(tr.frames)
	_ = c.writePublication(vC01Ch, pub, prep, StreamPosition{Offset: o, Epoch: pubEpoch}, lag, ChannelBatchConfig{})
	vSettle()

	next := p + 1
	mismatch := posEpoch != "" && posEpoch != pubEpoch
	inOrder := vAnd(vAnd(vNot(lag), !mismatch), o == next)
	wantInsufficient := vOr(vOr(lag, mismatch), o > next)

	npub, nunsub := 0, 0
	for _, f := range tr.frames[before:] {
		m := vDecoded(f)
		if m == nil {
			vAssert(len(f) == 1 && f[0] == 'F', "raw-frame-is-this-publication")
			npub++
			continue
		}
		if r, ok := m.(*protocol.Reply); ok && r.Push != nil && r.Push.Unsubscribe != nil {
			vAssert(r.Push.Channel == vC01Ch, "unsubscribe-names-channel")
			vAssert(r.Push.Unsubscribe.Code == unsubscribeInsufficientState.Code, "unsubscribe-code-insufficient-state")
			nunsub++
		}
	}
	_, flags, ok := vC01Position(c)
	ended := (!serverSide && nunsub == 1 && !ok) ||
		(serverSide && tr.closed && tr.closeD.Code == DisconnectInsufficientState.Code)
	vAssert(vIff(ended, wantInsufficient), "subscription-ended-iff-insufficient")
	vAssert(vIff(npub == 1, vAnd(inOrder, vNot(filtered))), "delivered-iff-in-order-and-not-withheld")
	if ended {
		vAssert(npub == 0, "nothing-delivered-past-the-gap")
	} else {
		vAssert(ok && channelHasFlag(flags, flagSubscribed) && !tr.closed && nunsub == 0, "otherwise-subscription-intact")
	}
	vCover(vAnd(ended, !serverSide), "unsubscribe-push-insufficient")
	vCover(vAnd(ended, serverSide), "disconnect-insufficient")
	vCover(npub == 1, "delivered")
}

// vh_C01_live_trace: N consecutive arbitrary live publications from an
// arbitrary positioned state; the property is asserted directly on the trace
// observed at the transport: delivered offsets strictly increase and every
// offset between the subscribe position and a delivered offset was delivered
// or withheld by the tags filter; a gap is always signalled.
func vh_C01_live_trace() {
	nPubs := vParam("c01_trace_n", 3)
	p := vU64("pos")
	// keep clear of the wrap-around here (covered by vh_C01_live_step)
	vAssume(p < math.MaxUint64-8)
	posEpoch := vEpochsPos[vChoice("posEpoch", len(vEpochsPos))]
	c, tr := vC01Client(StreamPosition{Offset: p, Epoch: posEpoch}, 0)
	nsig := 0
	vStub(vInsufficientStub, func(cc *Client, ch string, ss bool) { nsig++ })

	type step struct {
		off       uint64
		delivered bool
		withheld  bool // advanced the position without delivery (tags filter)
		signalled bool
	}
	var steps []step
	for k := 0; k < nPubs; k++ {
		o := vU64("off")
		vAssume(o != 0)
		filtered := vBool("filtered")
		lag := vBool("lag")
		eb := vByte("pubEpoch") // 'A' or 'B', symbolic: the code under test forks on it only when it compares
		vAssume(vOr(eb == 'A', eb == 'B'))
		pubEpoch := string([]byte{eb})
		pub := &protocol.Publication{Offset: o}
		prep := preparedData{fullData: []byte{'P', byte(k)}, wasFiltered: filtered,
			filteredPub: &protocol.Publication{Offset: o, Time: -1}} // only read when wasFiltered
		before, sigBefore := len(tr.frames), nsig
		posBefore, _, _ := vC01Position(c)
		_ = c.writePublication(vC01Ch, pub, prep, StreamPosition{Offset: o, Epoch: pubEpoch}, lag, ChannelBatchConfig{})
		vSettle()
		posAfter, _, _ := vC01Position(c)
		st := step{off: o, signalled: nsig > sigBefore}
		nf := len(tr.frames) - before
		vAssert(nf <= 1, "at-most-one-frame-per-publication")
		if nf == 1 {
			f := tr.frames[before]
			vAssert(len(f) == 2 && f[0] == 'P' && f[1] == byte(k), "frame-is-this-publication")
			st.delivered = true
		}
		// a publication may be withheld only by the filter
		if !st.delivered && vConcBool(posAfter.Offset != posBefore.Offset) {
			st.withheld = true
			vAssert(filtered, "position-moves-without-delivery-only-for-filtered")
			vAssert(posAfter.Offset == o, "withheld-offset-recorded")
		}
		steps = append(steps, st)
	}
	// ---- the trace property
	last := p       // last offset delivered or withheld so far
	lastDeliv := p  // last delivered offset (or subscribe position)
	for k, st := range steps {
		if st.delivered {
			vAssert(st.off > lastDeliv, "delivered-offsets-strictly-increase")
			vAssert(st.off == last+1, "no-gap-before-delivered-offset")
			vAssert(!st.signalled, "delivered-publication-not-signalled")
			last, lastDeliv = st.off, st.off
		} else if st.withheld {
			vAssert(st.off == last+1, "withheld-offset-is-contiguous")
			last = st.off
		} else {
			// neither delivered nor withheld: a publication beyond the next
			// expected offset must have been signalled (never silently lost)
			vAssert(vImplies(st.off > last+1, st.signalled), "gap-is-signalled")
		}
		_ = k
	}
	vCover(len(steps) == 3 && steps[0].delivered && steps[1].delivered && steps[2].delivered, "three-delivered-in-a-row")
	vCover(len(steps) == 3 && steps[0].delivered && steps[1].withheld && steps[2].delivered, "delivered-withheld-delivered")
	vCover(len(steps) >= 2 && steps[0].signalled && steps[1].delivered, "delivered-after-signal-still-contiguous")
}

// ---------------------------------------------------------------------------
// C01 (b): subscribe-time recovery through the public command entry point
// against the real MemoryBroker.


func vC01Publish(n *Node, k int, hs int) {
	_, err := n.Publish(vC01Ch, []byte{byte('0' + k)}, WithHistory(hs, vHistTTL))
	vAssert(err == nil, "publish-ok")
}

// vChannelTrace collects, in transport order, what the connection received
// for channel vC01Ch after the connect reply.
type vChanTrace struct {
	subReply   *protocol.SubscribeResult // subscribe reply (client-side subscribe)
	subErr     *protocol.Error
	subReplyAt int
	pubs       []*protocol.Publication // live publication pushes, in order
	pubAt      []int
	unsubCode  uint32
	unsubAt    int
	nSubReply  int
}

func vCollect(tr *vTransport, subID uint32) *vChanTrace {
	t := &vChanTrace{subReplyAt: -1, unsubAt: -1}
	for k, r := range vReplies(tr) {
		if r == nil {
			continue
		}
		if r.Id == subID && subID != 0 {
			t.nSubReply++
			t.subReplyAt = k
			t.subReply = r.Subscribe
			t.subErr = r.Error
			continue
		}
		if r.Push != nil && r.Push.Channel == vC01Ch {
			if r.Push.Pub != nil {
				t.pubs = append(t.pubs, r.Push.Pub)
				t.pubAt = append(t.pubAt, k)
			}
			if r.Push.Unsubscribe != nil {
				t.unsubCode = r.Push.Unsubscribe.Code
				t.unsubAt = k
			}
		}
	}
	return t
}

// vAssertContiguous states the C01 trace property for one subscription: the
// recovered publications of the reply followed by the live pushes carry
// offsets base+1, base+2, ... (strictly increasing, no hole), where base is
// the offset announced by the subscribe reply.
func vAssertContiguous(t *vChanTrace) {
	res := t.subReply
	expect := res.Offset
	for _, p := range res.Publications {
		expect++
		vAssert(p.Offset == expect, "recovered-publications-contiguous-and-increasing")
		vAssert(p.Time != -1, "no-filter-marker-in-reply")
	}
	for k, p := range t.pubs {
		vAssert(t.pubAt[k] > t.subReplyAt, "live-push-after-subscribe-reply")
		expect++
		vAssert(p.Offset == expect, "live-pushes-continue-contiguously")
	}
}

func vh_C01_subscribe_recover() {
	maxHS := vParam("c01_hs", 3)
	maxPub := vParam("c01_pubs", 4)
	hs := 1 + vChoice("histSize", maxHS)
	np := vChoice("published", maxPub+1)
	positionedOnly := false
	n := vNewNode(Config{})
	n.OnConnect(func(c *Client) {
		c.OnSubscribe(func(e SubscribeEvent, cb SubscribeCallback) {
			cb(SubscribeReply{Options: SubscribeOptions{EnableRecovery: !positionedOnly, EnablePositioning: true}}, nil)
		})
	})
	for k := 1; k <= np; k++ {
		vC01Publish(n, k, hs)
	}
	top, err := n.streamTop(vC01Ch, 0)
	vAssert(err == nil, "stream-top-ok")
	vAssert(top.Offset == uint64(np), "broker-offsets-are-1..n")
	tr := vNewTransport()
	c := vNewClient(n, "u1", tr)
	vAssert(vConnect(c), "connect")
	vSettle()

	off := vU64("reqOffset")
	epochs := []string{top.Epoch, "", "zz"}
	reqEpoch := epochs[vChoice("reqEpoch", len(epochs))]
	ok := c.HandleCommand(&protocol.Command{Id: 2, Subscribe: &protocol.SubscribeRequest{
		Channel: vC01Ch, Recover: true, Offset: off, Epoch: reqEpoch}}, 0)
	vAssert(ok, "subscribe-command-accepted")
	vSettle()
	// one live publication after the subscribe
	vC01Publish(n, np+1, hs)
	vSettle()

	t := vCollect(tr, 2)
	vAssert(t.nSubReply == 1 && t.subErr == nil && t.subReply != nil, "one-subscribe-reply")
	vAssert(!tr.closed && t.unsubAt < 0, "no-spurious-termination")
	res := t.subReply
	vAssert(res.Positioned && res.Recoverable && res.WasRecovering, "reply-flags")
	if res.Recovered {
		// continuity from the position the client asked for
		vAssert(res.Offset == off, "recovered-from-requested-offset")
		vAssert(reqEpoch == "" || reqEpoch == top.Epoch, "recovered-only-in-same-epoch")
		vAssert(off <= uint64(np), "recovered-only-from-existing-position")
		vAssert(uint64(len(res.Publications)) == uint64(np)-off, "all-missed-publications-recovered")
		for _, p := range res.Publications {
			vAssert(len(p.Data) == 1 && uint64(p.Data[0]) == '0'+p.Offset, "recovered-publication-is-the-published-one")
		}
	} else {
		vAssert(len(res.Publications) == 0, "not-recovered-implies-no-publications")
		vAssert(res.Offset == uint64(np), "not-recovered-announces-stream-top")
	}
	vAssert(res.Epoch == top.Epoch, "reply-epoch-is-stream-epoch")
	vAssertContiguous(t)
	vAssert(len(t.pubs) == 1, "live-publication-delivered")
	vCover(res.Recovered && len(res.Publications) == 0, "recovered-nothing-missed")
	vCover(res.Recovered && len(res.Publications) >= 2, "recovered-several")
	vCover(!res.Recovered && np > 0, "not-recovered")
	vCover(!res.Recovered && hs < np, "not-recovered-history-trimmed")
}

// ---------------------------------------------------------------------------
// C01 (c): the subscribe window. One thread runs the real subscribe-with-
// recovery command, another publishes into the same channel; the scheduler
// explores every placement of up to c01_preempt context switches at the
// synchronisation points of the two threads (and the connection writer).
func vh_C01_subscribe_race() {
	maxHS := vParam("c01_race_hs", 2)
	maxPub := vParam("c01_race_pubs", 2)
	nRace := vParam("c01_race_n", 1)
	hs := 1 + vChoice("histSize", maxHS)
	np := vChoice("published", maxPub+1)
	n := vNewNode(Config{})
	n.OnConnect(func(c *Client) {
		c.OnSubscribe(func(e SubscribeEvent, cb SubscribeCallback) {
			cb(SubscribeReply{Options: SubscribeOptions{EnableRecovery: true}}, nil)
		})
	})
	for k := 1; k <= np; k++ {
		vC01Publish(n, k, hs)
	}
	top, _ := n.streamTop(vC01Ch, 0)
	tr := vNewTransport()
	c := vNewClient(n, "u1", tr)
	vAssert(vConnect(c), "connect")
	vSettle()

	off := vU64("reqOffset")
	published := 0
	go func() {
		for k := 1; k <= nRace; k++ {
			vC01Publish(n, np+k, hs)
			published++
		}
	}()
	vPreempt(vParam("c01_preempt", 1))
	ok := c.HandleCommand(&protocol.Command{Id: 2, Subscribe: &protocol.SubscribeRequest{
		Channel: vC01Ch, Recover: true, Offset: off, Epoch: top.Epoch}}, 0)
	vPreempt(0)
	vAssert(ok, "subscribe-command-accepted")
	vSettle()
	vAssert(published == nRace, "racing-publishes-done")
	// one more live publication after everything settled
	vC01Publish(n, np+nRace+1, hs)
	vSettle()
	last := uint64(np + nRace + 1)

	t := vCollect(tr, 2)
	// known finding (see vh_C01_subscribe_faults): a racing publication whose
	// offset is not above the requested offset is copied into the reply.
	vKnown("C01-buffered-offset-not-above-requested", off > uint64(np))
	// The broker delivered everything, in order, exactly once: there is no gap,
	// epoch change or lag, so the server has no reason to end the subscription.
	vAssert(!tr.closed && t.unsubAt < 0, "no-insufficient-state-without-a-gap")
	if tr.closed {
		// the server may refuse to continue, but only by insufficient state
		vAssert(tr.closeD.Code == DisconnectInsufficientState.Code, "closed-only-with-insufficient-state")
		vCover(true, "window-ended-with-insufficient-state")
		if t.subReply != nil {
			vAssertContiguous(t) // whatever was delivered before is still gap-free
		}
		return
	}
	vAssert(t.nSubReply == 1 && t.subErr == nil && t.subReply != nil, "one-subscribe-reply")
	res := t.subReply
	vAssertContiguous(t)
	if t.unsubAt >= 0 {
		vAssert(t.unsubCode == unsubscribeInsufficientState.Code, "unsubscribed-only-with-insufficient-state")
		vCover(true, "window-ended-with-insufficient-unsubscribe")
		return
	}
	// subscription alive: nothing was lost — reply + pushes reach the newest offset
	reached := res.Offset + uint64(len(res.Publications)) + uint64(len(t.pubs))
	vAssert(reached == last, "delivered-up-to-the-newest-offset")
	if res.Recovered {
		vAssert(res.Offset == off, "recovered-from-requested-offset")
	} else {
		vAssert(len(res.Publications) == 0, "not-recovered-implies-no-publications")
	}
	vCover(vAnd(res.Recovered && len(res.Publications) > 0, off+uint64(len(res.Publications)) > uint64(np)), "racing-publication-in-reply")
	vCover(len(t.pubs) == nRace+1, "racing-publication-pushed-after-reply")
	vCover(!res.Recovered, "not-recovered")
}

// ---------------------------------------------------------------------------
// C01 (d): PUB/SUB fault sequences inside the subscribe window, placed
// deterministically (no scheduler): while the real subscribeCmd reads history
// (hook in a Broker wrapper, i.e. after StartBuffering + Hub.addSub and before
// LockBufferAndReadBuffered), 0..2 new publications are made and each of their
// broker deliveries is delivered / dropped / delayed past the subscribe
// (thorough: duplicated, reordered); optionally an OLD publication is
// re-delivered (delayed duplicate). Afterwards one regular publication.
const (
	vActDeliver = iota
	vActDrop
	vActDelay
	vActDup
)

func vh_C01_subscribe_faults() {
	maxHS := vParam("c01_f_hs", 2)
	maxPub := vParam("c01_f_pubs", 2)
	maxNew := vParam("c01_f_new", 2)
	nActs := vParam("c01_f_acts", 3) // 3: deliver/drop/delay, 4: + duplicate
	reorder := vParam("c01_f_reorder", 0) == 1
	hs := 1 + vChoice("histSize", maxHS)
	np := vChoice("published", maxPub+1)
	n := vNewNode(Config{})
	mb := n.broker.(*MemoryBroker)
	hb := vInstallHookBroker(n)
	fh := vInstallFaultHandler(n, mb)
	n.OnConnect(func(c *Client) {
		c.OnSubscribe(func(e SubscribeEvent, cb SubscribeCallback) {
			cb(SubscribeReply{Options: SubscribeOptions{EnableRecovery: true}}, nil)
		})
	})
	for k := 1; k <= np; k++ {
		vC01Publish(n, k, hs)
	}
	top, _ := n.streamTop(vC01Ch, 0)
	tr := vNewTransport()
	c := vNewClient(n, "u1", tr)
	vAssert(vConnect(c), "connect")
	vSettle()

	off := vU64("reqOffset")
	nNew := vChoice("newInWindow", maxNew+1)
	stale := uint64(0) // offset of an old publication re-delivered in the window (0: none)
	if np > 0 && vChoice("staleRedelivery", 2) == 1 {
		stale = vU64("staleOffset")
		vAssume(vAnd(stale >= 1, stale <= uint64(np)))
	}
	var delayed []vDelivery
	dropped := false
	hole := false // a new publication reached the window buffer while its predecessor did not
	inWindow := map[uint64]bool{}
	window := func() {
		if stale != 0 {
			fh.deliver(vDelivery{ch: vC01Ch, pub: &Publication{Offset: stale, Data: []byte("s")},
				sp: StreamPosition{Offset: stale, Epoch: top.Epoch}})
		}
		fh.hold = true
		for k := 1; k <= nNew; k++ {
			vC01Publish(n, np+k, hs)
		}
		fh.hold = false
		held := fh.held
		fh.held = nil
		if reorder && len(held) == 2 && vChoice("swap", 2) == 1 {
			held[0], held[1] = held[1], held[0]
		}
		for _, d := range held {
			o := d.pub.Offset // concrete: assigned by the real broker
			act := vChoice("act", nActs)
			switch act {
			case vActDeliver, vActDup:
				if o > uint64(np)+1 && !inWindow[o-1] {
					hole = true
				}
				inWindow[o] = true
				fh.deliver(d)
				if act == vActDup {
					fh.deliver(d)
				}
			case vActDrop:
				dropped = true
			case vActDelay:
				delayed = append(delayed, d)
			}
		}
	}
	after := vChoice("windowAfterHistoryRead", 2) == 1
	if after {
		hb.afterHistory = window
	} else {
		hb.beforeHistory = window
	}
	hb.armed = true
	ok := c.HandleCommand(&protocol.Command{Id: 2, Subscribe: &protocol.SubscribeRequest{
		Channel: vC01Ch, Recover: true, Offset: off, Epoch: top.Epoch}}, 0)
	hb.armed = false
	vAssert(ok, "subscribe-command-accepted")
	vAssert(hb.beforeHistory == nil && hb.afterHistory == nil, "window-hook-ran")
	vSettle()
	for _, d := range delayed {
		fh.deliver(d)
		vSettle()
	}
	vC01Publish(n, np+nNew+1, hs)
	vSettle()
	last := uint64(np + nNew + 1)

	t := vCollect(tr, 2)
	// Known finding regions (see known_findings.json / report):
	//  - a delivery whose offset is not above the requested offset, buffered in
	//    the window, is copied into the reply of a successful recovery;
	//  - the merge checks gaps only BETWEEN merged publications, not between the
	//    recovered position and the first buffered publication.
	vKnown("C01-buffered-offset-not-above-requested", vOr(vAnd(stale != 0, stale <= off), vAnd(nNew > 0 && !after, off > uint64(np))))
	vKnown("C01-window-gap-before-first-buffered", vAnd(hole && after, off == uint64(np)))
	if !dropped && len(delayed) == 0 && stale == 0 && !hole {
		// fault-free window (every delivery forwarded, in order): no reason to end
		vAssert(!tr.closed && t.unsubAt < 0, "no-insufficient-state-without-a-fault")
	}
	if tr.closed {
		vAssert(tr.closeD.Code == DisconnectInsufficientState.Code, "closed-only-with-insufficient-state")
		vCover(true, "window-ended-with-insufficient-state")
		if t.subReply != nil {
			vAssertContiguous(t)
		}
		return
	}
	vAssert(t.nSubReply == 1 && t.subErr == nil && t.subReply != nil, "one-subscribe-reply")
	res := t.subReply
	vAssertContiguous(t)
	if t.unsubAt >= 0 {
		vAssert(t.unsubCode == unsubscribeInsufficientState.Code, "unsubscribed-only-with-insufficient-state")
		vCover(true, "ended-with-insufficient-unsubscribe")
		return
	}
	reached := res.Offset + uint64(len(res.Publications)) + uint64(len(t.pubs))
	vAssert(reached == last, "delivered-up-to-the-newest-offset")
	if res.Recovered {
		vAssert(res.Offset == off, "recovered-from-requested-offset")
	} else {
		vAssert(len(res.Publications) == 0, "not-recovered-implies-no-publications")
	}
	vCover(res.Recovered && nNew > 0 && len(res.Publications) > 0, "recovered-with-window-publications")
	vCover(!dropped && len(delayed) > 0, "delayed-delivery-survived")
	vCover(stale != 0, "stale-redelivery-survived")
}
