package centrifuge

import (
	"context"
	"strconv"
	"time"

	"github.com/centrifugal/centrifuge/internal/controlpb"
)

// C41: the real Node.Survey (collector goroutine + select + WaitGroup +
// context deadline on the virtual clock) and the real handleSurveyResponse.
// Node registry = {self, nodeB}. publishControl is stubbed: when the survey
// request is "sent" it starts one injector thread per planned response; each
// sleeps its (enumerated) delay on the virtual clock and then calls the real
// handleSurveyResponse. Responses: from nodeB or from an unregistered nodeC,
// for the survey's own id or for a foreign id, possibly duplicated, possibly
// after the deadline. Data of every response carries a unique concrete tag,
// Code is symbolic.
//
// Oracle (from the statement): (1) every result belongs to a node that sent a
// response for THIS survey id no later than the return, and is one of that
// node's own-id responses; a response delivered strictly before the return is
// not lost; (2) Survey returns exactly when the last expected node answered,
// or at the deadline (then with the context's error); (3) every injector and
// the local reply callback return (nothing blocks), also when late.

const vC41PublishControl = "(*github.com/centrifugal/centrifuge.Node).publishControl"

const (
	vC41Sec      = int64(time.Second)
	vC41Deadline = 10 * int64(time.Second)
)

var vC41Delays = []int64{0, 3 * int64(time.Second), 12 * int64(time.Second), 10 * int64(time.Second)}

type vC41Resp struct {
	uid   string
	own   bool
	delay int64
	tag   byte
	code  uint32
	done  bool
	at    int64
}

type vC41Survey struct {
	n        *Node
	id       uint64 // id the survey gets
	resps    []*vC41Resp
	sent     int
	toNode   string
	deadline int64
	// local handler
	localMode  int // 0 sync reply, 1 never, 2 async reply
	localDelay int64
	localCode  uint32
	localDone  bool
	localAt    int64
	localCalls int
}

func vC41Node() *Node {
	n := vLightNodeOpt(Config{}, false)
	n.nodes.add(&controlpb.Node{Uid: n.uid})
	n.nodes.add(&controlpb.Node{Uid: "nodeB"})
	return n
}

// plan enumerates the responses of one survey.
func (s *vC41Survey) plan(prefix string, maxR, delays int, tagBase byte) {
	nr := vChoice(prefix+"responses", maxR+1)
	for k := 0; k < nr; k++ {
		r := &vC41Resp{tag: tagBase + byte(k), code: vU32(prefix + "code")}
		switch vChoice(prefix+"kind", 3) {
		case 0:
			r.uid, r.own = "nodeB", true
		case 1:
			r.uid, r.own = "nodeB", false
		default:
			r.uid, r.own = "nodeC", true
		}
		r.delay = vC41Delays[vChoice(prefix+"delay", delays)]
		s.resps = append(s.resps, r)
	}
}

// inject starts the injector threads (called from the publishControl stub).
func (s *vC41Survey) inject(foreignID uint64) {
	for _, r := range s.resps {
		r := r
		id := s.id
		if !r.own {
			id = foreignID
		}
		go func() {
			if r.delay > 0 {
				time.Sleep(time.Duration(r.delay))
			}
			err := s.n.handleSurveyResponse(r.uid, &controlpb.SurveyResponse{Id: id, Code: r.code, Data: []byte{r.tag}})
			vAssert(err == nil, "handleSurveyResponse returns nil")
			r.at = vNowNano()
			r.done = true
		}()
	}
}

func (s *vC41Survey) handler() SurveyHandler {
	return func(e SurveyEvent, cb SurveyCallback) {
		s.localCalls++
		switch s.localMode {
		case 0:
			cb(SurveyReply{Code: s.localCode, Data: []byte{200}})
			s.localAt = vNowNano()
			s.localDone = true
		case 2:
			go func() {
				if s.localDelay > 0 {
					time.Sleep(time.Duration(s.localDelay))
				}
				cb(SurveyReply{Code: s.localCode, Data: []byte{200}})
				s.localAt = vNowNano()
				s.localDone = true
			}()
		}
	}
}

// check is the oracle for one finished survey.
// resps: the responses that carry this survey's id.
func (s *vC41Survey) check(t0, tret int64, res map[string]SurveyResult, err error, selfUID string, resps []*vC41Resp) {
	dl := t0 + s.deadline
	// expected nodes
	var expected []string
	switch s.toNode {
	case "":
		expected = []string{selfUID, "nodeB"}
	default:
		expected = []string{s.toNode}
	}
	localInvoked := s.toNode == "" || s.toNode == selfUID
	vAssert((s.localCalls == 1) == localInvoked && s.localCalls <= 1, "local handler invoked once iff this node is surveyed")
	// first own-id answer time per expected node (-1: never)
	first := func(uid string) int64 {
		best := int64(-1)
		if uid == selfUID {
			if localInvoked && s.localMode != 1 {
				d := int64(0)
				if s.localMode == 2 {
					d = s.localDelay
				}
				best = t0 + d
			}
			return best
		}
		for _, r := range resps {
			if r.uid == uid && (best < 0 || t0+r.delay < best) {
				best = t0 + r.delay
			}
		}
		return best
	}
	tstar := int64(0)
	all := true
	for _, u := range expected {
		f := first(u)
		if f < 0 {
			all = false
		} else if f > tstar {
			tstar = f
		}
	}
	// an answer of an unregistered node that arrives before the last expected
	// one makes the reply COUNT reach the expected number early
	extraEarly := false
	{
		for _, r := range resps {
			if r.uid == "nodeC" && (!all || t0+r.delay <= tstar) && t0+r.delay <= dl {
				extraEarly = true
			}
		}
	}
	vKnown("C41-unregistered-node-answer-ends-survey-early", extraEarly)
	vTrace("survey id=" + strconv.Itoa(int(s.id)) + " t0=" + strconv.FormatInt(t0, 10) + " tret=" + strconv.FormatInt(tret, 10) +
		" tstar=" + strconv.FormatInt(tstar, 10) + " deadline=" + strconv.FormatInt(dl, 10) + " results=" + strconv.Itoa(len(res)))
	switch {
	case all && tstar < dl:
		vAssert(tret == tstar, "returns as soon as every expected node answered")
		vAssert(err == nil, "no error when every expected node answered in time")
		vCover(true, "all-answered-before-deadline")
	case all && tstar == dl:
		vAssert(tret == dl, "returns at the deadline (tie with the last answer)")
		vCover(true, "tie-at-deadline")
	default:
		vAssert(tret == dl, "returns at the deadline when somebody did not answer")
		vAssert(err == context.DeadlineExceeded, "deadline error when somebody did not answer")
		vCover(true, "deadline")
	}
	// results
	for uid, got := range res {
		vAssert(len(got.Data) == 1, "result data is one of the injected payloads")
		ok := false
		if uid == selfUID {
			ok = localInvoked && s.localMode != 1 && got.Data[0] == 200 && got.Code == s.localCode
		} else {
			for _, r := range resps {
				if r.uid == uid && t0+r.delay <= tret && got.Data[0] == r.tag {
					ok = vOr(ok, got.Code == r.code)
				}
			}
		}
		vAssert(ok, "result is an own-id response of that node delivered before the return")
	}
	for _, u := range expected {
		f := first(u)
		if f >= 0 && f < tret {
			_, has := res[u]
			vAssert(has, "an answer delivered before the return is in the results")
		}
	}
	vCover(len(res) == 2, "two-results")
}

func (s *vC41Survey) ownResps() []*vC41Resp {
	var out []*vC41Resp
	if s.sent > 0 {
		for _, r := range s.resps {
			if r.own {
				out = append(out, r)
			}
		}
	}
	return out
}

func (s *vC41Survey) foreignResps() []*vC41Resp {
	var out []*vC41Resp
	if s.sent > 0 {
		for _, r := range s.resps {
			if !r.own {
				out = append(out, r)
			}
		}
	}
	return out
}

func (s *vC41Survey) checkNothingBlocked() {
	if s.sent > 0 {
		for _, r := range s.resps {
			vAssert(r.done, "response injector returned (handleSurveyResponse never blocks)")
		}
	}
	if s.localCalls == 1 && s.localMode != 1 {
		vAssert(s.localDone, "local reply callback returned")
	}
}

// vh_C41_survey: the full enumeration of responses, run-to-block scheduling
// (c41_preempt extra preemptions, 0 in the quick tier).
func vh_C41_survey() {
	vC41Body(vParam("c41_responses", 2), vParam("c41_delays", 3), vParam("c41_preempt", 0), true)
}

// vh_C41_sched: fewer responses, but with a preemption budget: the scheduler
// may switch threads at every lock / channel / WaitGroup / go operation of
// Survey, the collector, the injectors and the local reply.
func vh_C41_sched() {
	vC41Body(vParam("c41_sched_responses", 1), 3, vParam("c41_sched_preempt", 2), false)
}

// vh_C41_burst: a burst of duplicate answers (more than the reply channel can
// buffer) right when the survey completes: duplicates must be dropped, never
// block their sender.
func vh_C41_burst() {
	n := vC41Node()
	s := &vC41Survey{n: n, id: 1, deadline: vC41Deadline, localMode: 0}
	if vChoice("to_node", 2) == 1 {
		s.toNode = "nodeB"
		s.localMode = 1
	}
	k := vParam("c41_burst", 4)
	for i := 0; i < k; i++ {
		r := &vC41Resp{uid: "nodeB", own: true, tag: 10 + byte(i), code: vU32("code")}
		if i > 0 {
			r.delay = vC41Delays[vChoice("delay", 2)]
		}
		s.resps = append(s.resps, r)
	}
	vC41Run(n, s, context.Background(), vParam("c41_burst_preempt", 0))
}

func vC41Body(maxR, delays, preempt int, full bool) {
	n := vC41Node()
	s := &vC41Survey{n: n, id: 1, deadline: vC41Deadline}
	if full {
		switch vChoice("to_node", 3) {
		case 1:
			s.toNode = "nodeB"
		case 2:
			s.toNode = n.uid
		}
	}
	s.localMode = 1
	if s.toNode != "nodeB" { // the local handler is not invoked for a remote-only survey
		if full {
			s.localMode = vChoice("local_handler", 3)
		} else {
			s.localMode = 2 * vChoice("local_handler", 2) // sync or async
		}
	}
	s.localCode = vU32("local_code")
	if s.localMode == 2 {
		if full {
			s.localDelay = vC41Delays[vChoice("local_delay", delays)]
		} else {
			s.localDelay = vC41Delays[2] // late
		}
	}
	if s.toNode != n.uid {
		s.plan("", maxR, delays, 10)
	}
	ctx := context.Background()
	if full && vChoice("own_deadline", 2) == 1 {
		var cancel context.CancelFunc
		s.deadline = 5 * vC41Sec
		ctx, cancel = context.WithTimeout(ctx, time.Duration(s.deadline))
		defer cancel()
	}
	vC41Run(n, s, ctx, preempt)
}

// vC41Run runs one survey with the planned responses and checks the oracle.
func vC41Run(n *Node, s *vC41Survey, ctx context.Context, preempt int) {
	n.OnSurvey(s.handler())
	vStub(vC41PublishControl, func(nn *Node, cmd *controlpb.Command, nodeID string) error {
		vAssert(cmd.SurveyRequest != nil && cmd.SurveyRequest.Id == s.id && nodeID == s.toNode, "survey request published once with the registered id")
		s.sent++
		s.inject(s.id + 7)
		return nil
	})
	// watchdog on the virtual clock: a Survey that never returns (deadlock) is a
	// violation, not an endless run
	returned := false
	go func() {
		time.Sleep(time.Duration(60 * vC41Sec))
		vAssert(returned, "Survey returns (within 60s of virtual time; deadline is <= 10s)")
	}()
	vPreempt(preempt)
	t0 := vNowNano()
	res, err := n.Survey(ctx, "op", []byte("q"), s.toNode)
	tret := vNowNano()
	returned = true
	vPreempt(0)
	vSettle()              // everything runnable at the return time runs at that time
	vAdvance(30 * vC41Sec) // then let late injectors and a late local reply happen
	vSettle()
	vAssert(s.sent <= 1, "at most one request published")
	s.check(t0, tret, res, err, n.uid, s.ownResps())
	s.checkNothingBlocked()
	n.surveyMu.RLock()
	vAssert(len(n.surveyRegistry) == 0, "survey unregistered after return")
	n.surveyMu.RUnlock()
}

// vh_C41_two: two concurrent surveys of the same node; responses for one id
// must never reach (or end, or block) the other.
func vh_C41_two() {
	n := vC41Node()
	a := &vC41Survey{n: n, deadline: vC41Deadline}
	b := &vC41Survey{n: n, deadline: vC41Deadline}
	maxR := vParam("c41_two_responses", 1)
	a.plan("a_", maxR, 2, 10)
	b.plan("b_", maxR, 2, 20)
	// a foreign response carries the OTHER survey's id; it is sent 3s in, when
	// both surveys are certainly registered
	for _, r := range append(append([]*vC41Resp{}, a.resps...), b.resps...) {
		if !r.own && r.delay == 0 {
			r.delay = 3 * vC41Sec
		}
	}
	a.localMode, b.localMode = 0, 0
	calls := 0
	n.OnSurvey(func(e SurveyEvent, cb SurveyCallback) {
		calls++
		cb(SurveyReply{Code: 5, Data: []byte{200}})
	})
	a.localCode, b.localCode = 5, 5
	vStub(vC41PublishControl, func(nn *Node, cmd *controlpb.Command, nodeID string) error {
		id := cmd.SurveyRequest.Id
		// the first published request belongs to whichever survey registered
		// that id; foreign responses of one survey carry the OTHER survey's id
		s, o := a, b
		if cmd.SurveyRequest.Op == "b" {
			s, o = b, a
		}
		s.id = id
		s.sent++
		other := o.id
		if other == 0 {
			other = 3 - id
		}
		s.inject(other)
		return nil
	})
	finished := 0
	go func() {
		time.Sleep(time.Duration(60 * vC41Sec))
		vAssert(finished == 2, "both surveys return (within 60s of virtual time)")
	}()
	vPreempt(vParam("c41_two_preempt", 0))
	var resB map[string]SurveyResult
	var errB error
	var t0B, tretB int64
	doneB := false
	go func() {
		t0B = vNowNano()
		resB, errB = n.Survey(context.Background(), "b", nil, "")
		tretB = vNowNano()
		doneB = true
		finished++
	}()
	t0A := vNowNano()
	resA, errA := n.Survey(context.Background(), "a", nil, "")
	tretA := vNowNano()
	finished++
	vPreempt(0)
	vSettle()
	vAdvance(30 * vC41Sec)
	vSettle()
	vAssert(doneB, "second survey returned")
	vAssert(a.id != b.id && a.id != 0 && b.id != 0, "distinct survey ids")
	a.localCalls, b.localCalls = 1, 1
	vAssert(calls == 2, "local handler invoked once per survey")
	a.localDone, b.localDone = true, true
	// a "foreign" response of one survey carries the other survey's id: for the
	// other survey it is a regular response
	vAssert(t0A == t0B, "both surveys start at the same virtual time")
	a.check(t0A, tretA, resA, errA, n.uid, append(a.ownResps(), b.foreignResps()...))
	b.check(t0B, tretB, resB, errB, n.uid, append(b.ownResps(), a.foreignResps()...))
	a.checkNothingBlocked()
	b.checkNothingBlocked()
}

