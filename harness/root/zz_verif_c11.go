package centrifuge

import (
	"context"

	"github.com/centrifugal/protocol"
)

// C11 (first clause): on a bidirectional connection the connect reply is the
// first message the server writes; no push precedes it. The connect command
// (with server-side subscriptions, positioned or not) races a publication to
// such a channel or a node-level operation addressed to the user.
func vh_C11_connect_reply_first() {
	positioned := vChoice("positioned", 2) == 1
	replyNoQueue := false
	if vParam("c11_noqueue", 0) == 1 {
		replyNoQueue = vChoice("reply_without_queue", 2) == 1
	}
	n := vNewNode(Config{})
	n.OnConnecting(func(ctx context.Context, e ConnectEvent) (ConnectReply, error) {
		return ConnectReply{
			Subscriptions:     map[string]SubscribeOptions{"s": {EnablePositioning: positioned, EnableRecovery: positioned, EmitJoinLeave: true, PushJoinLeave: true}},
			ReplyWithoutQueue: replyNoQueue,
		}, nil
	})
	n.OnConnect(func(c *Client) {})
	if positioned {
		_, err := n.Publish("s", []byte("{}"), WithHistory(3, 60_000_000_000))
		vAssert(err == nil, "publish ok")
	}
	tr := vNewTransport()
	c := vNewClient(n, "u", tr)
	other := vChoice("other", vParam("c11_racers", 6))
	if other == 5 {
		vAssume(!positioned) // for a positioned subscription this is racer 0
	}
	racer := func() {
		switch other {
		case 0:
			if positioned {
				_, _ = n.Publish("s", []byte("{}"), WithHistory(3, 60_000_000_000))
			} else {
				_, _ = n.Publish("s", []byte("{}"))
			}
		case 1:
			_ = n.Subscribe("u", "x")
		case 2:
			_ = n.Disconnect("u")
		case 3:
			_ = n.Unsubscribe("u", "s")
		case 5:
			// a publication that carries an offset (history) to the NON-positioned
			// connect-time subscription: delivered only to established subscriptions
			_, _ = n.Publish("s", []byte("{}"), WithHistory(3, 60_000_000_000))
		default:
			_ = n.Refresh("u", WithRefreshExpired(true))
		}
	}
	first := vChoice("first", 2)
	vPreempt(vParam("c11_preempt", 1))
	if first == 0 {
		go vConnect(c)
		go racer()
	} else {
		go racer()
		go vConnect(c)
	}
	vSettle()
	vPreempt(0)
	vSettle()

	connectAt := -1
	for k, f := range tr.frames {
		r, _ := vDecoded(f).(*protocol.Reply)
		vAssert(r != nil, "frames-decode")
		vTrace(vFrameKind(r))
		if r.Connect != nil {
			vAssert(connectAt < 0, "single-connect-reply")
			connectAt = k
			vAssert(r.Id == 1, "connect-reply-carries-command-id")
		}
	}
	if connectAt >= 0 {
		// Known findings (see known_findings.json): connectCmd registers the
		// connection in the hub before it writes the connect reply, so three
		// kinds of frames can overtake the reply. Each region requires that
		// everything in front of the reply is of exactly that kind.
		before := func(kind string) bool {
			if connectAt <= 0 {
				return false
			}
			for k := 0; k < connectAt; k++ {
				r, _ := vDecoded(tr.frames[k]).(*protocol.Reply)
				if len(vFrameKind(r)) < len(kind) || vFrameKind(r)[:len(kind)] != kind {
					return false
				}
			}
			return true
		}
		vKnown("C11-node-subscribe-during-connect", other == 1 && before("frame: subscribe push"))
		vKnown("C11-publication-during-connect", other == 0 && !positioned && before("frame: publication push"))
		vKnown("C11-disconnect-during-connect", (other == 2 || other == 4) && before("frame: disconnect push"))
		vAssert(connectAt == 0, "connect-reply-is-first-message/racer="+vRacerName(other))
	} else {
		// closed before the reply was written: nothing but a disconnect push may be there
		for _, f := range tr.frames {
			r, _ := vDecoded(f).(*protocol.Reply)
			vAssert(r.Push != nil && r.Push.Disconnect != nil, "only-disconnect-push-without-connect-reply")
		}
	}
	vCover(connectAt == 0 && len(tr.frames) > 1, "pushes-after-connect-reply")
	vCover(connectAt < 0, "closed-before-reply")
}

func vFrameKind(r *protocol.Reply) string {
	switch {
	case r == nil:
		return "frame: ?"
	case r.Connect != nil:
		return "frame: connect reply"
	case r.Subscribe != nil:
		return "frame: subscribe reply"
	case r.Unsubscribe != nil:
		return "frame: unsubscribe reply"
	case r.Error != nil:
		return "frame: error reply"
	case r.Push != nil && r.Push.Pub != nil:
		return "frame: publication push " + r.Push.Channel
	case r.Push != nil && r.Push.Join != nil:
		return "frame: join push " + r.Push.Channel
	case r.Push != nil && r.Push.Leave != nil:
		return "frame: leave push " + r.Push.Channel
	case r.Push != nil && r.Push.Subscribe != nil:
		return "frame: subscribe push " + r.Push.Channel
	case r.Push != nil && r.Push.Unsubscribe != nil:
		return "frame: unsubscribe push " + r.Push.Channel
	case r.Push != nil && r.Push.Disconnect != nil:
		return "frame: disconnect push"
	case r.Push != nil:
		return "frame: other push " + r.Push.Channel
	}
	return "frame: other reply"
}

func vRacerName(k int) string {
	return [...]string{"publish", "node-subscribe", "node-disconnect", "node-unsubscribe", "node-refresh", "publish-with-offset"}[k]
}

// vDictTransport is a recording transport that also implements
// DictionaryAwareTransport, to observe when the connection's encoder is closed
// relative to the frames written and to the transport close.
type vDictTransport struct {
	*vTransport
	dictCloses   int
	framesAtDict int  // frames written when the encoder was closed
	closedAtDict bool // transport already closed when the encoder was closed
}

func (t *vDictTransport) SetDictionaryCompression(cc DictionaryConnection) {}
func (t *vDictTransport) CloseDictionaryCompression() {
	t.dictCloses++
	if t.dictCloses == 1 {
		t.framesAtDict = len(t.frames)
		t.closedAtDict = t.closed
	}
}

// C11 (encoder clause, close ordering): when a connection closes, its encoder
// is closed exactly once, after the last frame was handed to the transport
// (queued frames are flushed first when the close flushes) and before the
// transport itself is closed.
func vh_C11_encoder_closed_after_last_use() {
	n := vNewNode(Config{})
	delayed := vChoice("write_delay", 2) == 1
	n.OnConnecting(func(ctx context.Context, e ConnectEvent) (ConnectReply, error) {
		r := ConnectReply{Subscriptions: map[string]SubscribeOptions{"s": {}}}
		if delayed {
			r.WriteDelay = 30_000_000_000
			r.ReplyWithoutQueue = true
		}
		return r, nil
	})
	n.OnConnect(func(c *Client) {})
	tr := &vDictTransport{vTransport: vNewTransport()}
	ctx := SetCredentials(context.Background(), &Credentials{UserID: "u"})
	c, _, err := NewClient(ctx, n, tr)
	vAssert(err == nil, "new client")
	vAssert(vConnect(c), "connect")
	vSettle()
	npub := 1 + vChoice("npub", 3)
	for k := 0; k < npub; k++ {
		_, err := n.Publish("s", []byte("{}"))
		vAssert(err == nil, "publish")
	}
	if !delayed {
		vSettle()
	}
	queuedBefore := len(tr.frames)
	switch vChoice("close", 3) {
	case 0:
		_ = c.close(DisconnectForceNoReconnect) // flushes what is queued
	case 1:
		_ = c.close(DisconnectConnectionClosed) // no flush
	default:
		_ = c.close(DisconnectExpired)
	}
	vSettle()
	vAssert(tr.dictCloses == 1, "encoder closed exactly once")
	vAssert(!tr.closedAtDict, "encoder closed before the transport")
	vAssert(tr.framesAtDict == len(tr.frames), "no frame written after the encoder was closed")
	vCover(delayed && len(tr.frames) > queuedBefore, "queued-frames-flushed-by-close")
}

// ---------------------------------------------------------------------------
// C11 (encoder clause, close racing the negotiation): an engine-provided
// encoder that gets installed on the transport is closed exactly once, also
// when close() lands while connectCmd is inside the engine (a slow
// NewDictionaryConnection / Dictionary call). The transport below behaves like
// the real one: closing before anything is installed closes nothing.

type vC11Codec struct{ closes int }

func (c *vC11Codec) Dictionary() *protocol.Dictionary { return &protocol.Dictionary{Id: "d1", Data: []byte{1}} }
func (c *vC11Codec) Encode(frame []byte) ([]byte, bool) { return frame, false }
func (c *vC11Codec) Close()                             { c.closes++ }

type vC11Engine struct {
	codec *vC11Codec
	hook  func()
}

func (e *vC11Engine) NewDictionaryConnection(p DictionaryConnectionParams) DictionaryConnection {
	if e.hook != nil {
		e.hook()
	}
	return e.codec
}

type vC11InstallTransport struct {
	*vTransport
	installed DictionaryConnection
}

func (t *vC11InstallTransport) SetDictionaryCompression(cc DictionaryConnection) { t.installed = cc }
func (t *vC11InstallTransport) CloseDictionaryCompression() {
	if t.installed != nil {
		t.installed.Close()
		t.installed = nil
	}
}

func vh_C11_close_during_negotiation() {
	codec := &vC11Codec{}
	eng := &vC11Engine{codec: codec}
	n := vNewNode(Config{DictionaryCompression: eng})
	n.OnConnecting(func(ctx context.Context, e ConnectEvent) (ConnectReply, error) { return ConnectReply{}, nil })
	n.OnConnect(func(c *Client) {})
	tr := &vC11InstallTransport{vTransport: vNewTransport()}
	ctx := SetCredentials(context.Background(), &Credentials{UserID: "u"})
	c, _, err := NewClient(ctx, n, tr)
	vAssert(err == nil, "new client")
	when := vChoice("close_lands", 3) // 0 inside the engine call, 1 after connect, 2 before connect
	if when == 0 {
		eng.hook = func() {
			go func() { _ = c.close(DisconnectForceNoReconnect) }()
			vSettle() // close() runs to completion while the engine call is in flight
		}
	}
	if when == 2 {
		_ = c.close(DisconnectForceNoReconnect)
	}
	vConnect(c)
	vSettle()
	if when == 1 {
		_ = c.close(DisconnectForceNoReconnect)
	}
	vSettle()
	vAssert(tr.closed, "connection closed")
	vAssert(tr.installed == nil, "no encoder left installed on a closed connection")
	vAssert(codec.closes <= 1, "encoder closed at most once")
	vCover(when == 0 && codec.closes == 1, "closed-after-racing-install")
	vCover(when == 1 && codec.closes == 1, "closed-by-close")
}
