package centrifuge

import (
	"math"
	"sync"
	"time"
)

// C38: the channel medium (channel_medium.go) keeps the delivery guarantees.
// The real channelMedium runs against a recording fake of its node-facing
// interface (nodeSubset). What reaches the subscribers of a channel is exactly
// the sequence of handlePublication calls the fake records.

type c38call struct {
	sp           StreamPosition
	pub          *Publication
	prevPub      *Publication
	localPrevPub *Publication
}

type c38top struct {
	sp  StreamPosition
	err bool
}

type c38node struct {
	calls    []c38call
	tops     []c38top // what the next streamTop/mapStreamTop calls answer
	ntop     int      // calls answered so far
	nstream  int
	nmap     int
	mu       sync.Mutex // a synchronisation point inside handlePublication
	inHandle bool
	overlap  bool
}

func (n *c38node) handlePublication(ch string, sp StreamPosition, pub, prevPub *Publication, localPrevPub *Publication) error {
	if n.inHandle {
		n.overlap = true
	}
	n.inHandle = true
	n.mu.Lock() // lets the scheduler preempt in the middle of a broadcast
	n.calls = append(n.calls, c38call{sp, pub, prevPub, localPrevPub})
	n.mu.Unlock()
	n.inHandle = false
	if ch != "ch" {
		vFail("handlePublication for another channel")
	}
	return nil
}

func (n *c38node) top() (StreamPosition, error) {
	if n.ntop >= len(n.tops) {
		vFail("more stream-top requests than one check with one retry may issue")
		return StreamPosition{}, errVerifWrite
	}
	t := n.tops[n.ntop]
	n.ntop++
	if t.err {
		return StreamPosition{}, errVerifWrite
	}
	return t.sp, nil
}

func (n *c38node) streamTop(ch string, historyMetaTTL time.Duration) (StreamPosition, error) {
	n.nstream++
	return n.top()
}

func (n *c38node) mapStreamTop(ch string) (StreamPosition, error) {
	n.nmap++
	return n.top()
}

// epochs are one symbolic byte long: "1" or "2"
func c38epoch(name string) string {
	e := vString(name, 1)
	vAssume(vOr(e[0] == '1', e[0] == '2'))
	return e
}

func c38pos(prefix string) StreamPosition {
	return StreamPosition{Offset: vU64(prefix + "_off"), Epoch: c38epoch(prefix + "_epoch")}
}

func c38isSentinel(c c38call) bool {
	return c.pub != nil && c.sp.Offset == math.MaxUint64 && c.pub.Offset == math.MaxUint64
}

// ---------------------------------------------------------------------------
// (a) no-queue mode, sequential. The medium starts in an ARBITRARY state
// (symbolic age of the last position check, latestPublication nil or set),
// then c38_k operations run, 10ms of virtual time apart; each operation is
// checked against the reference right after it returns, including the state
// it leaves behind (so one step from an arbitrary state is an inductive step
// for sequences of any length).
func vh_C38_direct() {
	k := vParam("c38_k", 2)
	node := &c38node{}
	keep := vChoice("keep_latest", 2) == 1
	isMap := vChoice("is_map", 2) == 1
	m, err := newChannelMedium("ch", node, ChannelMediumOptions{KeepLatestPublication: keep, SharedPositionSync: true})
	if err != nil {
		vFail("newChannelMedium failed")
		return
	}
	m.isMap = isMap
	// arbitrary pre-state
	age := int64(vRange("age_ms", 0, 60)) * int64(time.Millisecond)
	lastCheck := vNowNano() - age // reference: time of the last broadcast / performed check
	m.positionCheckTime = lastCheck
	var refLatest *Publication
	if keep && vChoice("has_latest", 2) == 1 {
		refLatest = &Publication{Offset: vU64("latest_off")}
		m.latestPublication = refLatest
	}
	nsent := 0
	for step := 0; step < k; step++ {
		if step > 0 {
			vAdvance(10 * int64(time.Millisecond))
		}
		before := len(node.calls)
		switch vChoice("op", 3) {
		case 0: // publication from the broker
			off := vU64("pub_off")
			vAssume(off != math.MaxUint64) // the sentinel value is not a real offset
			key := ""
			if isMap && vChoice("keyed", 2) == 1 {
				key = "k"
			}
			pub := &Publication{Offset: off, Data: []byte{vU8("data")}, Key: key}
			sp := StreamPosition{Offset: off, Epoch: c38epoch("pub_epoch")}
			prev := &Publication{Offset: off - 1}
			delta := vBool("delta")
			m.broadcastPublication(pub, sp, delta, prev)
			lastCheck = vNowNano()
			if len(node.calls) != before+1 {
				vFail("publication: exactly one handlePublication call, synchronously")
				return
			}
			c := node.calls[before]
			vAssert(c.pub == pub, "publication passed through unchanged (same object)")
			vAssert(vAnd(c.sp.Offset == off, vStrEq(c.sp.Epoch, sp.Epoch)), "stream position passed through unchanged")
			vAssert(vAnd(pub.Offset == off, c.pub.Offset != math.MaxUint64), "publication offset untouched, not the sentinel")
			vAssert(c.prevPub == prev, "broker prevPub passed through")
			// latest-publication retention: the delta base offered to subscribers is
			// the previous non-keyed publication broadcast on this node, only when
			// retention is on, delta was requested and the publication is not keyed.
			if keep && key == "" {
				if delta { // forks (the code under test forks on it as well)
					vAssert(c.localPrevPub == refLatest, "localPrevPub is the previously broadcast publication")
				} else {
					vAssert(c.localPrevPub == nil, "no localPrevPub without delta")
				}
				refLatest = pub
			} else {
				vAssert(c.localPrevPub == nil, "no localPrevPub without retention / for keyed publications")
			}
		case 1: // explicit insufficient-state broadcast
			m.broadcastInsufficientState()
			lastCheck = vNowNano()
			if len(node.calls) != before+1 {
				vFail("insufficient state: exactly one handlePublication call, synchronously")
				return
			}
			c := node.calls[before]
			vAssert(c38isSentinel(c), "insufficient state is broadcast as the MaxUint64 sentinel")
			vAssert(c.prevPub == nil && c.localPrevPub == nil, "sentinel carries no delta base")
			nsent++
		case 2: // shared position check by a subscriber
			client := c38pos("client")
			t1 := c38top{sp: c38pos("top1"), err: vBool("top1_err")}
			t2 := c38top{sp: c38pos("top2"), err: vBool("top2_err")}
			node.tops = []c38top{t1, t2}
			node.ntop, node.nstream, node.nmap = 0, 0, 0
			checkDelay := time.Duration(vRange("check_delay_ms", 0, 60)) * time.Millisecond
			now := vNowNano()
			got := m.CheckPosition(time.Hour, client, checkDelay)
			// reference
			due := now-lastCheck >= int64(checkDelay)
			valid1 := vAnd(vNot(t1.err), vAnd(vStrEq(t1.sp.Epoch, client.Epoch), t1.sp.Offset == client.Offset))
			valid2 := vAnd(vNot(t2.err), vAnd(vStrEq(t2.sp.Epoch, client.Epoch), t2.sp.Offset == client.Offset))
			// position loss is detected when a due check, after one retry, gets an
			// error-free answer that differs from the subscriber's position
			lost := vAnd(due, vAnd(vNot(valid1), vAnd(vNot(t2.err), vNot(valid2))))
			vAssert(vIff(got, vNot(lost)), "CheckPosition returns false exactly when position loss is detected")
			sent := len(node.calls) - before
			vAssert(vIff(sent == 1, lost), "sentinel broadcast exactly when position loss is detected")
			vAssert(sent <= 1, "at most one sentinel per check")
			if sent == 1 {
				c := node.calls[before]
				vAssert(c38isSentinel(c), "detected loss is broadcast as the MaxUint64 sentinel")
				vAssert(c.prevPub == nil && c.localPrevPub == nil, "sentinel carries no delta base")
				nsent++
			}
			wantReq := vIteInt(due, vIteInt(valid1, 1, 2), 0)
			vAssert(node.ntop == wantReq, "stream top requested only when the check is due; one retry")
			if isMap {
				vAssert(node.nstream == 0, "map channel asks the map broker")
			} else {
				vAssert(node.nmap == 0, "stream channel asks the stream broker")
			}
			lastCheck = int64(vIteInt(due, int(now), int(lastCheck)))
			vCover(lost, "position-loss-detected")
			vCover(vAnd(due, vAnd(vNot(valid1), valid2)), "retry-recovers")
			vCover(vNot(due), "check-throttled")
		}
		vAssert(m.latestPublication == refLatest, "state: latestPublication is the last non-keyed publication broadcast")
		vAssert(m.positionCheckTime == lastCheck, "state: positionCheckTime is the time of the last broadcast or performed check")
	}
	vAssert(!node.overlap, "broadcasts never overlap")
	vCover(nsent >= 1 && len(node.calls) > nsent, "sentinel-and-publication")
}

// ---------------------------------------------------------------------------
// (b) queue mode: broadcasts are enqueued and delivered by the medium's writer
// goroutine, optionally after broadcastDelay with coalescing.

type c38ent struct {
	marker bool
	pub    *Publication
	sp     StreamPosition
	prev   *Publication
	delta  bool
}

const c38Delay = 20 * time.Millisecond

type c38q struct {
	node    *c38node
	m       *channelMedium
	delayOn bool
	keep    bool
	ents    []c38ent // accepted by the queue, in enqueue order
	closed  bool
	nmark   int
}

func c38newQueue(maxSize int) *c38q {
	q := &c38q{node: &c38node{}}
	q.delayOn = vChoice("delay", 2) == 1
	q.keep = vChoice("keep_latest", 2) == 1
	opts := ChannelMediumOptions{enableQueue: true, KeepLatestPublication: q.keep, queueMaxSize: maxSize}
	if q.delayOn {
		opts.broadcastDelay = c38Delay
	}
	m, err := newChannelMedium("ch", q.node, opts)
	if err != nil {
		vFail("newChannelMedium failed")
	}
	q.m = m
	return q
}

// publish enqueues one publication; dropped tells the reference that the queue
// size limit rejects it.
func (q *c38q) publish(i int, dropped bool) {
	off := vU64("pub_off")
	vAssume(off != math.MaxUint64)
	e := c38ent{pub: &Publication{Offset: off, Data: []byte{byte(i)}}, sp: StreamPosition{Offset: off, Epoch: "1"},
		prev: &Publication{Offset: off - 1, Data: []byte{byte(100 + i), 0}}, delta: vBool("delta")}
	q.m.broadcastPublication(e.pub, e.sp, e.delta, e.prev)
	if !dropped {
		q.ents = append(q.ents, e)
	}
}

func (q *c38q) marker() {
	q.m.broadcastInsufficientState()
	q.ents = append(q.ents, c38ent{marker: true})
	q.nmark++
}

// quiesce lets the writer finish everything it can still do.
func (q *c38q) quiesce(rounds int) {
	vPreempt(0)
	vSettle()
	for r := 0; r < rounds; r++ {
		vAdvance(int64(c38Delay))
	}
	vSettle()
}

// check: what the subscribers saw is an order-preserving subsequence of what
// was enqueued; without delay nothing is skipped; with delay only publications
// are skipped, never an insufficient-state marker, and never the newest entry;
// after a shutdown the tail may be missing.
func (q *c38q) check() {
	cur := 0
	var lastPub *Publication // last publication delivered to subscribers
	skipped := 0
	for _, c := range q.node.calls {
		sent := c38isSentinel(c)
		j := -1
		for x := cur; x < len(q.ents); x++ {
			e := q.ents[x]
			if (sent && e.marker) || (!sent && !e.marker && e.pub == c.pub) {
				j = x
				break
			}
		}
		if j < 0 {
			vFail("delivered out of order, twice, or never enqueued")
			return
		}
		for x := cur; x < j; x++ {
			skipped++
			vAssert(q.delayOn, "without broadcast delay nothing is skipped")
			vAssert(!q.ents[x].marker, "insufficient-state marker never coalesced away")
		}
		cur = j + 1
		e := q.ents[j]
		if sent {
			vAssert(c.prevPub == nil && c.localPrevPub == nil, "sentinel carries no delta base")
			continue
		}
		vAssert(vAnd(c.sp.Offset == e.sp.Offset, c.sp.Epoch == e.sp.Epoch), "stream position passed through unchanged")
		vAssert(vAnd(c.pub.Offset == e.sp.Offset, c.pub.Offset != math.MaxUint64), "publication offset untouched, not the sentinel")
		if !q.delayOn {
			vAssert(c.prevPub == e.prev, "broker prevPub passed through")
		} else if !q.keep {
			vAssert(c.prevPub == nil, "no broker prevPub when publications may have been skipped")
		}
		if q.keep {
			if e.delta {
				vAssert(c.localPrevPub == lastPub, "localPrevPub is the publication the subscribers received last")
			} else {
				vAssert(c.localPrevPub == nil, "no localPrevPub without delta")
			}
		} else {
			vAssert(c.localPrevPub == nil, "no localPrevPub without retention")
		}
		lastPub = c.pub
	}
	if !q.closed {
		for x := cur; x < len(q.ents); x++ {
			vAssert(q.delayOn, "without broadcast delay everything enqueued is delivered")
			vAssert(!q.ents[x].marker, "insufficient-state marker never dropped")
		}
		vAssert(cur == len(q.ents), "the newest entry is delivered once the medium is quiet")
	}
	vAssert(!q.node.overlap, "broadcasts never overlap")
	vCover(skipped > 0, "coalesced")
	vCover(q.nmark > 0 && skipped > 0, "coalesced-around-marker")
	vCover(len(q.node.calls) >= 3, "three-deliveries")
	vCover(q.closed && cur < len(q.ents), "shutdown-drops-tail")
}

// sequential driver: the writer goroutine only runs when the harness lets it
// ("run" operation), so the queue content at every enqueue is known and the
// size limit (symbolic) is part of the reference.
// c38queuedBytes recomputes the pending payload bytes from the entries the
// ring holds.
func c38queuedBytes(pq *publicationQueue) int {
	pq.mu.RLock()
	defer pq.mu.RUnlock()
	sum := 0
	for i := 0; i < pq.cnt; i++ {
		e := pq.nodes[(pq.head+i)%len(pq.nodes)]
		if e.Publication.pub != nil {
			sum += len(e.Publication.pub.Data)
		}
	}
	return sum
}

func vh_C38_queue() {
	k := vParam("c38_qk", 4)
	maxSize := vRange("queue_max", 0, 2)
	q := c38newQueue(maxSize)
	for step := 0; step < k && !q.closed; step++ {
		switch vChoice("op", 4) {
		case 0:
			// reference for the size limit: payload bytes of the publications
			// still queued, recomputed from the ring's contents (not the queue's
			// own running counter; nothing runs between this read and the
			// enqueue), limit = queueMaxSize or 16MB when 0.
			over := vAnd(maxSize > 0, c38queuedBytes(q.m.messages) > maxSize)
			if over { // forks like the code under test
				q.publish(step, true)
				vCover(true, "size-limit-drop")
			} else {
				q.publish(step, false)
			}
		case 1:
			q.marker()
		case 2: // the writer runs; one broadcastDelay passes
			vSettle()
			vAdvance(int64(c38Delay))
		case 3:
			q.m.close()
			q.closed = true
		}
	}
	q.quiesce(k + 1)
	q.check()
}

// scheduled driver: up to c38_preempt preemptions at synchronisation points
// between the broadcasting thread and the writer goroutine. No size limit.
func vh_C38_queue_sched() {
	k := vParam("c38_sk", 3)
	q := c38newQueue(0)
	vPreempt(vParam("c38_preempt", 2))
	for step := 0; step < k && !q.closed; step++ {
		switch vChoice("op", 4) {
		case 0:
			q.publish(step, false)
		case 1:
			q.marker()
		case 2:
			if !q.delayOn {
				return
			}
			vAdvance(int64(c38Delay))
		case 3:
			q.m.close()
			q.closed = true
		}
	}
	q.quiesce(k + 1)
	q.check()
}

// (a') no-queue mode under the scheduler: the broker thread broadcasts two
// publications while a subscriber's position check detects a loss and
// broadcasts the sentinel (broadcastMu). Up to c38_preempt preemptions; the
// fake's handlePublication contains a synchronisation point, so unserialised
// broadcasts would overlap.
func vh_C38_direct_sched() {
	node := &c38node{}
	keep := vChoice("keep_latest", 2) == 1
	m, err := newChannelMedium("ch", node, ChannelMediumOptions{KeepLatestPublication: keep, SharedPositionSync: true})
	if err != nil {
		vFail("newChannelMedium failed")
		return
	}
	mk := func() (*Publication, StreamPosition) {
		off := vU64("pub_off")
		vAssume(off != math.MaxUint64)
		return &Publication{Offset: off, Data: []byte{1}}, StreamPosition{Offset: off, Epoch: "1"}
	}
	p1, sp1 := mk()
	p2, sp2 := mk()
	client := StreamPosition{Offset: vU64("client_off"), Epoch: "1"}
	top := StreamPosition{Offset: vU64("top_off"), Epoch: "1"}
	vAssume(client.Offset != top.Offset)
	node.tops = []c38top{{sp: top}, {sp: top}}
	var wg sync.WaitGroup
	wg.Add(2)
	vPreempt(vParam("c38_dpreempt", 2))
	var valid bool
	go func() {
		defer wg.Done()
		m.broadcastPublication(p1, sp1, true, nil)
		m.broadcastPublication(p2, sp2, true, nil)
	}()
	go func() {
		defer wg.Done()
		valid = m.CheckPosition(time.Hour, client, 0)
	}()
	wg.Wait()
	vPreempt(0)
	vAssert(!valid, "position loss reported to the caller")
	vAssert(!node.overlap, "broadcasts never overlap")
	if len(node.calls) != 3 {
		vFail("two publications and one sentinel expected")
		return
	}
	i1, i2, is := -1, -1, -1
	for i, c := range node.calls {
		switch {
		case c.pub == p1:
			i1 = i
		case c.pub == p2:
			i2 = i
		case c38isSentinel(c):
			is = i
		}
	}
	if i1 < 0 || i2 < 0 || is < 0 {
		vFail("a publication or the sentinel is missing")
		return
	}
	vAssert(i1 < i2, "publications in order")
	c1, c2, cs := node.calls[i1], node.calls[i2], node.calls[is]
	vAssert(vAnd(c1.sp.Offset == sp1.Offset, c2.sp.Offset == sp2.Offset), "stream positions passed through")
	vAssert(cs.prevPub == nil && cs.localPrevPub == nil, "sentinel carries no delta base")
	if keep {
		vAssert(c1.localPrevPub == nil && c2.localPrevPub == p1, "localPrevPub is the previously broadcast publication")
		vAssert(m.latestPublication == p2, "latestPublication bookkeeping")
	} else {
		vAssert(c1.localPrevPub == nil && c2.localPrevPub == nil, "no localPrevPub without retention")
	}
	vCover(is == 1, "sentinel-between-publications")
	vCover(is == 0, "sentinel-first")
}

// (c) the ring buffer under the queue: one Add or Remove from EVERY ring state
// with capacity 2, 4 or 8 (any head, any fill allowed by the invariant; contents symbolic) keeps the
// FIFO abstraction and the ring invariants — an inductive step, so order is
// preserved by the queue for sequences of any length (growth 8->16 included,
// states with capacity > 8 only as successors).
func vh_C38_ring() {
	caps := []int{2, 4, 8}
	cp := caps[vChoice("cap", len(caps))]
	head := vChoice("head", cp)
	cnt := vChoice("cnt", cp+1)
	if cp > 2 && cnt <= cp/2 {
		// not a reachable state: the ring shrinks as soon as it is half empty
		// (asserted below as part of the invariant), so a grown ring is always
		// more than half full
		return
	}
	q := newPublicationQueue(2)
	q.nodes = make([]queuedPublication, cp)
	q.head, q.cnt, q.tail = head, cnt, (head+cnt)%cp
	var abs []uint64
	for j := 0; j < cnt; j++ {
		id := vU64("id")
		abs = append(abs, id)
		q.nodes[(head+j)%cp] = queuedPublication{Publication: queuedPub{sp: StreamPosition{Offset: id}, pub: &Publication{Data: []byte{0}}}}
	}
	q.size = cnt
	if vChoice("op", 2) == 0 {
		id := vU64("new_id")
		ok := q.Add(queuedPublication{Publication: queuedPub{sp: StreamPosition{Offset: id}, pub: &Publication{Data: []byte{0}}}})
		vAssert(ok, "add accepted on an open queue")
		abs = append(abs, id)
	} else {
		got, ok := q.Remove()
		vAssert(ok == (cnt > 0), "remove succeeds exactly when non-empty")
		if ok {
			vAssert(got.Publication.sp.Offset == abs[0], "remove returns the oldest entry")
			abs = abs[1:]
		}
	}
	n := len(q.nodes)
	vAssert(n >= 2 && (n == 2 || n == 4 || n == 8 || n == 16), "capacity stays a power of two >= initial")
	vAssert(q.cnt == len(abs) && q.cnt <= n, "count")
	vAssert(q.head >= 0 && q.head < n && q.tail == (q.head+q.cnt)%n, "head/tail invariant")
	vAssert(q.size == len(abs) && q.Len() == len(abs), "size accounting")
	vAssert(n == 2 || q.cnt > n/2, "a grown ring is more than half full (shrink invariant)")
	for j := range abs {
		vAssert(q.nodes[(q.head+j)%n].Publication.sp.Offset == abs[j], "FIFO content preserved")
	}
	vCover(n > cp, "grew")
	vCover(n < cp, "shrank")
	vCover(head+cnt > cp, "wrapped")
}
