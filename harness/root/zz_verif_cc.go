package centrifuge

// Shared helpers of the client-command harnesses (C09, C43, C37, C36).

import (
	"context"

	"github.com/centrifugal/protocol"
)

// vccLog records application-handler invocations.
type vccLog struct {
	calls  int
	names  []string
	parked []func() // callbacks of asynchronous handlers, invoked later by the harness
}

func (l *vccLog) hit(name string) {
	l.calls++
	l.names = append(l.names, name)
}

func (l *vccLog) count(name string) int {
	k := 0
	for _, s := range l.names {
		if s == name {
			k++
		}
	}
	return k
}

// finish runs f now (synchronous handler) or parks it (asynchronous handler).
func (l *vccLog) finish(async bool, f func()) {
	if async {
		l.parked = append(l.parked, f)
		return
	}
	f()
}

// vccErr builds a handler error of a chosen class: 0 nil, 1 *Error with a
// symbolic code, 2 Disconnect value with a symbolic code, 3 foreign error,
// 4 *Disconnect with a symbolic code.
func vccErr(class int, name string) error {
	switch class {
	case 1:
		return &Error{Code: vU32(name + "_errcode"), Message: "e"}
	case 2:
		return Disconnect{Code: vU32(name + "_dcode"), Reason: "d"}
	case 3:
		return vErr("boom")
	case 4:
		return &Disconnect{Code: vU32(name + "_dpcode"), Reason: "d"}
	}
	return nil
}

// vccNodeHandlers registers recording node-level handlers.
func vccNodeHandlers(n *Node, l *vccLog, reply func() (ConnectReply, error)) {
	n.OnConnecting(func(ctx context.Context, e ConnectEvent) (ConnectReply, error) {
		l.hit("connecting")
		if reply != nil {
			return reply()
		}
		return ConnectReply{}, nil
	})
	n.OnConnect(func(c *Client) { l.hit("connect") })
	n.OnCommandRead(func(c *Client, e CommandReadEvent) error { l.hit("command_read"); return nil })
	n.OnCommandProcessed(func(c *Client, e CommandProcessedEvent) { l.hit("command_processed") })
}

// vccCountReplies counts command replies (not pushes) among frames[from:]
// carrying the given id, and those carrying any other id.
func vccCountReplies(tr *vTransport, from int, id uint32) (same int, other int, last *protocol.Reply) {
	rs := vReplies(tr)
	for k := from; k < len(rs); k++ {
		r := rs[k]
		if r == nil || r.Push != nil {
			continue
		}
		if r.Id == id {
			same++
			last = r
		} else {
			other++
		}
	}
	return
}

// vccPushes returns the pushes among frames[from:].
func vccPushes(tr *vTransport, from int) []*protocol.Push {
	var out []*protocol.Push
	rs := vReplies(tr)
	for k := from; k < len(rs); k++ {
		if rs[k] != nil && rs[k].Push != nil {
			out = append(out, rs[k].Push)
		}
	}
	return out
}
