package centrifuge

import (
	"sync"
	"time"

	"github.com/centrifugal/centrifuge/internal/queue"
	"github.com/centrifugal/protocol"
)

// C12b/c: the per-connection writer (writer.go) on top of the real queue.
// The transport is a recording sink: every item handed to WriteFn/WriteManyFn
// is appended (by value, at call time) to sink.sent. Reference: enq = list of
// the items the writer accepted, in acceptance order. Property, after every
// event: sent is a prefix of enq (same items, same order => no loss inside
// the prefix, no duplication, no reorder), nothing vanished (queue length =
// len(enq)-len(sent)) until close / write error; close(flush) => sent == enq;
// enqueue returns DisconnectSlow exactly when the queued bytes exceed a
// positive MaxQueueSize; after close nothing is accepted or written.

type c12err struct{}

func (c12err) Error() string { return "c12: write error" }

type c12sink struct {
	mu        sync.Mutex // like the write mutex of the real client closures (a scheduling point before every write)
	sent      []queue.Item
	calls     int
	failed    bool // a write returned an error
	faults    bool // write errors may be injected
	afterStop int  // items written after close returned
	stopped   bool
}

func (s *c12sink) write(items []queue.Item) error {
	s.mu.Lock()
	defer s.mu.Unlock()
	s.calls++
	for _, it := range items {
		s.sent = append(s.sent, it)
		if s.stopped {
			s.afterStop++
		}
	}
	if s.faults && !s.failed && vBool("wfail") {
		s.failed = true
		return c12err{}
	}
	return nil
}

func c12newWriter(s *c12sink, maxq, initCap int) *writer {
	return newWriter(writerConfig{
		WriteFn:      func(it queue.Item) error { return s.write([]queue.Item{it}) },
		WriteManyFn:  func(its ...queue.Item) error { return s.write(its) },
		MaxQueueSize: maxq,
	}, initCap)
}

var c12wlens = []int{1, 3, 0, 2, 5, 1, 4, 2, 1, 3, 2, 1, 6, 1, 2, 3}

type c12ref struct {
	enq []queue.Item // accepted, in order
	n   int          // items created
}

func (r *c12ref) item() queue.Item {
	k := r.n
	r.n++
	return queue.Item{
		FrameType: protocol.FrameType(vU8("id")),
		Data:      make([]byte, c12wlens[k%len(c12wlens)]),
		Key:       string(rune('a' + k)),
	}
}

func c12wsame(a, b queue.Item) bool {
	return vAnd(a.FrameType == b.FrameType, a.Key == b.Key && len(a.Data) == len(b.Data) && a.Channel == b.Channel)
}

// c12prefixOK: sent is a prefix of enq.
func c12prefixOK(s *c12sink, r *c12ref) {
	vAssert(len(s.sent) <= len(r.enq), "transport-got-no-more-than-enqueued (no duplication/invention)")
	same := true
	for i := 0; i < len(s.sent) && i < len(r.enq); i++ {
		same = vAnd(same, c12wsame(s.sent[i], r.enq[i]))
	}
	vAssert(same, "transport-sequence=enqueued-prefix-in-order")
}

func c12queuedBytes(s *c12sink, r *c12ref) int {
	b := 0
	for i := len(s.sent); i < len(r.enq); i++ {
		b += len(r.enq[i].Data)
	}
	return b
}

// c12enqueue performs enqueue (n==1) or enqueueMany (n>1) and checks the
// verdict. Returns true when the connection is to be closed as slow.
func c12enqueue(w *writer, s *c12sink, r *c12ref, n int, closed bool, maxq int) bool {
	var items []queue.Item
	for k := 0; k < n; k++ {
		items = append(items, r.item())
	}
	var d *Disconnect
	if n == 1 {
		d = w.enqueue(items[0])
	} else {
		d = w.enqueueMany(items...)
	}
	if closed {
		vAssert(d == &DisconnectConnectionClosed, "enqueue-after-close-refused")
		return false
	}
	vAssert(d != &DisconnectConnectionClosed, "enqueue-on-open-writer-accepted")
	r.enq = append(r.enq, items...)
	over := vAnd(maxq > 0, c12queuedBytes(s, r) > maxq)
	vAssert(vIff(d == &DisconnectSlow, over), "DisconnectSlow-iff-queue-size-exceeded")
	vAssert(vIff(d == nil, vNot(over)), "accepted-silently-iff-within-limit")
	vCover(d == &DisconnectSlow, "slow-consumer")
	return d != nil
}

// c12close closes the writer and checks the flush semantics.
func c12close(w *writer, s *c12sink, r *c12ref, flush bool) {
	before := len(s.sent)
	failedBefore := s.failed
	err := w.close(flush)
	vAssert(err == nil, "close-returns-nil")
	c12prefixOK(s, r)
	if flush && !failedBefore {
		vAssert(len(s.sent) == len(r.enq), "flush-close-delivers-everything-queued-before")
		vCover(len(s.sent) > before+1, "flush-close-wrote-several")
	}
	if !flush {
		vAssert(len(s.sent) == before, "close-without-flush-writes-nothing")
	}
	vAssert(w.messages.Closed() && w.messages.Len() == 0 && w.messages.Size() == 0, "queue-closed-and-empty")
	s.stopped = true
}

// vh_C12_writer_seq: sequential event sequences.
//
//	mode 0: dedicated-goroutine mode without write delay; a drain event is one
//	        real waitSendMessage iteration;
//	mode 1: the same with a write delay (batch collection, FinishCollect);
//	mode 2: timer-driven mode (run(..., useWriteTimer) + enqueue-armed flush
//	        timer); a drain event lets the write delay elapse.
func vh_C12_writer_seq() {
	steps := vParam("c12_steps", 3)
	mode := vChoice("mode", 3)
	maxFrame := vRange("maxframe", -1, vParam("c12_maxframe", 3))
	maxq := vRange("maxq", 0, vParam("c12_maxq", 12))
	initCap := 2
	if vParam("c12_initcaps", 1) > 1 {
		initCap = 1 + vChoice("initcap", 2)
	}
	// QueueShrinkDelay: -1 = shrink immediately after a drain, 0 = default
	// (delayed by defaultQueueShrinkDelay through the shrink timer).
	shrink := time.Duration(-1)
	if vParam("c12_shrinks", 1) > 1 {
		if vChoice("shrink", 2) == 1 {
			shrink = 0
		}
	} else if mode == 1 {
		shrink = 0
	}
	const delay = 5 * time.Millisecond
	s := &c12sink{faults: vParam("c12_faults", 1) != 0}
	r := &c12ref{}
	w := c12newWriter(s, maxq, initCap)
	var writeDelay time.Duration
	switch mode {
	case 0:
		vAssume(maxFrame != 0) // run() replaces 0 before calling waitSendMessage
		if shrink != -1 {
			vAssume(false) // shrink delay is not consulted without write delay
		}
	case 1:
		vAssume(maxFrame != 0)
		writeDelay = delay
	case 2:
		w.run(delay, maxFrame, shrink, true)
		vAssert(w.timerMode, "timer-mode-on")
	}
	closed := false
	slow := false
	for step := 0; step < steps && !closed && !slow && !s.failed; step++ {
		switch vChoice("ev", 5) {
		case 0:
			slow = c12enqueue(w, s, r, 1, closed, maxq)
		case 1:
			slow = c12enqueue(w, s, r, 3, closed, maxq)
		case 2:
			before := len(s.sent)
			queued := len(r.enq) - before
			if mode == 2 {
				vAdvance(int64(delay))
				vSettle()
			} else {
				if queued == 0 {
					vAssume(false) // the writer goroutine would just block
				}
				ok := w.waitSendMessage(maxFrame, writeDelay, effectiveShrinkDelay(shrink))
				vAssert(ok == !s.failed, "waitSendMessage-continues-unless-write-failed")
			}
			if queued > 0 {
				got := len(s.sent) - before
				vCover(got > 1 && got < queued, "partial-frame-drain")
				vCover(got == 1 && queued > 1, "single-item-frame")
			}
		case 3:
			c12close(w, s, r, true)
			closed = true
		case 4:
			c12close(w, s, r, false)
			closed = true
		}
		c12prefixOK(s, r)
		if !closed && !s.failed {
			vAssert(w.messages.Len() == len(r.enq)-len(s.sent), "nothing-vanished: queued = enqueued - written")
			vAssert(w.messages.Size() == c12queuedBytes(s, r), "Size=bytes-queued")
		}
	}
	if s.failed {
		vCover(true, "write-error-path")
		c12prefixOK(s, r)
		return
	}
	if slow {
		// the connection is closed as a slow consumer (client.go closes the
		// writer without flush for DisconnectSlow; both ways are checked)
		c12close(w, s, r, vChoice("slowflush", 2) == 1)
		closed = true
	}
	if !closed {
		// quiesce: with enough time / iterations everything queued is written
		if mode == 2 {
			vAdvance(int64(100 * delay))
			vSettle()
		} else {
			for n := 0; n < 16 && w.messages.Len() > 0 && !s.failed; n++ {
				w.waitSendMessage(maxFrame, writeDelay, effectiveShrinkDelay(shrink))
			}
		}
		c12prefixOK(s, r)
		if !s.failed {
			vAssert(len(s.sent) == len(r.enq), "everything-enqueued-is-eventually-written")
			vCover(len(s.sent) >= 4, "delivered-4-or-more")
		}
		c12close(w, s, r, true)
	}
	// after close: nothing is accepted, nothing more is written, even when
	// timers (flush, shrink) fire later
	n := len(s.sent)
	c12enqueue(w, s, r, 1, true, maxq)
	vAdvance(int64(3 * time.Second))
	vSettle()
	if mode != 2 {
		vAssert(!w.waitSendMessage(maxFrame, writeDelay, effectiveShrinkDelay(shrink)), "waitSendMessage-stops-after-close")
	}
	vAssert(len(s.sent) == n && s.afterStop == 0, "nothing-written-after-close")
}

// vh_C12_writer_threads: producer || the real run loop (or the flush timer)
// || close, interleaved by the scheduler with a preemption budget. Checked
// when everything has come to rest: the sink sequence is a prefix of the
// accepted sequence (single producer => acceptance order is program order),
// flush-close delivered every accepted item, nothing was written after close
// returned, an item refused by enqueue is never written.
func vh_C12_writer_threads() {
	vPreempt(vParam("c12_preempt", 1))
	mode := vChoice("mode", 3)
	// solver input, enumerated up front: every thread branches on it anyway
	maxFrame := vConcInt(vRange("maxframe", -1, vParam("c12_tmaxframe", 2)))
	const delay = 5 * time.Millisecond
	s := &c12sink{}
	r := &c12ref{}
	initCap := 1
	if vParam("c12_tinitcaps", 1) > 1 {
		initCap = 1 + vChoice("initcap", 2)
	}
	w := c12newWriter(s, 0, initCap)
	switch mode {
	case 0:
		go w.run(0, maxFrame, -1, false)
	case 1:
		go w.run(delay, maxFrame, -1, false)
	case 2:
		w.run(delay, maxFrame, -1, true)
	}
	nprod := vParam("c12_tprod", 3)
	refused := 0
	prodDone := false
	go func() {
		for k := 0; k < nprod; k++ {
			var items []queue.Item
			var d *Disconnect
			if k == 1 {
				items = []queue.Item{r.item(), r.item()}
				d = w.enqueueMany(items...)
			} else {
				items = []queue.Item{r.item()}
				d = w.enqueue(items[0])
			}
			if d == nil {
				r.enq = append(r.enq, items...)
			} else {
				vAssert(d == &DisconnectConnectionClosed, "only-refusal-is-connection-closed")
				refused += len(items)
			}
		}
		prodDone = true
	}()
	switch vChoice("closewhen", 4) {
	case 0: // close races with everything from the start
	case 1:
		vYield() // the producer has run
	case 3:
		vYield()
		vYield() // ... and the writer side has started on what was produced
	case 2:
		vSettle()
		vAdvance(int64(delay))
		vSettle()
	}
	flush := vChoice("flush", 2) == 1
	vAssert(w.close(flush) == nil, "close-returns-nil")
	s.stopped = true
	atClose := len(s.sent)
	vSettle()
	vAdvance(int64(3 * time.Second))
	vSettle()
	vAssert(prodDone, "producer-finished")
	vAssert(s.afterStop == 0 && len(s.sent) == atClose, "nothing-written-after-close-returned")
	c12prefixOK(s, r)
	if flush {
		vAssert(len(s.sent) == len(r.enq), "flush-close-delivers-every-accepted-item")
	}
	vAssert(len(r.enq)+refused == r.n, "every-item-accepted-or-refused")
	vCover(refused > 0 && len(r.enq) > 0, "close-in-the-middle-of-production")
	vCover(flush && len(s.sent) >= 3, "delivered-3-or-more-with-flush")
	vCover(!flush && len(s.sent) > 0 && len(s.sent) < len(r.enq), "no-flush-close-dropped-a-suffix")
}

// C12 (no loss without close): in every writer mode, a message enqueued while
// a flush is in progress, and messages enqueued after that, are all written
// to the transport in order without any close — the timer-driven mode must
// re-arm its flush timer whatever the interleaving of producer and flusher.
func vh_C12_writer_liveness() {
	mode := vChoice("mode", 3)
	maxFrame := vConcInt(vRange("maxframe", -1, 2))
	const delay = 5 * time.Millisecond
	s := &c12sink{}
	r := &c12ref{}
	w := c12newWriter(s, 0, 1)
	switch mode {
	case 0:
		go w.run(0, maxFrame, -1, false)
	case 1:
		go w.run(delay, maxFrame, -1, false)
	case 2:
		w.run(delay, maxFrame, -1, true)
	}
	put := func() {
		it := r.item()
		if w.enqueue(it) == nil {
			r.enq = append(r.enq, it)
		}
	}
	put() // m0: arms the flush timer in timer mode / wakes the run loop
	// let the flush start (timer fired, its goroutine not yet run) and race it
	// with the next enqueue under the preemption budget
	vFireTimerRaw()
	go put() // m1
	vPreempt(vParam("c12_preempt", 1))
	vSettle()
	vPreempt(0)
	drain := func() {
		for k := 0; k < 6; k++ {
			vSettle()
			if vPendingTimers() == 0 {
				break
			}
			vFireTimer()
		}
		vSettle()
	}
	drain()
	put() // m2: after whatever the race left behind
	drain()
	vAssert(len(r.enq) == 3, "all-accepted")
	vAssert(len(s.sent) == 3, "every-enqueued-message-is-written-without-close")
	c12prefixOK(s, r)
	vCover(mode == 2, "timer-mode")
}
