package centrifuge

import (
	"time"

	"github.com/centrifugal/centrifuge/internal/queue"
	"github.com/centrifugal/protocol"
)

// C12d: the real Client write closures (client.go startWriter: WriteFn /
// WriteManyFn -> Transport.Write / WriteMany) on top of the real writer and
// queue: the transport receives exactly the payloads enqueued for the
// connection (symbolic bytes), in order, once; flush-close delivers the rest.
func vh_C12_client_transport() {
	n := vNewNode(Config{})
	tr := vNewTransport()
	c := vNewClient(n, "u1", tr)
	timerMode := vChoice("timer", 2) == 1
	maxFrame := vRange("maxframe", -1, 2)
	const delay = 5 * time.Millisecond
	if timerMode {
		c.startWriter(delay, maxFrame, 0, 0, true)
	} else {
		c.startWriter(0, maxFrame, 0, 0, false)
	}
	var want [][]byte
	mk := func(l int) queue.Item {
		d := vBytes("data", l)
		want = append(want, d)
		return queue.Item{Data: d, FrameType: protocol.FrameTypePushPublication}
	}
	vAssert(c.messageWriter.enqueue(mk(2)) == nil, "enqueue-accepted")
	vAssert(c.messageWriter.enqueueMany(mk(1), mk(3)) == nil, "enqueueMany-accepted")
	drained := vChoice("drain", 2) == 1
	if drained {
		vSettle()
		vAdvance(int64(10 * delay)) // several flush periods (a short rest is flushed one period later)
		vSettle()
		vAssert(len(tr.frames) == 3, "transport-got-all-three")
	}
	vAssert(c.messageWriter.enqueue(mk(1)) == nil, "enqueue-accepted")
	before := len(tr.frames)
	vAssert(c.messageWriter.close(true) == nil, "close-ok")
	vCover(len(tr.frames) > before+1, "flush-close-wrote-several")
	vSettle()
	vAdvance(int64(time.Second))
	vSettle()
	vAssert(len(tr.frames) == len(want), "transport-got-every-payload-once")
	same := true
	for i := 0; i < len(tr.frames) && i < len(want); i++ {
		same = vAnd(same, vBytesEq(tr.frames[i], want[i]))
	}
	vAssert(same, "transport-payloads=enqueued-payloads-in-order")
	vAssert(c.messageWriter.enqueue(mk(1)) == &DisconnectConnectionClosed, "enqueue-after-close-refused")
	vAssert(len(tr.frames) == 4, "nothing-written-after-close")
}
