package centrifuge

import (
	"context"
	"time"
)

// C22 part (a): loss detection of the stream read. Everything a map client
// is handed after its saved position comes from Node.MapStreamRead ->
// MemoryMapBroker.ReadStream -> mapHub.getStream -> memstream.Stream.Get, and
// the live transition reports "recovered" whenever that call returns no
// error. So: for every valid stream (top, retained suffix) and every saved
// position since <= top the call must either fail with
// ErrorUnrecoverablePosition or return exactly the offsets since+1 .. top
// (contiguous, from since+1, cut only by the limit).
func vh_C22_streamread() {
	maxTop := vParam("c22_top", 4)
	maxSize := vParam("c22_size", 3)
	opts := &MapChannelOptions{Mode: MapModePersistent, StreamTTL: time.Second}
	if vChoice("recoverable", vParam("c22_modes", 1)) == 1 {
		opts.Mode = MapModeRecoverable
		opts.KeyTTL = time.Hour
		opts.MetaTTL = 2 * time.Hour
	}
	opts.StreamSize = 1 + vChoice("stream_size", maxSize)
	n, b, _ := vmBroker(opts, true)
	ctx := context.Background()
	const ch = "m"

	// an arbitrary valid stream: top publishes, the last min(top,size) kept
	top := vChoice("top", maxTop+1)
	var epoch string
	for k := 0; k < top; k++ {
		key := "a"
		if k%2 == 1 {
			key = "b"
		}
		res, err := b.Publish(ctx, ch, key, MapPublishOptions{Data: []byte{byte(k)}})
		vAssert(err == nil && !res.Suppressed && res.Position.Offset == uint64(k+1), "setup-publish")
		epoch = res.Position.Epoch
	}
	if top == 0 {
		// position of a never-written channel (creates the epoch)
		res, err := b.ReadStream(ctx, ch, MapReadStreamOptions{})
		vAssert(err == nil && res.Position.Offset == 0, "setup-position")
		epoch = res.Position.Epoch
	}
	retained := top
	if retained > opts.StreamSize {
		retained = opts.StreamSize
	}
	// optionally let the stream expire (real expireStreams under the virtual
	// clock): entries are dropped, top and epoch stay.
	if top > 0 && vChoice("stream_expired", 2) == 1 {
		vAdvance(int64(1500 * time.Millisecond))
		vSettle()
		retained = 0
	}
	// sanity of the pre-state, through the unfiltered read
	all, err := b.ReadStream(ctx, ch, MapReadStreamOptions{Filter: StreamFilter{Limit: -1}})
	vAssert(err == nil && all.Position.Offset == uint64(top) && all.Position.Epoch == epoch, "setup-top-and-epoch-kept")
	vAssert(len(all.Publications) == retained, "setup-retained")

	// the saved position
	since := vU64("since_offset")
	vAssume(since <= uint64(top))
	sinceEpoch := epoch
	ek := vChoice("since_epoch", 3)
	if ek == 1 {
		sinceEpoch = ""
	} else if ek == 2 {
		sinceEpoch = "zzzz"
	}
	// limit: -1 (all), 1..maxSize-1; thorough also 0 (position only) and maxSize
	limit := vChoice("limit", maxSize+vParam("c22_limit0", 0)) - 1
	if limit >= 0 && vParam("c22_limit0", 0) == 0 {
		limit++
	}

	got, err := n.MapStreamRead(ctx, ch, MapReadStreamOptions{Filter: StreamFilter{
		Since: &StreamPosition{Offset: since, Epoch: sinceEpoch}, Limit: limit}})

	vCover(err != nil, "unrecoverable-reported")
	vCover(vAnd(err == nil, len(got.Publications) > 1), "several-returned")
	if ek == 2 {
		vAssert(err == ErrorUnrecoverablePosition, "foreign-epoch-is-unrecoverable")
		return
	}
	if err != nil {
		vAssert(err == ErrorUnrecoverablePosition, "only-unrecoverable-error")
		return
	}
	// no error: the caller will believe everything after `since` was handed
	// over (up to the limit).
	missing := uint64(top) - since
	want := missing
	if limit >= 0 {
		want = vIteU64(missing > uint64(limit), uint64(limit), missing)
	}
	vKnown("C22-since-zero-trimmed", vAnd(since == 0, retained < top && retained > 0 && limit != 0))
	vKnown("C22-emptied-stream", vAnd(since < uint64(top), retained == 0 && limit != 0))
	vAssert(got.Position.Offset == uint64(top) && got.Position.Epoch == epoch, "position-is-top")
	label := "returns-all-after-since(up to limit)"
	if retained == 0 {
		label += " [emptied stream]"
	}
	vAssert(uint64(len(got.Publications)) == want, label)
	for k, p := range got.Publications {
		vAssert(p.Offset == since+1+uint64(k), "contiguous-from-since+1")
	}
	vCover(vAnd(len(got.Publications) > 0, since > 0), "recovered-from-middle")
}
