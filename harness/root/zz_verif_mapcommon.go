package centrifuge

import "sync"

// Shared scaffolding of the MemoryMapBroker harnesses (C20, C21, C22a, C24):
// a real Node + real MemoryMapBroker whose channel options come from a
// harness table, and a recording BrokerEventHandler.

type vmEvent struct {
	ch      string
	key     string
	removed bool
	pubOff  uint64
	sp      StreamPosition
	data    []byte
	score   int64
}

// vmHandler records every broadcast (HandlePublication call) of the broker.
// Like the real Node handler it takes a lock, which also gives the scheduler
// a preemption point between the broker's state change and the delivery.
type vmHandler struct {
	mu     sync.Mutex
	events []vmEvent
}

func (h *vmHandler) HandlePublication(ch string, pub *Publication, sp StreamPosition, useDelta bool, prevPub *Publication) error {
	h.mu.Lock()
	defer h.mu.Unlock()
	h.events = append(h.events, vmEvent{ch: ch, key: pub.Key, removed: pub.Removed, pubOff: pub.Offset, sp: sp, data: pub.Data, score: pub.Score})
	return nil
}
func (h *vmHandler) HandleJoin(ch string, info *ClientInfo) error  { return nil }
func (h *vmHandler) HandleLeave(ch string, info *ClientInfo) error { return nil }

// vmBroker builds the real broker over a real node; every channel uses opts.
// With run=true the handler is installed through RegisterEventHandler (which
// also starts the real cleanup goroutines under the virtual clock); otherwise
// it is installed without starting them.
func vmBroker(opts *MapChannelOptions, run bool) (*Node, *MemoryMapBroker, *vmHandler) {
	// The broker only reads node.config.Map (and nil-checks node.metrics), so
	// a bare Node is enough; Node.New costs ~15x more per explored path.
	n := &Node{config: Config{Name: "verif", Map: MapConfig{GetMapChannelOptions: func(string) MapChannelOptions { return *opts }}}}
	b, err := NewMemoryMapBroker(n, MemoryMapBrokerConfig{})
	if err != nil {
		panic("vmBroker: " + err.Error())
	}
	n.SetMapBroker(b)
	h := &vmHandler{}
	if run {
		if err := b.RegisterEventHandler(h); err != nil {
			panic("vmBroker: " + err.Error())
		}
		vSettle() // the cleanup goroutines start and arm their 1 s timers
	} else {
		b.eventHandler = h
		b.mapHub.setEventHandler(h)
	}
	return n, b, h
}
