package centrifuge

import (
	"strconv"
	"strings"
)

// C33: Redis PUB/SUB payload framing.
//
// (a) totality: extractPushData / parseDeltaPush on ARBITRARY symbolic bytes
//     must return (no run-time panic); every slice/index check of the real
//     code is an obligation discharged by the solver.
// (b) round trip: frames built exactly the way the publishing side builds them
//     (Lua: "__p1:"..offset..":"..epoch.."__"..payload and
//     "__d1:"..offset..":"..epoch..":"..#prev..":"..prev..":"..#payload..":"..payload;
//     Go: append(joinTypePrefix, msg...), append(leaveTypePrefix, msg...);
//     plain: the marshalled publication itself) decode to the same tuple.

// c33ShortPHeader describes the inputs of the known finding C33-p-header-short:
// "__p" followed by the next "__" separator less than 3 bytes after the first
// one, so that the header ("p", "pX") is shorter than the "p1:" it is assumed
// to start with. Stated without control flow on symbolic data.
func c33ShortPHeader(d []byte) bool {
	if len(d) < 5 {
		return false
	}
	c := vAnd(vAnd(d[0] == '_', d[1] == '_'), d[2] == 'p')
	at1 := vAnd(d[3] == '_', d[4] == '_')
	at2 := false
	if len(d) >= 6 {
		at2 = vAnd(d[4] == '_', d[5] == '_')
	}
	return vAnd(c, vOr(at1, at2))
}

// c33DeltaBadLen describes the inputs of the known finding
// C33-delta-length-slice: a syntactically well-formed
// "d1:<uint>:<epoch>:<int>:..." frame in which prev_payload_length is
// negative or equals the number of remaining bytes (so there is no room for
// the ':' that must follow prev_payload), or in which payload_length is
// negative. It is a grammar-level description (it follows the frame fields,
// forks on symbolic bytes like any parser) and returns a concrete verdict on
// each path.
func c33DeltaBadLen(s string) bool {
	if len(s) < 3 || s[0] != 'd' || s[1] != '1' || s[2] != ':' {
		return false
	}
	s = s[3:]
	i := strings.IndexByte(s, ':')
	if i < 0 {
		return false
	}
	if _, err := strconv.ParseUint(s[:i], 10, 64); err != nil {
		return false
	}
	s = s[i+1:]
	i = strings.IndexByte(s, ':') // epoch: anything up to ':'
	if i < 0 {
		return false
	}
	s = s[i+1:]
	i = strings.IndexByte(s, ':')
	if i < 0 {
		return false
	}
	pl, err := strconv.Atoi(s[:i])
	if err != nil {
		return false
	}
	s = s[i+1:]
	if pl < 0 || pl == len(s) {
		return true
	}
	if pl > len(s) {
		return false
	}
	s = s[pl+1:]
	i = strings.IndexByte(s, ':')
	if i < 0 {
		return false
	}
	l, err := strconv.Atoi(s[:i])
	if err != nil {
		return false
	}
	return l < 0
}

// C33a-1: extractPushData never panics, whatever the bytes.
func vh_C33_extract_total() {
	maxN := vParam("c33_len", 10)
	n := vChoice("len", maxN+1)
	data := vBytes("data", n)
	vKnown("C33-p-header-short", c33ShortPHeader(data))
	if n >= 2 {
		bad := c33DeltaBadLen(string(data[2:]))
		vKnown("C33-delta-length-slice", vAnd(vAnd(data[0] == '_', data[1] == '_'), bad))
	}
	_, typ, _, delta, _, ok := extractPushData(data)
	vAssert(true, "returned")
	vCover(ok, "accepted")
	vCover(!ok, "rejected")
	vCover(vAnd(ok, delta), "accepted-delta")
	vCover(vAnd(ok, typ == joinPushType), "accepted-join")
}

// C33a-2: parseDeltaPush never panics, whatever the string.
func vh_C33_delta_total() {
	maxN := vParam("c33_dlen", 13)
	n := vChoice("len", maxN+1)
	s := vString("input", n)
	vKnown("C33-delta-length-slice", c33DeltaBadLen(s))
	_, err := parseDeltaPush(s)
	vAssert(true, "returned")
	vCover(err == nil, "accepted")
	vCover(err != nil, "rejected")
}

// c33Numeral returns a decimal numeral of d digits the way Lua prints an
// integer-valued number (no sign, no leading zero), with symbolic digits,
// together with its value.
func c33Numeral(name string, d int) (string, uint64) {
	b := vBytes(name, d)
	var v uint64
	for k := range b {
		vAssume(b[k] >= '0' && b[k] <= '9')
		if k == 0 && d > 1 {
			vAssume(b[k] != '0')
		}
		v = v*10 + uint64(b[k]-'0')
	}
	return string(b), v
}

// c33Epoch: a string over the alphabet of internal/epoch.Generate.
func c33Epoch(n int) string {
	b := vBytes("epoch", n)
	for k := range b {
		vAssume(vOr(vAnd(b[k] >= 'a', b[k] <= 'z'), vAnd(b[k] >= 'A', b[k] <= 'Z')))
	}
	return string(b)
}

var c33lens = []int{0, 1, 2, 4, 10, 3, 9, 12}

func c33Len(name string, nchoices int) int {
	return c33lens[vChoice(name, nchoices)]
}

// C33b: frames built as the publishing side builds them decode to the same
// (payload, push type, position, delta flag, previous payload).
func vh_C33_roundtrip() {
	nl := vParam("c33_nlens", 4)      // how many of c33lens are used for payload lengths
	maxDig := vParam("c33_digits", 3) // offset numerals of 1..maxDig digits
	maxEp := vParam("c33_epoch", 3)   // epoch lengths 1..maxEp (and 8 when c33_epoch8=1)
	shape := vChoice("shape", 6)
	payload := vBytes("payload", c33Len("payload_len", nl))
	want := string(payload)
	switch shape {
	case 0: // publication without history: the marshalled message itself
		if len(payload) >= 2 {
			// A marshalled protocol.Publication cannot start with "__": 0x5F is
			// the tag of field 11 with wire type 7, which does not exist.
			vAssume(vNot(vAnd(payload[0] == '_', payload[1] == '_')))
		}
		out, typ, sp, delta, prev, ok := extractPushData(payload)
		vAssert(ok, "plain: accepted")
		vAssert(vStrEq(string(out), want), "plain: payload")
		vAssert(typ == pubPushType, "plain: type")
		vAssert(vAnd(sp.Offset == 0, sp.Epoch == ""), "plain: no position")
		vAssert(!delta && len(prev) == 0, "plain: no delta")
		vCover(true, "plain")
	case 1, 2: // join / leave: the real Go prefixing of publishJoin / publishLeave
		var frame []byte
		wantT := joinPushType
		if shape == 1 {
			frame = append(joinTypePrefix, payload...)
		} else {
			frame = append(leaveTypePrefix, payload...)
			wantT = leavePushType
		}
		out, typ, _, delta, prev, ok := extractPushData(frame)
		vAssert(ok, "joinleave: accepted")
		vAssert(vStrEq(string(out), want), "joinleave: payload")
		vAssert(typ == wantT, "joinleave: type")
		vAssert(!delta && len(prev) == 0, "joinleave: no delta")
		vAssert(string(joinTypePrefix) == "__j__" && string(leaveTypePrefix) == "__l__", "joinleave: prefixes intact")
		vCover(true, "joinleave")
	case 3: // positioned: "__" .. "p1:" .. top_offset .. ":" .. current_epoch .. "__" .. message_payload
		num, off := c33Numeral("offset", 1+vChoice("digits", maxDig))
		ep := c33Epoch(c33EpochLen(maxEp))
		frame := []byte("__" + "p1:" + num + ":" + ep + "__" + want)
		out, typ, sp, delta, prev, ok := extractPushData(frame)
		vAssert(ok, "p1: accepted")
		vAssert(vStrEq(string(out), want), "p1: payload")
		vAssert(typ == pubPushType, "p1: type")
		vAssert(sp.Offset == off, "p1: offset")
		vAssert(vStrEq(sp.Epoch, ep), "p1: epoch")
		vAssert(!delta && len(prev) == 0, "p1: no delta")
		vCover(off > 9, "p1-multi-digit-offset")
	case 4: // delta: "__d1:" off ":" epoch ":" #prev ":" prev ":" #payload ":" payload
		num, off := c33Numeral("offset", 1+vChoice("digits", maxDig))
		ep := c33Epoch(c33EpochLen(maxEp))
		prevP := vBytes("prev", c33Len("prev_len", nl))
		wantPrev := string(prevP)
		frame := []byte("__" + "d1:" + num + ":" + ep + ":" +
			strconv.Itoa(len(prevP)) + ":" + wantPrev + ":" + strconv.Itoa(len(payload)) + ":" + want)
		out, typ, sp, delta, prev, ok := extractPushData(frame)
		vAssert(ok, "d1: accepted")
		vAssert(vStrEq(string(out), want), "d1: payload")
		vAssert(typ == pubPushType, "d1: type")
		vAssert(sp.Offset == off, "d1: offset")
		vAssert(vStrEq(sp.Epoch, ep), "d1: epoch")
		vAssert(delta, "d1: delta flag")
		vAssert(vStrEq(string(prev), wantPrev), "d1: previous payload")
		vCover(len(prevP) > 0 && len(payload) > 0, "d1-with-prev")
		vCover(len(prevP) == 0, "d1-first-in-stream")
	case 5: // delta frame as broker_history_add_list.lua builds it (UseLists + delta):
		//   prev_message_payload = redis.call("lindex", list_key, 0) or ""
		// and the list holds the FRAMED entries "__p1:<offset>:<epoch>__<payload>" that the
		// same script LPUSHes, so the prev field of the d1 frame is the previous list entry.
		num, off := c33Numeral("offset", 1+vChoice("digits", maxDig))
		pnum, _ := c33Numeral("prev_offset", 1)
		ep := c33Epoch(c33EpochLen(maxEp))
		prevP := vBytes("prev", c33Len("prev_len", nl))
		wantPrev := string(prevP)
		entry := "__" + "p1:" + pnum + ":" + ep + "__" + wantPrev // LINDEX list 0
		frame := []byte("__" + "d1:" + num + ":" + ep + ":" +
			strconv.Itoa(len(entry)) + ":" + entry + ":" + strconv.Itoa(len(payload)) + ":" + want)
		out, typ, sp, delta, prev, ok := extractPushData(frame)
		vAssert(ok, "d1-list: accepted")
		vAssert(vStrEq(string(out), want), "d1-list: payload")
		vAssert(typ == pubPushType, "d1-list: type")
		vAssert(vAnd(sp.Offset == off, vStrEq(sp.Epoch, ep)), "d1-list: position")
		vAssert(delta, "d1-list: delta flag")
		// known finding: the decoded previous payload is the framed list entry, not the
		// previous payload (every input of this shape)
		vKnown("C33-list-delta-prev-framed", true)
		vAssert(vStrEq(string(prev), wantPrev), "d1-list: previous payload")
	}
}

func c33EpochLen(maxEp int) int {
	extra := vParam("c33_epoch8", 0)
	k := vChoice("epoch_len", maxEp+extra)
	if k >= maxEp {
		return 8
	}
	return k + 1
}

// C33a-3: totality for delta frames whose LENGTH FIELDS are extreme numerals
// (too long for the symbolic-bytes harness above): the length field is one of
// a table of boundary numerals with its last digit symbolic, the rest of the
// frame is symbolic bytes. parseDeltaPush / extractPushData must not panic.
var c33bigNumerals = []string{
	"9223372036854775807", "9223372036854775806", "-9223372036854775808", "9223372036854775808",
	"18446744073709551615", "4294967296", "2147483648", "-1", "00000000000000000001", "99999999999999999999",
}

func vh_C33_delta_extreme_lengths() {
	num := []byte(c33bigNumerals[vChoice("numeral", len(c33bigNumerals))])
	last := vByte("last_digit")
	vAssume(last >= '0' && last <= '9')
	num[len(num)-1] = last
	which := vChoice("field", 2) // 0 prev_payload_length, 1 payload_length
	tail := vString("tail", vChoice("taillen", 4))
	var s string
	if which == 0 {
		s = "d1:1:e:" + string(num) + ":" + tail
	} else {
		s = "d1:1:e:1:x:" + string(num) + ":" + tail
	}
	_, err := parseDeltaPush(s)
	vAssert(true, "returned")
	vCover(err != nil, "rejected")
	_, _, _, _, _, ok := extractPushData([]byte("__" + s))
	vAssert(!ok || err == nil, "extractPushData rejects what parseDeltaPush rejects")
}
