package centrifuge

import (
	"context"

	"github.com/centrifugal/protocol"
)

// C08: per-connection lifecycle callbacks fire once and in order, under races
// of connect, the presence/alive tick, server disconnect, transport close and
// node shutdown. Events are recorded with a global sequence.
func vh_C08_lifecycle_callbacks() {
	n := vNewNode(Config{})
	var log []string
	count := func(ev string) int {
		k := 0
		for _, e := range log {
			if e == ev {
				k++
			}
		}
		return k
	}
	pos := func(ev string) int {
		for k, e := range log {
			if e == ev {
				return k
			}
		}
		return -1
	}
	last := func(ev string) int {
		p := -1
		for k, e := range log {
			if e == ev {
				p = k
			}
		}
		return p
	}
	n.OnConnect(func(c *Client) {
		log = append(log, "connect")
		c.OnAlive(func() { log = append(log, "alive") })
		c.OnDisconnect(func(e DisconnectEvent) { log = append(log, "disconnect") })
		c.OnSubscribe(func(e SubscribeEvent, cb SubscribeCallback) {
			log = append(log, "subscribe")
			cb(SubscribeReply{}, nil)
		})
		c.OnUnsubscribe(func(e UnsubscribeEvent) { log = append(log, "unsubscribe:"+e.Channel) })
	})
	tr := vNewTransport()
	c := vNewClient(n, "u", tr)
	// scenario: 0 connect || end ; 1 (connected+subscribed) alive tick || end ;
	//           2 (connected) subscribe command || end
	sc := vParam("c08_first_scenario", 0) + vChoice("scenario", vParam("c08_scenarios", 3))
	end := vChoice("end", 4) // 0 Disconnect(), 1 transport closed, 2 node shutdown, 3 client unsubscribe+disconnect
	if sc != 0 {
		vAssert(vConnect(c), "connects")
		vSettle()
	}
	if sc == 1 {
		c.HandleCommand(&protocol.Command{Id: 2, Subscribe: &protocol.SubscribeRequest{Channel: "ch"}}, 0)
		vSettle()
		vAssert(c.IsSubscribed("ch"), "pre-subscribed")
	}
	shutdownDone := false
	ender := func() {
		switch end {
		case 0:
			c.Disconnect()
		case 1:
			_ = c.close(DisconnectConnectionClosed)
		case 2:
			_ = n.Shutdown(context.Background())
			shutdownDone = true
		default:
			c.HandleCommand(&protocol.Command{Id: 9, Unsubscribe: &protocol.UnsubscribeRequest{Channel: "ch"}}, 0)
			c.Disconnect()
		}
	}
	op := func() {
		switch sc {
		case 0:
			vConnect(c)
		case 1:
			c.updatePresence()
		default:
			c.HandleCommand(&protocol.Command{Id: 3, Subscribe: &protocol.SubscribeRequest{Channel: "ch"}}, 0)
		}
	}
	first := vChoice("first", 2)
	vPreempt(vParam("c08_preempt", 1))
	if first == 0 {
		go op()
		go ender()
	} else {
		go ender()
		go op()
	}
	vSettle()
	vPreempt(0)
	vAdvance(6_000_000_000)
	vSettle()

	c.mu.RLock()
	status := c.status
	c.mu.RUnlock()
	if end == 2 {
		vAssert(shutdownDone, "shutdown-returns")
		vAssert(status == statusClosed, "no-connection-stays-connected-after-shutdown")
	}
	// make the connection end for the pairing clauses
	_ = c.close(DisconnectForceNoReconnect)
	vSettle()

	vAssert(count("connect") <= 1, "connect-callback-at-most-once")
	vAssert(count("disconnect") <= 1, "disconnect-callback-at-most-once")
	if count("disconnect") == 1 {
		vAssert(count("connect") == 1 && pos("connect") < pos("disconnect"), "disconnect-only-after-connect")
		vAssert(last("alive") < pos("disconnect"), "no-alive-after-disconnect")
	}
	if count("connect") == 1 {
		vAssert(pos("connect") == 0, "connect-callback-first")
		vAssert(count("disconnect") == 1, "disconnect-callback-after-connect-callback")
	} else {
		vAssert(len(log) == 0, "no-callback-without-connect-callback")
	}
	// every established subscription that ended got exactly one unsubscribe callback
	est := count("subscribe")
	vAssert(count("unsubscribe:ch") <= est, "unsubscribe-only-for-established")
	if sc == 1 {
		vAssert(count("unsubscribe:ch") == 1, "unsubscribe-exactly-once")
	}
	vCover(count("connect") == 1, "connected")
	vCover(count("connect") == 0, "never-connected")
	vCover(count("alive") > 0, "alive-fired")
}

// C08 (shutdown clause): after Node.Shutdown has completed, a connection that
// was accepted before the shutdown (its Client exists, as the transport
// handlers create it) must not become connected when its connect command is
// processed afterwards.
func vh_C08_connect_after_shutdown() {
	n := vNewNode(Config{})
	connects := 0
	n.OnConnect(func(c *Client) { connects++ })
	tr := vNewTransport()
	c := vNewClient(n, "u", tr) // accepted before shutdown
	late := vChoice("client_created_after_shutdown", 2) == 1
	_ = n.Shutdown(context.Background())
	vSettle()
	if late {
		tr = vNewTransport()
		c = vNewClient(n, "u", tr)
	}
	vConnect(c)
	vSettle()
	c.mu.RLock()
	status := c.status
	c.mu.RUnlock()
	// Known finding C08-connect-after-shutdown: the shutdown gate lives in the
	// transport handlers only (checked before NewClient); connectCmd and
	// Hub.add do not consult it, so a connect command processed after
	// Shutdown returned registers and connects the connection.
	vCover(true, "reached")
	vKnown("C08-connect-after-shutdown", status == statusConnected)
	vAssert(status != statusConnected, "no-connection-becomes-connected-after-shutdown")
	vAssert(connects == 0, "no-connect-callback-after-shutdown")
	vAssert(n.hub.NumClients() == 0, "no-registered-connection-after-shutdown")
}

// C08 (connect callback first, with a SLOW connect handler): the connect
// callback is still running while virtual time passes (30 s: beyond the first
// presence/alive tick, the ping interval and the stale delay); no other
// per-connection callback may start before it has returned.
func vh_C08_slow_connect_handler() {
	n := vNewNode(Config{})
	var log []string
	n.OnConnect(func(c *Client) {
		log = append(log, "connect-enter")
		c.OnAlive(func() { log = append(log, "alive") })
		c.OnDisconnect(func(e DisconnectEvent) { log = append(log, "disconnect") })
		c.OnRefresh(func(e RefreshEvent, cb RefreshCallback) {
			log = append(log, "refresh")
			cb(RefreshReply{ExpireAt: vNowNano()/1_000_000_000 + 100}, nil)
		})
		vAdvance(30_000_000_000) // the handler is slow
		vSettle()
		log = append(log, "connect-exit")
	})
	tr := vNewTransport()
	exp := int64(0)
	if vChoice("expiring_credentials", 2) == 1 {
		exp = vNowNano()/1_000_000_000 + 5
	}
	ctx := SetCredentials(context.Background(), &Credentials{UserID: "u", ExpireAt: exp})
	c, _, err := NewClient(ctx, n, tr)
	vAssert(err == nil, "new client")
	vConnect(c) // runs on this thread: the handler's vAdvance is this thread's
	vSettle()
	vAdvance(60_000_000_000)
	vSettle()
	enter, exit := -1, -1
	for k, e := range log {
		if e == "connect-enter" {
			enter = k
		}
		if e == "connect-exit" {
			exit = k
		}
	}
	vAssert(enter == 0 && exit > 0, "connect callback ran")
	vAssert(exit == 1, "no other callback while the connect callback is running")
	vCover(len(log) > 2, "callbacks-after-connect")
	_ = c
}

// C08 (unsubscribe callback, subscription established while an unsubscribe is
// already waiting for it): a paginated map subscribe is loading (first STATE
// page answered), a server-side Unsubscribe for the channel starts and parks
// on the wait gate of the in-flight subscribe, the client finishes the
// pagination and the subscription goes live, the parked unsubscribe then tears
// it down. The subscription was established and has ended: the unsubscribe
// callback ran exactly once (and the subscribe callback once).
func vh_C08_unsubscribe_parked_on_map_subscribe() {
	n := vNewNode(Config{Map: MapConfig{GetMapChannelOptions: func(string) MapChannelOptions {
		return MapChannelOptions{Mode: MapModeRecoverable, KeyTTL: 3600_000_000_000, MinPageSize: 1}
	}}})
	subs, unsubs := 0, 0
	n.OnConnect(func(c *Client) {
		c.OnSubscribe(func(e SubscribeEvent, cb SubscribeCallback) {
			subs++
			cb(SubscribeReply{Options: SubscribeOptions{Type: SubscriptionTypeMap}}, nil)
		})
		c.OnUnsubscribe(func(e UnsubscribeEvent) { unsubs++ })
	})
	ctx := context.Background()
	const ch = "m"
	for i := 0; i < 3; i++ {
		_, err := n.mapBroker.Publish(ctx, ch, string([]byte{'k', byte('0' + i)}), MapPublishOptions{Data: []byte{byte(i)}})
		vAssert(err == nil, "setup publish")
	}
	tr := vNewTransport()
	c := vNewClient(n, "u", tr)
	vAssert(vConnect(c), "connect")
	vSettle()
	var id uint32 = 10
	request := func(req *protocol.SubscribeRequest) (*protocol.SubscribeResult, *protocol.Error) {
		id++
		base := len(tr.frames)
		c.HandleCommand(&protocol.Command{Id: id, Subscribe: req}, 0)
		vSettle()
		for k := base; k < len(tr.frames); k++ {
			if r, _ := vDecoded(tr.frames[k]).(*protocol.Reply); r != nil && r.Id == id {
				return r.Subscribe, r.Error
			}
		}
		return nil, nil
	}
	res, perr := request(&protocol.SubscribeRequest{Channel: ch, Type: int32(SubscriptionTypeMap), Phase: MapPhaseState, Limit: 2})
	vAssert(perr == nil && res != nil && res.Phase == MapPhaseState && res.Cursor != "", "first state page, more to load")
	offset, epoch, cursor := res.Offset, res.Epoch, res.Cursor

	// the unsubscribe arrives while the subscription is loading
	parked := vChoice("unsubscribe_while_loading", 2) == 1
	done := false
	if parked {
		go func() {
			c.Unsubscribe(ch)
			done = true
		}()
		vSettle()
		vCover(!done, "unsubscribe-parked-on-the-wait-gate")
	}
	live := false
	for step := 0; step < 6 && !live; step++ {
		var r *protocol.SubscribeResult
		var e *protocol.Error
		if cursor != "" {
			r, e = request(&protocol.SubscribeRequest{Channel: ch, Type: int32(SubscriptionTypeMap), Phase: MapPhaseState, Limit: 2, Cursor: cursor, Offset: offset, Epoch: epoch})
		} else {
			r, e = request(&protocol.SubscribeRequest{Channel: ch, Type: int32(SubscriptionTypeMap), Phase: MapPhaseStream, Limit: 2, Offset: offset, Epoch: epoch})
		}
		if e != nil || r == nil {
			break // refused: the subscription was never established
		}
		switch r.Phase {
		case MapPhaseState:
			cursor = r.Cursor
		case MapPhaseStream:
			offset = r.Offset
		case MapPhaseLive:
			live = true
		}
	}
	vSettle()
	if !parked {
		vAssert(live, "reaches live")
		c.Unsubscribe(ch)
		vSettle()
	} else if !done {
		// still parked: its 5 s gate timeout
		vAdvance(6_000_000_000)
		vSettle()
	}
	vAssert(!c.IsSubscribed(ch), "subscription ended")
	vAssert(subs >= 1, "subscribe callback ran")
	if live {
		// established, then ended
		vAssert(unsubs == 1, "unsubscribe callback exactly once for an established subscription that ended")
	} else {
		vAssert(unsubs == 0, "no unsubscribe callback for a subscription that was never established")
	}
	vCover(parked && live, "went-live-while-unsubscribe-waited")
}
