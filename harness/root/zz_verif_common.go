package centrifuge

// Shared harness scaffolding for the root package: a recording Transport and
// helpers that build a real Node and real Clients and drive them through the
// public command entry point.

import (
	"context"
	"time"

	"github.com/centrifugal/protocol"
)

type vTransport struct {
	onWrite func([]byte) // optional: called for every frame handed to the transport
	proto   ProtocolType
	uni     bool
	frames  [][]byte
	closed  bool
	closeD  Disconnect
	nclose  int
	failAt  int // Write fails once this many frames were written (0 = never)
	ping    PingPongConfig
}

func (t *vTransport) Name() string                     { return "verif" }
func (t *vTransport) AcceptProtocol() string           { return "" }
func (t *vTransport) Protocol() ProtocolType           { return t.proto }
func (t *vTransport) ProtocolVersion() ProtocolVersion { return ProtocolVersion2 }
func (t *vTransport) Unidirectional() bool             { return t.uni }
func (t *vTransport) Emulation() bool                  { return false }
func (t *vTransport) DisabledPushFlags() uint64        { return 0 }
func (t *vTransport) PingPongConfig() PingPongConfig   { return t.ping }
func (t *vTransport) Write(b []byte) error             { return t.WriteMany(b) }
func (t *vTransport) WriteMany(bs ...[]byte) error {
	if t.closed {
		// a real transport delivers nothing after Close
		return errVerifClosed
	}
	for _, b := range bs {
		if t.failAt > 0 && len(t.frames) >= t.failAt {
			return errVerifWrite
		}
		t.frames = append(t.frames, b)
		if t.onWrite != nil {
			t.onWrite(b)
		}
	}
	return nil
}
func (t *vTransport) Close(d Disconnect) error {
	t.nclose++
	if !t.closed {
		t.closed = true
		t.closeD = d
	}
	return nil
}

type vErr string

func (e vErr) Error() string { return string(e) }

var errVerifWrite error = vErr("verif: write error")
var errVerifClosed error = vErr("verif: transport closed")

func vNewTransport() *vTransport {
	return &vTransport{proto: ProtocolTypeJSON, ping: PingPongConfig{PingInterval: 25 * time.Second, PongTimeout: 10 * time.Second}}
}

func vNewNode(cfg Config) *Node {
	if cfg.Name == "" {
		cfg.Name = "verif"
	}
	n, err := New(cfg)
	if err != nil {
		panic("vNewNode: " + err.Error())
	}
	// The part of Node.Run the properties depend on: brokers deliver to the
	// node and the deferred-work queue runs. Node-info pings, metrics and
	// control-channel announcements are not started.
	if err := n.broker.RegisterBrokerEventHandler(n); err != nil {
		panic("vNewNode: " + err.Error())
	}
	if n.mapBroker != nil {
		if err := n.mapBroker.RegisterEventHandler(n); err != nil {
			panic("vNewNode: " + err.Error())
		}
	}
	if err := n.subDissolver.Run(); err != nil {
		panic("vNewNode: " + err.Error())
	}
	return n
}

func vNewClient(n *Node, user string, tr *vTransport) *Client {
	ctx := SetCredentials(context.Background(), &Credentials{UserID: user})
	c, _, err := NewClient(ctx, n, tr)
	if err != nil {
		panic("vNewClient: " + err.Error())
	}
	return c
}

// vConnect sends a connect command (id 1) through the public entry point.
func vConnect(c *Client) bool {
	return c.HandleCommand(&protocol.Command{Id: 1, Connect: &protocol.ConnectRequest{}}, 0)
}

// vReplies decodes the frames a transport has received so far.
func vReplies(t *vTransport) []*protocol.Reply {
	var out []*protocol.Reply
	for _, f := range t.frames {
		switch m := vDecoded(f).(type) {
		case *protocol.Reply:
			out = append(out, m)
		case *protocol.Push:
			out = append(out, &protocol.Reply{Push: m})
		default:
			out = append(out, nil)
		}
	}
	return out
}
