package centrifuge

// C25: shared-poll keyed delivery (client_keyed.go, keyed_hub.go,
// shared_poll.go). Observation: the decoded keyed pushes a connection's
// transport received (protocol encoders are handle stubs, vDecoded gives the
// *protocol.Reply back).

import (
	"context"
	"time"

	"github.com/centrifugal/centrifuge/internal/queue"
	"github.com/centrifugal/protocol"
)

const (
	c25Ch  = "sp"
	c25Key = "k1"
)

var (
	c25Full  = []byte("FULL-DATA-OF-THE-KEY")
	c25Patch = []byte("PT")
)

type c25Conn struct {
	c    *Client
	tr   *vTransport
	base int // frames before the observed window
}

// c25NewConn builds a real connected Client (protobuf transport: no JSON
// escaping of payloads).
func c25NewConn(n *Node, user string) *c25Conn {
	tr := vNewTransport()
	tr.proto = ProtocolTypeProtobuf
	c := vNewClient(n, user, tr)
	if !vConnect(c) {
		panic("c25: connect refused")
	}
	vSettle()
	return &c25Conn{c: c, tr: tr, base: len(tr.frames)}
}

// pushes returns the pushes (any kind) written to the connection since base.
func (k *c25Conn) pushes() []*protocol.Push {
	var out []*protocol.Push
	for _, f := range k.tr.frames[k.base:] {
		switch m := vDecoded(f).(type) {
		case *protocol.Reply:
			if m.Push != nil {
				out = append(out, m.Push)
			} else {
				out = append(out, &protocol.Push{Channel: "<reply>"}) // reply marker
			}
		case *protocol.Push:
			out = append(out, m)
		}
	}
	return out
}

// pubs returns the key-update pushes (publication, not removal).
func (k *c25Conn) pubs() []*protocol.Publication {
	var out []*protocol.Publication
	for _, p := range k.pushes() {
		if p.Pub != nil && !p.Pub.Removed {
			out = append(out, p.Pub)
		}
	}
	return out
}

// c25Track installs per-connection tracking state the way handleTrack leaves
// it: key state under c.mu, then the hub entry.
func c25Track(k *c25Conn, key string, ks *keyedKeyState, delta int) {
	c := k.c
	c.mu.Lock()
	if c.keyed == nil {
		c.keyed = &keyedState{
			channels:    make(map[string]*keyedChannelDeltaState),
			trackedKeys: make(map[string]map[string]*keyedKeyState),
		}
	}
	switch delta {
	case 1:
		c.keyed.channels[c25Ch] = &keyedChannelDeltaState{deltaType: deltaTypeNone}
	case 2:
		c.keyed.channels[c25Ch] = &keyedChannelDeltaState{deltaType: DeltaTypeFossil}
	}
	if c.keyed.trackedKeys[c25Ch] == nil {
		c.keyed.trackedKeys[c25Ch] = make(map[string]*keyedKeyState)
	}
	c.keyed.trackedKeys[c25Ch][key] = ks
	c.mu.Unlock()
	c.node.keyedManager.addSubscribers(c25Ch, []string{key}, c, keyedChannelOptions{})
}

type c25Prep struct {
	prep preparedData
	pub  *protocol.Publication
	pv   uint64
	real bool
}

// c25SymPrep: symbolic publication version and prepared data, shaped like
// buildPreparedPollData's output (patch == full data when not a real delta).
func c25SymPrep(tag string, patch []byte) c25Prep {
	pv := vU64(tag + "pubVersion")
	real := vBool(tag + "deltaIsReal")
	p := preparedData{
		deltaSub:              vBool(tag + "deltaSub"),
		wasFiltered:           vBool(tag + "wasFiltered"),
		keyedDeltaPrevVersion: vU64(tag + "deltaPrevVersion"),
		keyedDeltaIsReal:      real,
		keyedDeltaPatch:       c25Full,
	}
	if real {
		p.keyedDeltaPatch = patch
	}
	return c25Prep{prep: p, pub: &protocol.Publication{Key: c25Key, Data: c25Full, Version: pv}, pv: pv, real: real}
}

// vh_C25_write_step: inductive step of Client.keyedWritePublication from an
// arbitrary per-connection key state.
func vh_C25_write_step() {
	n := vNewNode(Config{})
	k := c25NewConn(n, "u1")
	c := k.c

	shape := vChoice("shape", 4) // 0 no keyed state, 1 channel not tracked, 2 key not tracked, 3 tracked
	delta := vChoice("chdelta", 3)
	v := vU64("version")
	dr := vBool("deltaReady")
	ks := &keyedKeyState{version: v, deltaReady: dr}
	ov := vU64("otherVersion")
	other := &keyedKeyState{version: ov}
	switch shape {
	case 1:
		c.keyed = &keyedState{channels: map[string]*keyedChannelDeltaState{}, trackedKeys: map[string]map[string]*keyedKeyState{"zz": {c25Key: ks}}}
	case 2:
		c25Track(k, "other", other, delta)
	case 3:
		c25Track(k, "other", other, delta)
		c25Track(k, c25Key, ks, delta)
	}
	p := c25SymPrep("", c25Patch)

	enq := vChoice("enqueue", 3) // 0 ok, 1 queue closed, 2 queue over its size limit
	switch enq {
	case 1:
		c.messageWriter.messages.Close()
	case 2:
		// the item is added, but the queue is then over its size limit
		c.messageWriter.config.MaxQueueSize = 1
		c.messageWriter.messages.Add(queue.Item{Data: []byte("xx")})
	}

	c.keyedWritePublication(c25Ch, c25Key, p.pv, p.pub, p.prep)
	vSettle()

	tracked := shape == 3
	newer := p.pv > v
	deltaPossible := vAnd(delta == 2, vAnd(p.prep.deltaSub, dr))
	mayPush := vAnd(tracked, newer)
	mustPush := vAnd(mayPush, vNot(p.prep.wasFiltered))

	if enq == 0 {
		pubs := k.pubs()
		vAssert(len(pubs) <= 1, "at-most-one-push")
		pushed := len(pubs) == 1
		vAssert(vImplies(pushed, mayPush), "pushed=>tracked-and-pubVersion>version")
		vAssert(vImplies(mustPush, pushed), "tracked-and-pubVersion>version=>pushed")
		vCover(pushed, "pushed")
		vCover(vAnd(tracked, !pushed), "tracked-not-pushed")
		if pushed {
			pb := pubs[0]
			vAssert(pb.Key == c25Key && pb.Version == p.pv, "push-carries-key-and-version")
			if pb.Delta {
				vAssert(deltaPossible, "delta=>delta-channel-and-deltaReady")
				vAssert(v == p.prep.keyedDeltaPrevVersion, "delta=>client-version==patch-base-version")
				vAssert(vBytesEq(pb.Data, c25Patch), "delta-carries-the-patch")
				vCover(true, "delta-pushed")
			} else {
				vAssert(vBytesEq(pb.Data, c25Full), "non-delta-push-carries-full-data")
				vCover(vAnd(deltaPossible, v != p.prep.keyedDeltaPrevVersion), "full-fallback-on-base-mismatch")
			}
			vAssert(ks.version == p.pv, "pushed=>version-advanced-to-pubVersion")
			vAssert(vImplies(ks.deltaReady, vOr(dr, delta == 2)), "deltaReady-only-on-delta-channel")
		} else {
			vAssert(vAnd(ks.version == v, ks.deltaReady == dr), "not-pushed=>state-unchanged")
		}
	} else {
		// enqueue failed: the state must not advance
		vAssert(vAnd(ks.version == v, ks.deltaReady == dr), "enqueue-failed=>state-unchanged")
		vCover(vAnd(mustPush, enq == 1), "enqueue-failed")
	}
	vAssert(vAnd(other.version == ov, !other.deltaReady), "other-key-untouched")
}

// vh_C25_write_concurrent: two (or three) concurrent broadcasts for the same
// key of one connection; the wire carries strictly increasing versions and
// every delta applies to what the connection holds at that point.
func vh_C25_write_concurrent() {
	n := vNewNode(Config{})
	k := c25NewConn(n, "u1")
	c := k.c
	v := vU64("version")
	dr := vBool("deltaReady")
	ks := &keyedKeyState{version: v, deltaReady: dr}
	delta := 2 // fossil delta channel (a channel without delta is the sub-case deltaPossible == false)
	if vParam("c25_conc_nodelta", 0) == 1 {
		delta = 2 * vChoice("chdelta", 2)
	}
	c25Track(k, c25Key, ks, delta)

	nb := vParam("c25_conc", 2)
	patches := [][]byte{[]byte("P0"), []byte("P1"), []byte("P2")}
	var ps []c25Prep
	for b := 0; b < nb; b++ {
		p := c25SymPrep(string([]byte{'b', byte('0' + b), '_'}), patches[b])
		vAssume(!p.prep.wasFiltered)
		vAssume(p.real) // delta pushes identify their broadcast by the patch
		ps = append(ps, p)
	}
	done := make(chan int, 4)
	vPreempt(vParam("c25_preempt", 2))
	for b := 0; b < nb; b++ {
		p := ps[b]
		go func() {
			c.keyedWritePublication(c25Ch, c25Key, p.pv, p.pub, p.prep)
			done <- 1
		}()
	}
	for b := 0; b < nb; b++ {
		<-done
	}
	vPreempt(0)
	vSettle()

	held := v      // version the connection holds
	ready := dr    // it holds a full base for deltas
	pubs := k.pubs()
	vAssert(len(pubs) <= nb, "no-duplicate-push")
	for _, pb := range pubs {
		vAssert(pb.Version > held, "wire-versions-strictly-increase")
		if pb.Delta {
			okBase := false
			for b := 0; b < nb; b++ {
				okBase = vOr(okBase, vAnd(vBytesEq(pb.Data, patches[b]), vAnd(ps[b].pv == pb.Version, ps[b].prep.keyedDeltaPrevVersion == held)))
			}
			vAssert(okBase, "delta-base-version==version-held-on-the-wire")
			vAssert(ready, "delta-only-after-a-full-base")
			vCover(true, "delta-pushed")
		}
		held = pb.Version
		ready = true
	}
	vAssert(ks.version == held, "state-version==last-pushed-version")
	// the newest offered version is held at the end
	for b := 0; b < nb; b++ {
		vAssert(held >= ps[b].pv, "holds-newest-offered-version")
	}
	vCover(len(pubs) == nb, "all-pushed")
	vCover(len(pubs) == 1 && nb > 1, "one-filtered")
}

// end operations for vh_C25_after_end.
const (
	c25EndRemoval = iota
	c25EndUntrack
	c25EndCleanup
	c25EndUnsubscribe
	c25EndClose
	c25NEnd
)

func c25End(k *c25Conn, hub *keyedHub, op int) {
	c := k.c
	switch op {
	case c25EndRemoval:
		hub.broadcastRemoval(c25Ch, c25Key)
	case c25EndUntrack:
		req := &protocol.SubRefreshRequest{Channel: c25Ch, Type: typeUntrack, Untrack: []string{c25Key}}
		_ = c.handleUntrack(req, &protocol.Command{Id: 7, SubRefresh: req}, time.Now(), nil)
	case c25EndCleanup:
		c.cleanupKeyed(c25Ch)
	case c25EndUnsubscribe:
		c.Unsubscribe(c25Ch)
	case c25EndClose:
		_ = c.close(DisconnectForceNoReconnect)
	}
}

// vh_C25_after_end: once the key is removed / untracked / the subscription
// ended, no key update is pushed to that connection any more (neither through
// the hub nor through a stale target list), while another connection that
// still tracks the key keeps receiving.
func vh_C25_after_end() {
	n := vNewNode(Config{})
	k := c25NewConn(n, "u1")
	k2 := c25NewConn(n, "u2")
	for _, x := range []*c25Conn{k, k2} {
		x.c.mu.Lock()
		x.c.channels[c25Ch] = ChannelContext{flags: flagSubscribed | flagKeyed | flagClientSideRefresh | flagDeltaAllowed, subGen: x.c.subGenCounter.Add(1)}
		x.c.mu.Unlock()
	}
	v := vU64("version")
	ks := &keyedKeyState{version: v, deltaReady: vBool("deltaReady")}
	delta := 2 * vChoice("chdelta", 2)
	c25Track(k, c25Key, ks, delta)
	v2 := vU64("version2")
	ks2 := &keyedKeyState{version: v2}
	c25Track(k2, c25Key, ks2, 0)
	hub := n.keyedManager.getHub(c25Ch)
	vAssert(hub != nil && hub.hasSubscriber(c25Key, k.c), "setup: in hub")

	op := vChoice("end", c25NEnd)
	p := c25SymPrep("", c25Patch)
	vAssume(!p.prep.wasFiltered)
	c25End(k, hub, op)
	vSettle()
	mark := len(k.pubs())
	vAssert(mark == 0, "end-operation-pushes-no-update")
	hub.broadcastToKey(c25Ch, c25Key, p.pv, p.pub, p.prep)
	k.c.keyedWritePublication(c25Ch, c25Key, p.pv, p.pub, p.prep) // stale target list
	vSettle()
	vAssert(len(k.pubs()) == 0, "no-update-pushed-after-end")
	vAssert(!hub.hasSubscriber(c25Key, k.c) || op == c25EndRemoval, "left-the-hub")
	if op == c25EndRemoval {
		ps := k.pushes()
		vAssert(len(ps) == 1 && ps[0].Pub != nil && ps[0].Pub.Removed && ps[0].Pub.Key == c25Key, "removal-pushed-once")
		vAssert(len(k2.pubs()) == 0, "removal-untracks-every-subscriber")
	} else {
		got2 := len(k2.pubs()) == 1
		vAssert(vIff(got2, p.pv > v2), "other-connection-still-served")
		vCover(got2, "other-connection-got-update")
	}
	vCover(op == c25EndUntrack, "untracked")
	vCover(op == c25EndUnsubscribe, "unsubscribed")
}

// c25Tr is the recording transport plus the number of frames written when
// Close was called (the wire ends there).
type c25Tr struct {
	*vTransport
	closedAt int
}

func (t *c25Tr) Close(d Disconnect) error {
	if !t.closed {
		t.closedAt = len(t.frames)
	}
	return t.vTransport.Close(d)
}

// vh_C25_end_race: the end operation races with a broadcast of a newer
// version for the key. On the wire no update for the key follows the end
// marker (removal push, untrack reply, unsubscribe push, transport close),
// and once the operation finished the connection gets nothing more.
func vh_C25_end_race() {
	n := vNewNode(Config{})
	tr := &c25Tr{vTransport: vNewTransport(), closedAt: -1}
	tr.proto = ProtocolTypeProtobuf
	ctx := SetCredentials(context.Background(), &Credentials{UserID: "u1"})
	c, _, err := NewClient(ctx, n, tr)
	if err != nil || !vConnect(c) {
		panic("c25: connect")
	}
	vSettle()
	k := &c25Conn{c: c, tr: tr.vTransport, base: len(tr.frames)}
	c.mu.Lock()
	c.channels[c25Ch] = ChannelContext{flags: flagSubscribed | flagKeyed | flagClientSideRefresh | flagDeltaAllowed, subGen: c.subGenCounter.Add(1)}
	c.mu.Unlock()
	v := vU64("version")
	ks := &keyedKeyState{version: v}
	c25Track(k, c25Key, ks, 0)
	hub := n.keyedManager.getHub(c25Ch)

	op := vChoice("end", c25NEnd)
	pv := vU64("pubVersion")
	vAssume(pv > v)
	vAssume(pv < 1<<63)
	pub := &protocol.Publication{Key: c25Key, Data: c25Full, Version: pv}
	done := make(chan int, 2)
	first := vChoice("broadcast_first", 2) == 1
	vPreempt(vParam("c25_preempt", 1))
	bc := func() { hub.broadcastToKey(c25Ch, c25Key, pv, pub, preparedData{}); done <- 1 }
	if first {
		go bc()
	}
	go func() { c25End(k, hub, op); done <- 1 }()
	if !first {
		go bc()
	}
	<-done
	<-done
	vPreempt(0)
	vSettle()
	seenEnd := false
	updates := 0
	for i, f := range tr.frames[k.base:] {
		if tr.closedAt >= 0 && k.base+i >= tr.closedAt {
			seenEnd = true
		}
		var ps *protocol.Push
		switch m := vDecoded(f).(type) {
		case *protocol.Reply:
			ps = m.Push
			if ps == nil { // the untrack reply
				seenEnd = true
				continue
			}
		case *protocol.Push:
			ps = m
		}
		switch {
		case ps.Pub != nil && !ps.Pub.Removed:
			vAssert(!seenEnd, "no-update-after-end-marker")
			vAssert(ps.Pub.Version == pv, "update-is-the-broadcast")
			updates++
		case ps.Pub != nil || ps.Unsubscribe != nil:
			seenEnd = true
		}
	}
	vAssert(updates <= 1, "at-most-one-update")
	vCover(updates == 1, "update-before-end")
	vCover(updates == 0, "update-suppressed")
	// afterwards the connection is out for good
	k.base = len(tr.frames)
	c.keyedWritePublication(c25Ch, c25Key, pv+1, pub, preparedData{})
	hub.broadcastToKey(c25Ch, c25Key, pv+2, pub, preparedData{})
	vSettle()
	vAssert(len(tr.frames) == k.base, "nothing-pushed-after-end")
}
