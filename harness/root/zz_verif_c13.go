package centrifuge

import (
	"sync"
	"time"

	"github.com/centrifugal/centrifuge/internal/queue"
	"github.com/centrifugal/protocol"
)

// C13: per-channel batching (client_experimental.go: perChannelWriter /
// channelWriter) preserves order and coalesces correctly.
//
// The real perChannelWriter is driven with a symbolic event sequence; the
// recording flushFn checks every batch AT THE MOMENT IT IS FLUSHED against a
// declarative reference over "the items added to that channel since its last
// flush / removal":
//   - plain mode:   batch == those items, in add order;
//   - latest mode:  batch == non-publications in add order, followed by exactly
//     the publications that no later publication with the same key supersedes,
//     in add order (= last-update order);
//   - after delWriter(ch,false) / Close(false) the pending list is empty, so
//     any later emission (including one by a late timer goroutine) fails.
// Items carry a concrete sequence number (identification) and symbolic payload
// byte, key byte and frame type (integrity is compared symbolically).

// vFireTimerRaw fires the earliest virtual timer without running the woken
// goroutine (engine/interp/models_c13.go).

const c13Delay = 50 * time.Millisecond

type c13chan struct {
	name  string
	added []queue.Item // since the last flush/removal of this channel
}

type c13state struct {
	chans      []*c13chan
	latest     bool
	phase      int  // 0 open, 1 inside Close, 2 Close returned
	closeFlush bool // symbolic: Close(flushRemaining)
	nflush     int
	nitems     int
	coalesc    bool
}

func (st *c13state) isPub(it queue.Item) bool {
	return it.FrameType == protocol.FrameTypePushPublication
}

// flush is the recording flushFn handed to the real perChannelWriter.
func (st *c13state) flush(batch []queue.Item) error {
	vAssert(st.phase != 2, "nothing-emitted-after-close")
	if st.phase == 1 {
		vAssert(st.closeFlush, "nothing-emitted-by-close-without-flush")
	}
	if len(batch) == 0 {
		return nil
	}
	st.nflush++
	var ref *c13chan
	for _, c := range st.chans {
		if c.name == batch[0].Channel {
			ref = c
		}
	}
	if ref == nil {
		vFail("batch-for-unknown-channel")
		return nil
	}
	A := ref.added
	ref.added = nil
	// every emitted item is a pending item of this channel, intact, once
	pos := make([]int, len(batch)) // index in A
	for p, b := range batch {
		seq := int(b.Data[0])
		idx := -1
		for i, a := range A {
			if int(a.Data[0]) == seq {
				idx = i
			}
		}
		if idx < 0 {
			vFail("emitted-item-not-pending (other channel, already flushed, or dropped by delWriter/close)")
			return nil
		}
		for q := 0; q < p; q++ {
			vAssert(pos[q] != idx, "no-duplicate-in-batch")
		}
		pos[p] = idx
		a := A[idx]
		same := vAnd(b.Data[1] == a.Data[1], vAnd(vStrEq(b.Key, a.Key), vAnd(b.FrameType == a.FrameType, b.Channel == a.Channel)))
		vAssert(same, "item-intact")
	}
	st.nitems += len(batch)
	if !st.latest {
		vAssert(len(batch) == len(A), "plain: batch is exactly the pending items")
		for p := range batch {
			vAssert(pos[p] == p, "plain: order preserved")
		}
		return nil
	}
	// latest mode: which pending items must be in the batch
	for i, a := range A {
		superseded := false
		for j := i + 1; j < len(A); j++ {
			superseded = vOr(superseded, vAnd(st.isPub(A[j]), vStrEq(A[j].Key, a.Key)))
		}
		want := vOr(vNot(st.isPub(a)), vNot(superseded))
		in := false
		for p := range batch {
			if pos[p] == i {
				in = true
			}
		}
		if in {
			vAssert(want, "latest: superseded publication must not be emitted")
		} else {
			vAssert(vNot(want), "latest: non-publication or newest publication of a key missing")
			st.coalesc = true
		}
	}
	// order inside the batch
	for p := 0; p+1 < len(batch); p++ {
		x, y := A[pos[p]], A[pos[p+1]]
		vAssert(vNot(vAnd(st.isPub(x), vNot(st.isPub(y)))), "latest: non-publications before publications")
		if pos[p] > pos[p+1] {
			// out of add order is only allowed across the class boundary
			vAssert(vAnd(vNot(st.isPub(x)), st.isPub(y)), "latest: add order (last-update order) within class")
		}
	}
	return nil
}

func c13run(nch, k int, latest bool) {
	st := &c13state{latest: latest}
	names := []string{"x", "y"}
	for c := 0; c < nch; c++ {
		st.chans = append(st.chans, &c13chan{name: names[c]})
	}
	pcw := newPerChannelWriter(st.flush)

	// configuration: symbolic, the code under test forks on it when it reads it
	cfg := ChannelBatchConfig{FlushLatestPublication: latest}
	delayOn := vBool("delay_on")
	cfg.MaxDelay = time.Duration(vIteInt(delayOn, int(c13Delay), 0))
	cfg.MaxSize = int64(vRange("maxsize", 0, vParam("c13_maxsize", 3)))

	pickCh := func() *c13chan {
		if nch == 1 {
			return st.chans[0]
		}
		return st.chans[vChoice("ch", nch)]
	}
	seq := 0
	sawLate := false
	closed := false
	for step := 0; step < k && !closed; step++ {
		switch vChoice("ev", 6) {
		case 0: // Add
			c := pickCh()
			ft := protocol.FrameType(vU8("ft"))
			vAssume(vOr(ft == protocol.FrameTypePushPublication, vOr(ft == protocol.FrameTypePushJoin, ft == protocol.FrameTypePushLeave)))
			key := ""
			symKey := false
			if latest {
				if ft == protocol.FrameTypePushPublication { // the code under test forks here as well
					symKey = vChoice("keyshape", 2) == 1
				}
			} else {
				symKey = seq%2 == 1 // key is never read in plain mode
			}
			if symKey {
				key = vString("key", 1)
				vAssume(vOr(key[0] == 'a', key[0] == 'b'))
			}
			it := queue.Item{Data: []byte{byte(seq), vU8("data")}, Channel: c.name, Key: key, FrameType: ft}
			seq++
			c.added = append(c.added, it)
			pcw.Add(it, c.name, cfg)
		case 1: // the earliest timer fires and its goroutine runs
			if vPendingTimers() == 0 {
				return
			}
			vFireTimer()
		case 2: // the earliest timer fires, its goroutine is NOT scheduled yet
			if vPendingTimers() == 0 {
				return
			}
			vFireTimerRaw()
			sawLate = true
		case 3: // subscription ended (client.go: delWriter(channel, false))
			c := pickCh()
			c.added = nil
			pcw.delWriter(c.name, false)
		case 4: // no more events, connection stays open
			step = k
		case 5: // connection closes
			closed = true
			st.closeFlush = vBool("close_flush")
			st.phase = 1
			pcw.Close(st.closeFlush)
			st.phase = 2
			for _, c := range st.chans {
				vAssert(vOr(vNot(st.closeFlush), len(c.added) == 0), "Close(flush) delivers what was pending")
				c.added = nil
			}
			vCover(vAnd(vNot(st.closeFlush), seq > 0), "closed-without-flush-after-adds")
		}
	}
	// late goroutines and every remaining timer
	vSettle()
	for vFireTimer() {
	}
	vSettle()
	if !closed {
		for _, c := range st.chans {
			vAssert(vOr(vNot(delayOn), len(c.added) == 0), "with MaxDelay>0 everything added is delivered once the timers have fired")
		}
	}
	vCover(st.nflush >= 2, "two-flushes")
	vCover(st.nitems >= 2, "two-items-delivered")
	vCover(st.coalesc, "coalesced")
	vCover(sawLate && st.nflush >= 1, "late-timer-with-flush")
}

// plain mode, one channel
func vh_C13_plain() { c13run(1, vParam("c13_k_plain", 4), false) }

// latest-publication mode, one channel
func vh_C13_latest() { c13run(1, vParam("c13_k_latest", 3), true) }

// two channels (independence of writers, Close over all of them)
func vh_C13_multi() { c13run(2, vParam("c13_k_multi", 3), vChoice("latest", 2) == 1) }

// Concurrent producers (schedules): two goroutines add to the same channel
// while a third one lets the flush timer fire; up to c13_preempt preemptions at
// synchronisation points, every choice forking the path. The exact pending set
// at flush time is not observable from outside the writer's lock here, so the
// oracle is stated over the whole output:
//   - every emitted item is an added item, intact, emitted at most once;
//   - plain mode: every item exactly once, each producer's items in its order;
//   - latest mode: per batch non-publications first and no two publications
//     with one key; non-publications exactly once and in producer order;
//     emitted publications of one producer in its order; for every key the
//     last emitted publication is some producer's newest for that key, and a
//     producer's newest publication of a key is emitted unless the other
//     producer also published that key.
func vh_C13_conc() {
	latest := vChoice("latest", 2) == 1
	n := vParam("c13_conc_n", 2)
	var batches [][]queue.Item
	flush := func(b []queue.Item) error {
		batches = append(batches, append([]queue.Item(nil), b...))
		return nil
	}
	pcw := newPerChannelWriter(flush)
	cfg := ChannelBatchConfig{FlushLatestPublication: latest, MaxDelay: c13Delay}
	cfg.MaxSize = int64(vRange("maxsize", 0, 3))

	mk := func(seq int) queue.Item {
		// plain mode never reads the frame type: symbolic. Latest mode: producer 0
		// alternates publication/join, producer 1 only publishes (keys symbolic),
		// so that the schedule, not the item shape, carries the path budget.
		ft := protocol.FrameType(vU8("ft"))
		vAssume(vOr(ft == protocol.FrameTypePushPublication, ft == protocol.FrameTypePushJoin))
		if latest {
			ft = protocol.FrameTypePushPublication
			if seq < 16 && seq%2 == 1 {
				ft = protocol.FrameTypePushJoin
			}
		}
		key := vString("key", 1)
		vAssume(vOr(key[0] == 'a', key[0] == 'b'))
		return queue.Item{Data: []byte{byte(seq), vU8("data")}, Channel: "x", Key: key, FrameType: ft}
	}
	var prod [2][]queue.Item
	for p := 0; p < 2; p++ {
		for k := 0; k < n; k++ {
			prod[p] = append(prod[p], mk(p*16+k))
		}
	}
	var wg sync.WaitGroup
	wg.Add(3)
	vPreempt(vParam("c13_preempt", 1))
	for p := 0; p < 2; p++ {
		items := prod[p]
		go func() {
			defer wg.Done()
			for _, it := range items {
				pcw.Add(it, "x", cfg)
			}
		}()
	}
	go func() {
		defer wg.Done()
		if vPendingTimers() > 0 {
			vFireTimerRaw()
		}
	}()
	wg.Wait()
	vPreempt(0)
	pcw.Close(true)
	atClose := len(batches)
	vSettle()
	for vFireTimer() {
	}
	nb := len(batches)
	vAssert(nb == atClose, "nothing emitted after Close returned (late timer goroutines, orphaned writers)")
	pcw = nil

	isPub := func(it queue.Item) bool { return it.FrameType == protocol.FrameTypePushPublication }
	// locate every emitted item
	type loc struct{ p, k, batch, pos int }
	var out []loc
	emitted := map[int]bool{}
	for bi, b := range batches {
		for pi, it := range b {
			seq := int(it.Data[0])
			p, k := seq/16, seq%16
			if p > 1 || k >= n {
				vFail("emitted item was never added")
				return
			}
			vAssert(!emitted[seq], "item emitted twice")
			emitted[seq] = true
			a := prod[p][k]
			vAssert(vAnd(it.Data[1] == a.Data[1], vAnd(vStrEq(it.Key, a.Key), it.FrameType == a.FrameType)), "item-intact")
			out = append(out, loc{p, k, bi, pi})
		}
	}
	// per-producer order
	for i := range out {
		for j := i + 1; j < len(out); j++ {
			x, y := out[i], out[j]
			if x.p == y.p && x.k > y.k {
				if !latest {
					vFail("plain: a producer's items out of order")
				} else {
					// only a non-publication overtaking a publication inside one batch
					ok := vAnd(x.batch == y.batch, vAnd(vNot(isPub(prod[x.p][x.k])), isPub(prod[y.p][y.k])))
					vAssert(ok, "latest: a producer's items out of order within a class or across batches")
				}
			}
		}
	}
	if !latest {
		vAssert(len(out) == 2*n, "plain: every item delivered")
		vCover(nb >= 2, "conc-two-batches")
		return
	}
	for _, b := range batches {
		for i := range b {
			for j := i + 1; j < len(b); j++ {
				vAssert(vNot(vAnd(isPub(b[i]), vNot(isPub(b[j])))), "latest: non-publications before publications")
				vAssert(vNot(vAnd(vAnd(isPub(b[i]), isPub(b[j])), vStrEq(b[i].Key, b[j].Key))), "latest: one publication per key and batch")
			}
		}
	}
	for p := 0; p < 2; p++ {
		for k, a := range prod[p] {
			newestOwn := true // no later publication of the same key by this producer
			for k2 := k + 1; k2 < n; k2++ {
				newestOwn = vAnd(newestOwn, vNot(vAnd(isPub(prod[p][k2]), vStrEq(prod[p][k2].Key, a.Key))))
			}
			otherHasKey := false
			for _, o := range prod[1-p] {
				otherHasKey = vOr(otherHasKey, vAnd(isPub(o), vStrEq(o.Key, a.Key)))
			}
			if emitted[p*16+k] {
				// the last emitted publication of a key must be somebody's newest
				lastOfKey := isPub(a)
				me := -1
				for i, l := range out {
					if l.p == p && l.k == k {
						me = i
					}
				}
				for i := me + 1; i < len(out); i++ {
					o := prod[out[i].p][out[i].k]
					lastOfKey = vAnd(lastOfKey, vNot(vAnd(isPub(o), vStrEq(o.Key, a.Key))))
				}
				vAssert(vImplies(lastOfKey, newestOwn), "latest: the last emitted publication of a key is stale")
			} else {
				vAssert(isPub(a), "latest: non-publication lost")
				vAssert(vNot(vAnd(newestOwn, vNot(otherHasKey))), "latest: newest publication of a key lost")
			}
		}
	}
	vCover(nb >= 2, "conc-two-batches")
	vCover(len(out) < 2*n, "conc-coalesced")
}

// NOT part of the registered claim (C13 quantifies over fixed configurations):
// the ChannelBatchConfig comes from a user callback evaluated per broadcast, so
// FlushLatestPublication may differ between two Adds of one channel. Oracle:
// after Close(true) every added item was delivered exactly once, except a
// publication added in latest mode that a later latest-mode publication of the
// same key superseded. Region C13-config-flip = a latest-mode publication is
// followed by an Add in plain mode.
func vh_C13_cfgflip() {
	k := vParam("c13_k_flip", 2)
	var out []queue.Item
	pcw := newPerChannelWriter(func(b []queue.Item) error {
		out = append(out, b...)
		return nil
	})
	maxSize := int64(vRange("maxsize", 0, 3))
	var items []queue.Item
	var lat []bool
	flipped := false
	for i := 0; i < k; i++ {
		ft := protocol.FrameType(vU8("ft"))
		vAssume(vOr(ft == protocol.FrameTypePushPublication, ft == protocol.FrameTypePushJoin))
		key := vString("key", 1)
		vAssume(vOr(key[0] == 'a', key[0] == 'b'))
		it := queue.Item{Data: []byte{byte(i)}, Channel: "x", Key: key, FrameType: ft}
		l := vBool("latest")
		for j := range items {
			flipped = vOr(flipped, vAnd(vAnd(lat[j], items[j].FrameType == protocol.FrameTypePushPublication), vNot(l)))
		}
		items = append(items, it)
		lat = append(lat, l)
		pcw.Add(it, "x", ChannelBatchConfig{MaxSize: maxSize, MaxDelay: c13Delay, FlushLatestPublication: l})
	}
	pcw.Close(true)
	vSettle()
	vKnown("C13-config-flip", flipped)
	for i, it := range items {
		n := 0
		for _, o := range out {
			if int(o.Data[0]) == i {
				n++
			}
		}
		vAssert(n <= 1, "item delivered twice")
		mayDrop := false
		for j := i + 1; j < len(items); j++ {
			mayDrop = vOr(mayDrop, vAnd(vAnd(lat[j], items[j].FrameType == protocol.FrameTypePushPublication), vStrEq(items[j].Key, it.Key)))
		}
		mayDrop = vAnd(mayDrop, vAnd(lat[i], it.FrameType == protocol.FrameTypePushPublication))
		if n == 0 {
			vAssert(mayDrop, "item lost although no newer latest-mode publication of its key superseded it")
		}
	}
}

// vh_C13_latest_order: latest-publication mode with up to 5 publications of
// symbolic one-byte keys in ONE batch (no other event kinds), flushed by
// Close(true): only the newest publication of each key, in last-update order.
// Deeper in keys per batch than vh_C13_latest, which spends its bound on event
// kinds.
func vh_C13_latest_order() {
	st := &c13state{latest: true, closeFlush: true}
	st.chans = []*c13chan{{name: "x"}}
	pcw := newPerChannelWriter(st.flush)
	cfg := ChannelBatchConfig{FlushLatestPublication: true, MaxDelay: c13Delay}
	n := 3 + vChoice("npubs", vParam("c13_order_extra", 2)+1) // 3..5
	for k := 0; k < n; k++ {
		it := queue.Item{
			Channel:   "x",
			FrameType: protocol.FrameTypePushPublication,
			Key:       vString("key", 1),
			Data:      []byte{byte(k), vByte("payload")},
		}
		st.chans[0].added = append(st.chans[0].added, it)
		pcw.Add(it, "x", cfg)
	}
	st.phase = 1
	pcw.Close(true)
	st.phase = 2
	vAssert(st.nflush == 1, "one flush delivers the batch")
	vCover(st.coalesc, "coalesced")
	vCover(n == 5, "five-publications")
}
