package centrifuge

import (
	"sync"
	"time"

	"github.com/centrifugal/centrifuge/internal/controlproto"
	"github.com/centrifugal/centrifuge/internal/dissolve"
	"github.com/centrifugal/centrifuge/internal/nowtime"
)

// vLightNode builds a Node the way New does, except that the two 16384-entry
// lock-shard maps (subLocks, mediumLocks/mediums) contain only the shards of
// the given channels. New spends ~0.35M interpreted steps per node filling
// those maps; the operations under test only ever index them with
// index(channel, 16384). With param real_new=1 the real New is used instead
// (thorough tier) so that the shortcut itself is cross-checked.
func vLightNode(c Config, channels ...string) *Node {
	return vLightNodeOpt(c, true, channels...)
}

// vLightNodeOpt: runDissolver=false leaves the 64 dissolver workers unstarted
// (for harnesses that capture dissolver jobs themselves).
func vLightNodeOpt(c Config, runDissolver bool, channels ...string) *Node {
	if c.Name == "" {
		c.Name = "verif"
	}
	if vParam("real_new", 0) == 1 && runDissolver {
		return vNewNode(c)
	}
	if vParam("real_new", 0) == 1 {
		n, err := New(c)
		if err != nil {
			panic("vLightNode: " + err.Error())
		}
		_ = n.broker.RegisterBrokerEventHandler(n)
		_ = n.mapBroker.RegisterEventHandler(n)
		return n
	}
	// defaults as in New
	if c.NodeInfoMetricsAggregateInterval == 0 {
		c.NodeInfoMetricsAggregateInterval = 60 * time.Second
	}
	if c.ClientPresenceUpdateInterval == 0 {
		c.ClientPresenceUpdateInterval = 25 * time.Second
	}
	if c.ClientChannelPositionCheckDelay == 0 {
		c.ClientChannelPositionCheckDelay = 40 * time.Second
	}
	if c.ClientExpiredCloseDelay == 0 {
		c.ClientExpiredCloseDelay = 25 * time.Second
	}
	if c.ClientExpiredSubCloseDelay == 0 {
		c.ClientExpiredSubCloseDelay = 25 * time.Second
	}
	if c.ClientStaleCloseDelay == 0 {
		c.ClientStaleCloseDelay = 15 * time.Second
	}
	if c.ClientQueueMaxSize == 0 {
		c.ClientQueueMaxSize = 1048576
	}
	if c.ClientChannelLimit == 0 {
		c.ClientChannelLimit = 128
	}
	if c.ChannelMaxLength == 0 {
		c.ChannelMaxLength = 255
	}
	if c.HistoryMetaTTL == 0 {
		c.HistoryMetaTTL = 30 * 24 * time.Hour
	}
	uid := vToken("node-")
	subLocks := make(map[int]*sync.Mutex)
	mediumLocks := make(map[int]*sync.Mutex)
	mediums := make(map[int]map[string]*channelMedium)
	for _, ch := range channels {
		i := index(ch, numSubLocks)
		if subLocks[i] == nil {
			subLocks[i] = &sync.Mutex{}
		}
		j := index(ch, numMediumLocks)
		if mediumLocks[j] == nil {
			mediumLocks[j] = &sync.Mutex{}
			mediums[j] = map[string]*channelMedium{}
		}
	}
	n := &Node{
		uid:            uid,
		nodes:          newNodeRegistry(uid),
		config:         c,
		startedAt:      time.Now().Unix(),
		shutdownCh:     make(chan struct{}),
		controlEncoder: controlproto.NewProtobufEncoder(),
		controlDecoder: controlproto.NewProtobufDecoder(),
		clientEvents:   &eventHub{},
		subLocks:       subLocks,
		subDissolver:   dissolve.New(numSubDissolverWorkers),
		nowTimeGetter:  nowtime.Get,
		surveyRegistry: make(map[uint64]chan survey),
		mediums:        mediums,
		mediumLocks:    mediumLocks,
		timerScheduler: c.ClientTimerScheduler,
	}
	n.emulationSurveyHandler = newEmulationSurveyHandler(n)
	n.keyedManager = newKeyedManager(n)
	m, err := newMetricsRegistry(c.Metrics)
	if err != nil {
		panic("vLightNode: " + err.Error())
	}
	n.metrics = m
	n.hub = newHub(nil, n.metrics, c.ClientChannelPositionMaxTimeLag.Milliseconds())
	b, err := NewMemoryBroker(n, MemoryBrokerConfig{})
	if err != nil {
		panic("vLightNode: " + err.Error())
	}
	n.SetBroker(b)
	mb, err := NewMemoryMapBroker(n, MemoryMapBrokerConfig{})
	if err != nil {
		panic("vLightNode: " + err.Error())
	}
	n.SetMapBroker(mb)
	pm, err := NewMemoryPresenceManager(n, MemoryPresenceManagerConfig{})
	if err != nil {
		panic("vLightNode: " + err.Error())
	}
	n.SetPresenceManager(pm)
	// as vNewNode: the part of Run the properties depend on
	if err := n.broker.RegisterBrokerEventHandler(n); err != nil {
		panic("vLightNode: " + err.Error())
	}
	if err := n.mapBroker.RegisterEventHandler(n); err != nil {
		panic("vLightNode: " + err.Error())
	}
	if runDissolver {
		if err := n.subDissolver.Run(); err != nil {
			panic("vLightNode: " + err.Error())
		}
	}
	return n
}
