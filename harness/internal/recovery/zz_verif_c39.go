package recovery

import "github.com/centrifugal/protocol"

// C39: MergePublications is sorted, deduplicated, marker-free and detects
// exactly the uncovered holes. Differential against a reference stated over
// the symbolic inputs (no control flow on symbolic data in the oracle).
func vh_C39_merge() {
	maxN := vParam("c39_n", 2)
	offLim := uint64(vParam("c39_off", 6))
	nr := vChoice("nrec", maxN+1)
	nb := vChoice("nbuf", maxN+1)
	type ent struct {
		off      uint64
		filtered bool
	}
	var all []ent
	mk := func(prefix string, n int) []*protocol.Publication {
		var out []*protocol.Publication
		for k := 0; k < n; k++ {
			o := vU64(prefix + "_off")
			vAssume(o < offLim)
			f := vBool(prefix + "_filtered")
			t := int64(0)
			if f { // one fork per entry: Time is -1 (marker) or 0
				t = -1
			}
			all = append(all, ent{o, f})
			out = append(out, &protocol.Publication{Offset: o, Time: t})
		}
		return out
	}
	rec := mk("rec", nr)
	buf := mk("buf", nb)

	got, gotMax, ok := MergePublications(rec, buf)

	// ---- reference, as symbolic predicates
	present := make([]bool, offLim)
	marker := make([]bool, offLim)
	for o := uint64(0); o < offLim; o++ {
		for _, e := range all {
			here := e.off == o
			present[o] = vOr(present[o], vAnd(here, !e.filtered))
			marker[o] = vOr(marker[o], vAnd(here, e.filtered))
		}
	}
	hole := false
	for o := uint64(0); o < offLim; o++ {
		below, above := false, false
		for a := uint64(0); a < o; a++ {
			below = vOr(below, present[a])
		}
		for b := o + 1; b < offLim; b++ {
			above = vOr(above, present[b])
		}
		hole = vOr(hole, vAnd(vAnd(below, above), vAnd(vNot(present[o]), vNot(marker[o]))))
	}
	wantOK := vNot(vAnd(nb > 0, hole))
	vAssert(vIff(ok, wantOK), "ok-iff-no-uncovered-hole")
	vCover(!ok, "gap-detected")
	vCover(vAnd(ok, len(got) > 1), "merged-several")
	if !ok {
		vAssert(got == nil && gotMax == 0, "failure-returns-nothing")
		return
	}
	// sorted, strictly increasing, marker-free
	for k := range got {
		vAssert(got[k].Time != -1, "no-marker-in-result")
		if k+1 < len(got) {
			vAssert(got[k].Offset < got[k+1].Offset, "strictly-increasing")
		}
		// every result offset is a present input offset
		in := false
		for _, e := range all {
			in = vOr(in, vAnd(e.off == got[k].Offset, !e.filtered))
		}
		vAssert(in, "result-from-inputs")
	}
	// every non-filtered input offset is in the result
	for _, e := range all {
		found := e.filtered
		for k := range got {
			found = vOr(found, got[k].Offset == e.off)
		}
		vAssert(found, "union-complete")
	}
	// max seen offset
	isMax := len(all) == 0 && gotMax == 0
	geAll := true
	for _, e := range all {
		geAll = vAnd(geAll, gotMax >= e.off)
		isMax = vOr(isMax, gotMax == e.off)
	}
	vAssert(vAnd(geAll, isMax), "max-seen-offset")
}
