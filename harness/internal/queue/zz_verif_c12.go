package queue

import "github.com/centrifugal/protocol"

// C12a: inductive step of the ring buffer behind every connection's write
// queue. Pre-state: ANY ring that satisfies the representation invariant
// (capacity in {1,2,4,8} and initCap in {1,2} by case split, head and count
// symbolic, every slot - live or dead - holds an item with a symbolic id, dead
// slots hold stale garbage as Remove leaves it, size = sum of the live data
// lengths), or the closed queue. One REAL operation is executed. Post: the
// representation invariant holds again and the abstract FIFO sequence changed
// exactly as the reference list says (returned items = the removed prefix in
// order, remaining = the rest followed by the added items), Size/Len exact.

var c12lens = []int{0, 1, 2, 3, 1, 0, 2, 5}

type c12ring struct {
	q       *Queue
	seq     []Item // abstract content, oldest first
	initCap int
}

func c12item(tag string, k int, n int) Item {
	return Item{
		FrameType: protocol.FrameType(vU8(tag + "_id")),
		Data:      make([]byte, n),
		Channel:   tag + string(rune('0'+k)),
	}
}

// c12same: the very same item (symbolic id, data slice identity/length, tag).
func c12same(a, b Item) bool {
	return vAnd(a.FrameType == b.FrameType, a.Channel == b.Channel && a.Key == b.Key && len(a.Data) == len(b.Data))
}

func c12sum(items []Item) int {
	s := 0
	for _, it := range items {
		s += len(it.Data)
	}
	return s
}

// c12pre builds an arbitrary valid pre-state.
func c12pre(allowClosed bool) *c12ring {
	// capacity = initCap * 2^k; initCap 3 gives rings whose capacity is not a
	// power of two (the initial capacity is configurable per connection)
	initCap := 1 + vChoice("initcap", vParam("c12_ring_initcaps", 3))
	capacity := initCap << uint(vChoice("caplog", vParam("c12_caplog", 4)))
	if capacity > vParam("c12_maxcap", 8) {
		vAssume(false) // beyond the bound of this run
	}
	q := New(initCap)
	r := &c12ring{q: q, initCap: initCap}
	if allowClosed && vChoice("closed", 2) == 1 {
		// the closed queue (as Close / CloseRemaining leave it)
		q.closed = true
		q.nodes = nil
		q.head = vRange("head", 0, capacity-1)
		q.tail = vRange("tail", 0, capacity-1)
		return r
	}
	// head and count are solver inputs; the ring code indexes with them at
	// once, so they are enumerated here (one path per feasible position)
	// instead of at the first q.nodes[q.head].
	head := vConcInt(vRange("head", 0, capacity-1))
	cnt := vConcInt(vRange("cnt", 0, capacity))
	q.nodes = make([]Item, capacity)
	for j := 0; j < capacity; j++ {
		q.nodes[j] = c12item("s", j, c12lens[j%len(c12lens)])
	}
	q.head = head
	q.cnt = cnt
	q.tail = (head + cnt) % capacity
	// abstraction of the pre-state (reading with the symbolic head/cnt makes
	// the engine enumerate the feasible ring positions through the solver)
	for i := 0; i < cnt; i++ {
		r.seq = append(r.seq, q.nodes[(head+i)%capacity])
	}
	q.size = c12sum(r.seq)
	return r
}

// c12inv: representation invariant + abstraction equals want.
func c12inv(r *c12ring, want []Item, wantClosed bool) {
	q := r.q
	vAssert(q.closed == wantClosed, "closed-flag")
	vAssert(q.initCap == r.initCap, "initcap-unchanged")
	if wantClosed {
		vAssert(q.cnt == 0 && q.size == 0 && len(q.nodes) == 0, "closed-queue-empty")
		vAssert(len(want) == 0, "oracle: closed queue holds nothing")
		return
	}
	n := len(q.nodes)
	vAssert(n >= r.initCap, "capacity>=initCap")
	// capacity stays initCap * 2^k
	c := n
	for c > r.initCap && c%2 == 0 {
		c /= 2
	}
	vAssert(c == r.initCap, "capacity=initCap*2^k")
	vAssert(q.head >= 0 && q.head < n, "head-in-range")
	vAssert(q.tail >= 0 && q.tail < n, "tail-in-range")
	vAssert(q.cnt >= 0 && q.cnt <= n, "count-in-range")
	vAssert(q.tail == (q.head+q.cnt)%n, "tail=(head+cnt)%cap")
	vAssert(q.cnt == len(want), "count=reference-length (no loss, no duplication)")
	vAssert(q.Len() == len(want), "Len-exact")
	cnt := vConcInt(q.cnt)
	head := vConcInt(q.head)
	same := true
	for i := 0; i < cnt && i < len(want); i++ {
		same = vAnd(same, c12same(q.nodes[(head+i)%n], want[i]))
	}
	vAssert(same, "fifo-content-in-order")
	vAssert(q.size == c12sum(want), "size=sum-of-queued-data")
	vAssert(q.Size() == c12sum(want), "Size-exact")
}

func c12prefix(got []Item, seq []Item, n int) {
	vAssert(len(got) == n, "removed-count")
	same := true
	for i := 0; i < n && i < len(got); i++ {
		same = vAnd(same, c12same(got[i], seq[i]))
	}
	vAssert(same, "removed=oldest-first-prefix")
}

// c12take: how many items RemoveMany* must take (max may stay symbolic).
func c12take(cnt, max, buflen int) int {
	n := vIteInt(vAnd(max != -1, max < cnt), max, cnt)
	if buflen >= 0 {
		n = vIteInt(buflen < n, buflen, n)
	}
	return n
}

const (
	c12Add = iota
	c12AddMany
	c12Remove
	c12RemoveMany
	c12RemoveManyInto
	c12RemoveManyIntoShrink
	c12FinishCollect0
	c12CloseRemaining
	c12Close
	c12Readers
	c12nops
)

func vh_C12_ring_step() {
	r := c12pre(true)
	q := r.q
	seq := r.seq
	closed := q.closed
	op := vChoice("op", c12nops)
	switch op {
	case c12Add:
		it := c12item("a", 0, 4)
		ok := q.Add(it)
		vAssert(ok == !closed, "Add-accepted-iff-open")
		if closed {
			c12inv(r, nil, true)
			return
		}
		c12inv(r, append(append([]Item{}, seq...), it), false)
		vCover(len(q.nodes) > 1 && len(seq)*2 == len(q.nodes), "add-grew-ring")
	case c12AddMany:
		n := vChoice("nadd", vParam("c12_addmany", 3)+1)
		var items []Item
		for k := 0; k < n; k++ {
			items = append(items, c12item("a", k, c12lens[(k+3)%len(c12lens)]))
		}
		ok := q.AddMany(items...)
		vAssert(ok == !closed, "AddMany-accepted-iff-open")
		if closed {
			c12inv(r, nil, true)
			return
		}
		c12inv(r, append(append([]Item{}, seq...), items...), false)
		vCover(n == 3 && len(seq) > 0, "addmany-3-onto-nonempty")
	case c12Remove:
		it, ok := q.Remove()
		vAssert(ok == (len(seq) > 0), "Remove-ok-iff-nonempty")
		if !ok {
			_ = it
			c12inv(r, nil, closed)
			return
		}
		vAssert(c12same(it, seq[0]), "Remove-returns-oldest")
		c12inv(r, seq[1:], false)
		vCover(len(q.nodes) < 8 && len(seq) == 5, "remove-shrank-ring")
	case c12RemoveMany:
		max := vRange("max", -1, 9)
		got, ok := q.RemoveMany(max)
		vAssert(ok == (len(seq) > 0), "RemoveMany-ok-iff-nonempty")
		if !ok {
			vAssert(len(got) == 0, "RemoveMany-empty-returns-nothing")
			c12inv(r, nil, closed)
			return
		}
		vAssert(len(got) == c12take(len(seq), max, -1), "RemoveMany-count")
		n := len(got)
		if n > len(seq) {
			n = len(seq)
		}
		c12prefix(got, seq, n)
		c12inv(r, seq[n:], false)
		vCover(n > 1 && n < len(seq), "removemany-partial")
	case c12RemoveManyInto, c12RemoveManyIntoShrink:
		max := vRange("max", -1, 9)
		bl := []int{9, 2, 0}[vChoice("buflen", 3)]
		buf := make([]Item, bl)
		var n int
		var ok bool
		if op == c12RemoveManyInto {
			n, ok = q.RemoveManyInto(buf, max)
		} else {
			n, ok = q.RemoveManyIntoShrink(buf, max)
		}
		vAssert(ok == (len(seq) > 0), "RemoveManyInto-ok-iff-nonempty")
		if !ok {
			vAssert(n == 0, "RemoveManyInto-empty-returns-0")
			c12inv(r, nil, closed)
			return
		}
		vAssert(n == c12take(len(seq), max, bl), "RemoveManyInto-count")
		want := vConcInt(n)
		if want > bl || want > len(seq) {
			return
		}
		c12prefix(buf[:want], seq, want)
		c12inv(r, seq[want:], false)
		vCover(op == c12RemoveManyIntoShrink && len(q.nodes) < 8 && len(seq) == 8, "removemanyintoshrink-shrank")
		vCover(want > 1 && want < len(seq), "removemanyinto-partial")
		vCover(want == bl && bl < len(seq), "removemanyinto-buffer-limited")
	case c12FinishCollect0:
		q.FinishCollect(0)
		c12inv(r, seq, closed)
		vCover(!closed && len(q.nodes) == 2 && r.initCap == 2 && len(seq) == 1, "shrunk-to-initcap")
	case c12CloseRemaining:
		rem := q.CloseRemaining()
		c12prefix(rem, seq, len(seq))
		c12inv(r, nil, true)
		vCover(len(rem) > 2, "closeremaining-several")
	case c12Close:
		q.Close()
		c12inv(r, nil, true)
	case c12Readers:
		// observers do not change anything
		vAssert(q.Closed() == closed, "Closed-exact")
		vAssert(q.Len() == len(seq), "Len-exact")
		vAssert(q.Size() == c12sum(seq), "Size-exact")
		if len(seq) > 0 || closed {
			vAssert(q.Wait() == !closed, "Wait-does-not-block-when-nonempty-or-closed")
		}
		c12inv(r, seq, closed)
	}
}


// Base case: the queue New returns is a valid (empty) ring.
func vh_C12_ring_base() {
	initCap := 1 + vChoice("initcap", 4)
	r := &c12ring{q: New(initCap), initCap: initCap}
	c12inv(r, nil, false)
	vAssert(!r.q.Closed(), "new-queue-open")
}

// Delayed shrink: FinishCollect(d>0) arms (or re-arms) the shrink timer; when it
// fires, the ring is shrunk in place. From an arbitrary valid state: neither
// arming nor the timer-driven shrink changes the abstract sequence; an
// operation between arming and firing is seen by the shrink; Close/
// CloseRemaining disarm it.
func vh_C12_ring_delayed_shrink() {
	r := c12pre(false)
	q := r.q
	seq := r.seq
	const d = 1000 // ns
	q.FinishCollect(d)
	c12inv(r, seq, false)
	switch vChoice("between", 5) {
	case 0:
	case 1:
		it := c12item("a", 0, 4)
		vAssert(q.Add(it), "Add-accepted")
		seq = append(append([]Item{}, seq...), it)
	case 2:
		buf := make([]Item, 9)
		n, _ := q.RemoveManyInto(buf, vRange("max", 1, 9))
		n = vConcInt(n)
		vAssume(n <= len(seq))
		c12prefix(buf[:n], seq, n)
		seq = seq[n:]
		q.FinishCollect(d) // re-arm (Reset path)
	case 3:
		rem := q.CloseRemaining()
		c12prefix(rem, seq, len(seq))
		vAdvance(2 * d)
		vSettle()
		c12inv(r, nil, true)
		return
	case 4:
		q.Close()
		vAdvance(2 * d)
		vSettle()
		c12inv(r, nil, true)
		q.FinishCollect(d) // must not re-arm a closed queue
		vAdvance(2 * d)
		vSettle()
		c12inv(r, nil, true)
		return
	}
	capBefore := len(q.nodes)
	vAdvance(2 * d)
	vSettle()
	c12inv(r, seq, false)
	vCover(len(q.nodes) < capBefore, "timer-shrank-ring")
	vCover(len(q.nodes) < capBefore && len(seq) > 1, "timer-shrank-nonempty-ring")
}
