package filter

import "github.com/centrifugal/protocol"

// C15: tags filter evaluation matches its specification.
//
// Reference model of the filter language (this file, c15ref*): written over
// the symbolic inputs with the non-branching combinators, so the oracle adds
// no paths. The real Match / Validate / Hash of internal/filter (and the real
// github.com/quagmt/udecimal parser and comparison) are executed.
//
//   leaf semantics, with (present, val) = lookup of Key in the tag map:
//     eq   present && val == Val          neq  !(eq)
//     in   present && val in Vals         nin  !(in)      (a missing key is in no set)
//     ex   present                        nex  !present
//     sw/ew/ct  present && prefix/suffix/substring
//     gt/gte/lt/lte  present && val and Val are numerals && exact decimal comparison
//   numerals: [+-]? digit+ ( '.' digit+ )?   (at most 19 fraction digits)
//   and/or/not: boolean connectives (and of nothing = true, or of nothing = false)
//   well-formed: see c15refWF.

type c15ent struct{ k, v string }

// ---------------------------------------------------------------- reference

func c15hasPrefix(v, p string) bool {
	if len(p) > len(v) {
		return false
	}
	return vStrEq(v[:len(p)], p)
}

func c15hasSuffix(v, p string) bool {
	if len(p) > len(v) {
		return false
	}
	return vStrEq(v[len(v)-len(p):], p)
}

func c15contains(v, p string) bool {
	r := false
	for i := 0; i+len(p) <= len(v); i++ {
		r = vOr(r, vStrEq(v[i:i+len(p)], p))
	}
	return r
}

func c15isDigit(b byte) bool { return vAnd(b >= '0', b <= '9') }

const c15scale = 4 // reference numerals are scaled by 10^4 (strings of <= 6 bytes)

func c15pow10(n int) int {
	r := 1
	for ; n > 0; n-- {
		r *= 10
	}
	return r
}

// c15refNum reads s (concrete length <= 6, symbolic bytes) as a numeral
// [+-]? digit+ ('.' digit+)? and returns (is a numeral, value * 10^c15scale).
// Every (sign, dot position) layout is enumerated; layouts are mutually
// exclusive, so the value is an ite chain.
func c15refNum(s string) (bool, int) {
	ok, v, _ := c15refNumP(s, false)
	return ok, v
}

// c15pin (param c15_pin): the numeric reference branches on the layout
// conditions instead of building one ite chain over all layouts. It is called
// after the real Match, whose path condition has already fixed the layout of
// every numeral it parsed, so the branches add no paths there; the solver then
// sees one layout per numeral instead of all of them.
var c15pin bool

// c15refNumP returns (is a numeral, signed value * 10^frac, frac). Without
// pin, frac is always c15scale; with pin, frac is the number of fraction
// digits of the layout the path is on (no scaling at all).
func c15refNumP(s string, pin bool) (bool, int, int) {
	valid := false
	value := 0
	for sign := 0; sign <= 1; sign++ {
		if len(s) < sign+1 {
			continue
		}
		body := s[sign:]
		m := len(body)
		signOK := true
		neg := false
		if sign == 1 {
			signOK = vOr(s[0] == '+', s[0] == '-')
			neg = s[0] == '-'
		} else {
			// without a sign the first byte must itself be a digit; this is
			// implied by the layout conditions below.
		}
		// dot == -1: no dot; else dot index inside body with digits on both sides
		for dot := -1; dot <= m-2; dot++ {
			if dot == 0 {
				continue
			}
			cond := signOK
			coef := 0
			for i := 0; i < m; i++ {
				if i == dot {
					cond = vAnd(cond, body[i] == '.')
					continue
				}
				cond = vAnd(cond, c15isDigit(body[i]))
				coef = coef*10 + int(body[i]-'0')
			}
			frac := 0
			if dot > 0 {
				frac = m - 1 - dot
			}
			if pin {
				if cond { // symbolic branch
					return true, vIteInt(neg, -coef, coef), frac
				}
				continue
			}
			v := coef * c15pow10(c15scale-frac)
			v = vIteInt(neg, -v, v)
			valid = vOr(valid, cond)
			value = vIteInt(cond, v, value)
		}
	}
	return valid, value, c15scale
}

func c15refCmpNum(cmp string, a, b string) bool {
	okA, va, fa := c15refNumP(a, c15pin)
	if c15pin && !okA { // the real code does not look at b either
		return false
	}
	okB, vb, fb := c15refNumP(b, c15pin)
	// common denominator 10^max(fa,fb)
	if fa < fb {
		va *= c15pow10(fb - fa)
	} else {
		vb *= c15pow10(fa - fb)
	}
	var r bool
	switch cmp {
	case CompareGT:
		r = va > vb
	case CompareGTE:
		r = va >= vb
	case CompareLT:
		r = va < vb
	default:
		r = va <= vb
	}
	return vAnd(vAnd(okA, okB), r)
}

// c15refPresent: the key of f is a key of the tag map.
func c15refPresent(f *protocol.FilterNode, ents []c15ent) bool {
	r := false
	for _, e := range ents {
		r = vOr(r, vStrEq(e.k, f.Key))
	}
	return r
}

// c15refLeaf is the reference value of a leaf with a known comparison
// operator. ents are the entries of the tag map (distinct keys).
func c15refLeaf(f *protocol.FilterNode, ents []c15ent) bool {
	// present && p(val)
	with := func(p func(v string) bool) bool {
		r := false
		for _, e := range ents {
			keq := vStrEq(e.k, f.Key)
			if c15pin {
				if keq { // symbolic branch, already decided by the real lookup
					r = vOr(r, p(e.v))
				}
				continue
			}
			r = vOr(r, vAnd(keq, p(e.v)))
		}
		return r
	}
	switch f.Cmp {
	case CompareEQ:
		return with(func(v string) bool { return vStrEq(v, f.Val) })
	case CompareNotEQ:
		return vNot(with(func(v string) bool { return vStrEq(v, f.Val) }))
	case CompareIn, CompareNotIn:
		in := with(func(v string) bool {
			r := false
			for _, x := range f.Vals {
				r = vOr(r, vStrEq(v, x))
			}
			return r
		})
		if f.Cmp == CompareIn {
			return in
		}
		return vNot(in)
	case CompareExists:
		return c15refPresent(f, ents)
	case CompareNotExists:
		return vNot(c15refPresent(f, ents))
	case CompareStartsWith:
		return with(func(v string) bool { return c15hasPrefix(v, f.Val) })
	case CompareEndsWith:
		return with(func(v string) bool { return c15hasSuffix(v, f.Val) })
	case CompareContains:
		return with(func(v string) bool { return c15contains(v, f.Val) })
	case CompareGT, CompareGTE, CompareLT, CompareLTE:
		return with(func(v string) bool { return c15refCmpNum(f.Cmp, v, f.Val) })
	}
	panic("c15refLeaf: unknown cmp")
}

// c15refEval: reference value of a well-formed tree.
func c15refEval(f *protocol.FilterNode, ents []c15ent) bool {
	switch f.Op {
	case OpLeaf:
		return c15refLeaf(f, ents)
	case OpAnd:
		r := true
		for _, c := range f.Nodes {
			r = vAnd(r, c15refEval(c, ents))
		}
		return r
	case OpOr:
		r := false
		for _, c := range f.Nodes {
			r = vOr(r, c15refEval(c, ents))
		}
		return r
	case OpNot:
		return vNot(c15refEval(f.Nodes[0], ents))
	}
	panic("c15refEval: bad op")
}

// c15refWF: reference well-formedness. Only emptiness / counts / constant
// operator names matter, all of which are concrete in the harnesses.
func c15refWF(f *protocol.FilterNode) bool {
	switch f.Op {
	case "":
		switch f.Cmp {
		case "eq", "neq", "sw", "ew", "ct", "gt", "gte", "lt", "lte":
			return len(f.Key) > 0 && len(f.Val) > 0 && len(f.Vals) == 0
		case "in", "nin":
			return len(f.Key) > 0 && len(f.Val) == 0 && len(f.Vals) > 0
		case "ex", "nex":
			return len(f.Val) == 0 && len(f.Vals) == 0
		}
		return false
	case "and", "or":
		if len(f.Nodes) == 0 {
			return false
		}
		for _, c := range f.Nodes {
			if !c15refWF(c) {
				return false
			}
		}
		return true
	case "not":
		return len(f.Nodes) == 1 && c15refWF(f.Nodes[0])
	}
	return false
}

// ---------------------------------------------------------------- inputs

// c15tags builds a tag map with up to maxN entries, keys of length <= maxK
// and values of length <= maxV (all bytes symbolic), keys pairwise distinct
// (a map with equal keys is a smaller map, which is enumerated as well).
func c15tags(maxN, maxK, maxV int) (map[string]string, []c15ent) {
	n := vChoice("ntags", maxN+1)
	tags := map[string]string{}
	var ents []c15ent
	prevK := 0
	for i := 0; i < n; i++ {
		kl := vChoice("tag_klen", maxK+1)
		if kl < prevK { // entries are unordered: enumerate key lengths ascending
			vAssume(false)
		}
		prevK = kl
		vl := vChoice("tag_vlen", maxV+1)
		k := vString("tag_k", kl)
		v := vString("tag_v", vl)
		for _, e := range ents {
			vAssume(vNot(vStrEq(e.k, k)))
		}
		ents = append(ents, c15ent{k, v})
		tags[k] = v
	}
	return tags, ents
}

// c15check runs the real Validate and Match on f and compares with the
// reference. absentEmptyIn: condition under which some in/nin leaf of f is
// evaluated with its key absent and "" among its Vals (the known region).
func c15check(f *protocol.FilterNode, tags map[string]string, ents []c15ent, known bool) {
	verr := Validate(f)
	wf := c15refWF(f)
	vAssert((verr == nil) == wf, "validate-accepts-exactly-well-formed")
	vCover(verr == nil, "validated")
	vCover(verr != nil, "rejected")
	if verr != nil {
		return
	}
	got, err := Match(f, tags)
	vAssert(err == nil, "validated-tree-matches-without-error")
	want := c15refEval(f, ents)
	vCover(got, "match-true")
	vCover(vNot(got), "match-false")
	vKnown("C15-in-absent-empty", known)
	vAssert(vIff(got, want), "match-equals-reference")
}

// c15knownLeaf: the leaf is in/nin, its key is absent and "" is among Vals.
func c15knownLeaf(f *protocol.FilterNode, ents []c15ent) bool {
	if f.Op != OpLeaf || (f.Cmp != CompareIn && f.Cmp != CompareNotIn) {
		return false
	}
	hasEmpty := false
	for _, x := range f.Vals {
		if len(x) == 0 {
			hasEmpty = true
		}
	}
	if !hasEmpty {
		return false
	}
	return vNot(c15refPresent(f, ents))
}

// c15known: some leaf of the tree is in the known region.
func c15known(f *protocol.FilterNode, ents []c15ent) bool {
	if f == nil {
		return false
	}
	r := c15knownLeaf(f, ents)
	for _, c := range f.Nodes {
		r = vOr(r, c15known(c, ents))
	}
	return r
}

// ---------------------------------------------------------------- harnesses

var c15valOps = []string{CompareEQ, CompareNotEQ, CompareStartsWith, CompareEndsWith, CompareContains, CompareExists, CompareNotExists}

// C15a: leaves with a single value operand (and ex/nex): every operator,
// Key/Val of every length up to the bound, optional stray Vals, every tag map.
func vh_C15_leaf_val() {
	maxK := vParam("c15_klen", 1)
	maxV := vParam("c15_vlen", 2)
	maxT := vParam("c15_tags", 1)
	op := c15valOps[vChoice("cmp", len(c15valOps))]
	f := &protocol.FilterNode{Cmp: op}
	f.Key = vString("key", vChoice("klen", maxK+1))
	f.Val = vString("val", vChoice("vlen", maxV+1))
	if vChoice("stray_vals", 2) == 1 {
		f.Vals = []string{vString("vals0", 1)}
	}
	tags, ents := c15tags(maxT, maxK, maxV)
	c15check(f, tags, ents, false)
}

// C15b: set operators in / nin.
func vh_C15_leaf_set() {
	maxK := vParam("c15_klen", 1)
	maxV := vParam("c15_vlen", 2)
	maxT := vParam("c15_tags", 1)
	maxS := vParam("c15_set", 2)
	f := &protocol.FilterNode{Cmp: CompareIn}
	if vChoice("cmp", 2) == 1 {
		f.Cmp = CompareNotIn
	}
	f.Key = vString("key", vChoice("klen", maxK+1))
	if vChoice("stray_val", 2) == 1 {
		f.Val = vString("val", 1)
	}
	n := vChoice("nvals", maxS+1)
	prev := 0
	for i := 0; i < n; i++ {
		l := vChoice("vals_len", maxV+1)
		if l < prev { // sets are unordered: lengths ascending
			vAssume(false)
		}
		prev = l
		f.Vals = append(f.Vals, vString("vals", l))
	}
	tags, ents := c15tags(maxT, maxK, maxV)
	known := c15knownLeaf(f, ents)
	vCover(vAnd(known, len(f.Key) > 0), "in-absent-key-empty-string-in-set")
	c15check(f, tags, ents, known)
}

var c15numOps = []string{CompareGT, CompareGTE, CompareLT, CompareLTE}

// C15c: numeric operators over symbolic numerals: every byte string up to
// the length bound on both sides (so signs, dots, leading zeros, non-digits,
// "1." ".5" "-" all arise), key present or absent.
func vh_C15_leaf_num() {
	maxL := vParam("c15_numlen", 3)
	c15pin = vParam("c15_pin", 1) != 0
	f := &protocol.FilterNode{Cmp: CompareGT, Key: vString("key", 1)}
	f.Val = vString("val", vChoice("vlen", maxL+1))
	tags := map[string]string{}
	var ents []c15ent
	if vChoice("ntags", 2) == 1 {
		k := vString("tag_k", 1)
		v := vString("tag_v", vChoice("tag_vlen", maxL+1))
		tags[k] = v
		ents = append(ents, c15ent{k, v})
	}
	if len(ents) == 1 && len(f.Val) > 0 {
		okA, _ := c15refNum(ents[0].v)
		okB, _ := c15refNum(f.Val)
		vCover(vAnd(okA, okB), "both-numerals")
		vCover(vAnd(okA, vNot(okB)), "filter-value-not-a-numeral")
		vCover(vAnd(vNot(okA), okB), "tag-value-not-a-numeral")
	}
	// the four operators on the same path: after the first call the path
	// condition has fixed the layout of both numerals
	for _, op := range c15numOps {
		f.Cmp = op
		c15check(f, tags, ents, false)
	}
}

// ---- edge numerals (concrete table, one symbolic byte)

var c15edge = []string{
	"0", "-0", "+0", "0.0", "00", "007", "7", "7.0", "7.00", "-7", "+7", "-7.5", "7.5",
	"0.1", "0.10", "0.09", "-0.1",
	"9223372036854775807", "9223372036854775808", // 2^63-1, 2^63
	"9999999999999999999",                          // 19 digits: last length parsed in uint64
	"18446744073709551615", "18446744073709551616", // 2^64-1, 2^64: 20 digits, chunked parser
	"10000000000000000000",
	"0.0000000000000000001", // 19 fraction digits: accepted
	"0.0000000000000000002",
	"1234567890123456789.1234567890123456789", // 19+19 digits
	"-1234567890123456789.1234567890123456789",
	"1234567890123456789.123456789012345678",
	"99999999999999999999.9999999999999999999", // 20+19 digits: 128-bit coefficient
	"340282366920938463463374607431768211455",  // 2^128-1
	"-340282366920938463463374607431768211455",
	"000000000000000000000000000000000000000001", // 42 bytes: beyond the 41-byte fast path
	"340282366920938463463374607431768211456",    // 2^128: math/big fallback
	"340282366920938463463374607431768211456.5",
	"-99999999999999999999999999999999999999999", // 41 digits
	"99999999999999999999999999999999999999999.0000000000000000001",
}

// c15edgeBad: not numerals for the engine => every numeric comparison false.
var c15edgeBad = []string{
	"", " ", "1.", ".5", "-.5", "+", "-", "--1", "+-1", "1e2", "1.2.3", "1,5", " 1", "1 ", "0x10", "NaN", "Inf",
	"0.00000000000000000001", // 20 fraction digits: rejected by the engine
	"1.00000000000000000000",
}

func c15rep(ch byte, n int) string {
	b := make([]byte, n)
	for i := range b {
		b[i] = ch
	}
	return string(b)
}

// c15decCmp: exact comparison (-1,0,1) of two concrete numerals of the form
// [+-]? digit+ ('.' digit+)? by aligned digit strings (no arithmetic).
func c15decCmp(a, b string) int {
	split := func(s string) (neg bool, ip, fp string) {
		if s[0] == '-' || s[0] == '+' {
			neg = s[0] == '-'
			s = s[1:]
		}
		ip = s
		for i := 0; i < len(s); i++ {
			if s[i] == '.' {
				ip, fp = s[:i], s[i+1:]
			}
		}
		for len(ip) > 1 && ip[0] == '0' {
			ip = ip[1:]
		}
		for len(fp) > 0 && fp[len(fp)-1] == '0' {
			fp = fp[:len(fp)-1]
		}
		if ip == "0" && fp == "" {
			neg = false
		}
		return
	}
	mag := func(ai, af, bi, bf string) int {
		if len(ai) != len(bi) {
			if len(ai) < len(bi) {
				return -1
			}
			return 1
		}
		if ai != bi {
			if ai < bi {
				return -1
			}
			return 1
		}
		for len(af) < len(bf) {
			af += "0"
		}
		for len(bf) < len(af) {
			bf += "0"
		}
		if af == bf {
			return 0
		}
		if af < bf {
			return -1
		}
		return 1
	}
	na, ai, af := split(a)
	nb, bi, bf := split(b)
	switch {
	case na && !nb:
		return -1
	case !na && nb:
		return 1
	case na:
		return -mag(ai, af, bi, bf)
	}
	return mag(ai, af, bi, bf)
}

func c15matchNum(op, tagVal, val string) bool {
	f := &protocol.FilterNode{Cmp: op, Key: "k", Val: val}
	vAssert(Validate(f) == nil, "edge-validated")
	got, err := Match(f, map[string]string{"k": tagVal})
	vAssert(err == nil, "validated-tree-matches-without-error")
	return got
}

// C15d: edge numerals. (1) every ordered pair of the concrete table under all
// four operators against the exact string comparison; (2) a table numeral
// against a copy of itself with ONE byte replaced by a symbolic byte:
// the copy is a numeral iff the byte is a digit (sign/dot bytes excluded by
// assumption, they are covered by vh_C15_leaf_num), and then the two values
// order like the two digits (reversed for negative numerals).
func vh_C15_num_edge() {
	// the longest accepted numeral (200 bytes) and the shortest rejected one
	edge := append([]string{"1" + c15rep('0', 199), "-" + c15rep('9', 180) + "." + c15rep('9', 18)}, c15edge...)
	bad := append([]string{"1" + c15rep('0', 200), c15rep('0', 201)}, c15edgeBad...)
	i := vChoice("a", len(edge))
	a := edge[i]
	switch vChoice("mode", 3) {
	case 0: // concrete pairs
		for _, b := range edge {
			c := c15decCmp(a, b)
			vAssert(c15matchNum(CompareGT, a, b) == (c > 0), "edge-gt")
			vAssert(c15matchNum(CompareGTE, a, b) == (c >= 0), "edge-gte")
			vAssert(c15matchNum(CompareLT, a, b) == (c < 0), "edge-lt")
			vAssert(c15matchNum(CompareLTE, a, b) == (c <= 0), "edge-lte")
		}
		vCover(true, "edge-pairs")
	case 1: // non-numerals on either side
		for _, b := range bad {
			for _, op := range c15numOps {
				vAssert(!c15matchNum(op, b, a), "edge-bad-tag-value-false")
				if b != "" {
					vAssert(!c15matchNum(op, a, b), "edge-bad-filter-value-false")
				}
			}
		}
		vCover(true, "edge-non-numerals")
	case 2: // one symbolic byte
		// position: the last digit of any numeral; the first digit only for
		// numerals of at most 19 digits (a symbolic leading digit of a longer
		// numeral puts chains of 128-bit multiplications before the solver)
		pos := len(a) - 1
		if vChoice("pos", 2) == 1 {
			pos = 0
			if a[0] == '-' || a[0] == '+' {
				pos = 1
			}
			if len(a)-pos > 19 || pos == len(a)-1 {
				vAssume(false)
			}
		}
		x := vByte("x")
		vAssume(vAnd(x != '.', vAnd(x != '+', x != '-')))
		bb := []byte(a)
		bb[pos] = x
		b := string(bb)
		neg := a[0] == '-'
		isNum := c15isDigit(x)
		d := a[pos]
		lt, gt := x < d, x > d // b < a, b > a for non-negative numerals
		if neg {
			lt, gt = gt, lt
		}
		side := vChoice("side", 2) // which side carries the symbolic numeral
		for _, op := range c15numOps {
			var got, want bool
			if side == 0 {
				got = c15matchNum(op, b, a) // b OP a
				switch op {
				case CompareGT:
					want = gt
				case CompareGTE:
					want = vNot(lt)
				case CompareLT:
					want = lt
				default:
					want = vNot(gt)
				}
			} else {
				got = c15matchNum(op, a, b) // a OP b
				switch op {
				case CompareGT:
					want = lt
				case CompareGTE:
					want = vNot(gt)
				case CompareLT:
					want = gt
				default:
					want = vNot(lt)
				}
			}
			vAssert(vIff(got, vAnd(isNum, want)), "edge-symbolic-digit")
		}
		vCover(isNum, "edge-symbolic-digit-numeral")
		vCover(vNot(isNum), "edge-symbolic-byte-not-a-digit")
	}
}

// ---- trees

// c15leafKind builds the i-th leaf of a tree. The leaves use the fixed keys
// "a","b","c" so that, with symbolic tag values and symbolic presence, every
// combination of leaf outcomes is feasible.
//
//	0 eq   1 nin   2 gte (numeric)  3 nex   4 ill-formed (eq without Val)
//	5 unknown operator   6 in with "" among Vals (the only kind that can fall
//	into the known region C15-in-absent-empty)
func c15leaf(i, kind int) *protocol.FilterNode {
	key := string([]byte{byte('a' + i)})
	switch kind {
	case 0:
		return &protocol.FilterNode{Key: key, Cmp: CompareEQ, Val: vString("leaf_val", 1)}
	case 1:
		return &protocol.FilterNode{Key: key, Cmp: CompareNotIn, Vals: []string{vString("leaf_vals", 1), "q"}}
	case 2:
		return &protocol.FilterNode{Key: key, Cmp: CompareGTE, Val: "5"}
	case 3:
		return &protocol.FilterNode{Key: key, Cmp: CompareNotExists}
	case 4:
		return &protocol.FilterNode{Key: key, Cmp: CompareEQ}
	case 6:
		return &protocol.FilterNode{Key: key, Cmp: CompareIn, Vals: []string{"", vString("leaf_vals", 1)}}
	}
	return &protocol.FilterNode{Key: key, Cmp: "like", Val: "x"}
}

const c15kinds = 7

type c15gen struct {
	leaves   int   // leaves built so far
	budget   int   // max leaves
	win      []int // leaf kinds by leaf index; nil: chosen independently
	maxDepth int
}

func (g *c15gen) leaf() *protocol.FilterNode {
	i := g.leaves
	g.leaves++
	kind := 0
	if g.win != nil {
		kind = g.win[i%len(g.win)]
	} else {
		kind = vChoice("leaf_kind", c15kinds)
	}
	return c15leaf(i, kind)
}

// c15tree enumerates tree shapes: a leaf, or and/or with 1..k children, or
// not with one child; at most g.budget leaves, depth <= g.maxDepth.
func c15tree(g *c15gen, depth int) *protocol.FilterNode {
	if depth == g.maxDepth {
		return g.leaf()
	}
	k := vChoice("node", 4) // 0 leaf, 1 and, 2 or, 3 not
	if k == 0 {
		return g.leaf()
	}
	if k == 3 {
		if g.leaves >= g.budget {
			vAssume(false)
		}
		return &protocol.FilterNode{Op: OpNot, Nodes: []*protocol.FilterNode{c15tree(g, depth+1)}}
	}
	op := OpAnd
	if k == 2 {
		op = OpOr
	}
	room := g.budget - g.leaves
	if room < 1 {
		vAssume(false)
	}
	n := 1 + vChoice("children", room)
	f := &protocol.FilterNode{Op: op}
	for c := 0; c < n; c++ {
		if g.leaves >= g.budget {
			vAssume(false)
		}
		f.Nodes = append(f.Nodes, c15tree(g, depth+1))
	}
	return f
}

// c15treeTags: tag map for a tree with leaves over the keys "a","b","c".
// Entry i has the symbolic one-byte key tk_i in {'a'+i, 'x'+i} (so the key of
// leaf i is present or absent, decided lazily when the real lookup happens)
// and a symbolic one-byte value. Keys are pairwise distinct by construction.
func c15treeTags(nleaves int) (map[string]string, []c15ent) {
	tags := map[string]string{}
	var ents []c15ent
	for i := 0; i < nleaves; i++ {
		k := vString("tag_k", 1)
		vAssume(vOr(k[0] == byte('a'+i), k[0] == byte('x'+i)))
		v := vString("tag_v", 1)
		tags[k] = v
		ents = append(ents, c15ent{k, v})
	}
	return tags, ents
}

// leaf kinds by leaf index for the "window" mode (see c15leaf for the kinds)
var c15windows = [][3]int{
	{0, 1, 2}, // eq, nin, gte
	{3, 0, 6}, // nex, eq, in with ""
	{1, 4, 0}, // nin, ill-formed, eq
	{2, 3, 5}, // gte, nex, unknown operator
	{5, 2, 3},
	{4, 5, 4},
}

// C15e: and / or / not compose as boolean connectives; Validate on trees.
// mode 0: every shape with <= c15_leaves leaves, leaf kinds from a window
// table; mode 1: every shape with <= c15_free_leaves leaves, every leaf kind
// chosen independently.
func vh_C15_tree() {
	g := &c15gen{maxDepth: vParam("c15_depth", 2)}
	if vChoice("mode", 2) == 0 {
		g.budget = vParam("c15_leaves", 3)
		g.win = c15windows[vChoice("window", vParam("c15_windows", 4))][:]
	} else {
		g.budget = vParam("c15_free_leaves", 1)
	}
	f := c15tree(g, 0)
	tags, ents := c15treeTags(g.leaves)
	vCover(f.Op == OpNot, "root-not")
	vCover(f.Op == OpAnd && len(f.Nodes) > 1, "root-and-several")
	vCover(f.Op == OpOr && len(f.Nodes) > 1, "root-or-several")
	vCover(len(f.Nodes) > 0 && len(f.Nodes[0].Nodes) > 0, "depth-2")
	c15check(f, tags, ents, c15known(f, ents))
}

// C15f: malformed composite nodes: Validate must reject them (and, being
// rejected, nothing is demanded of Match).
func vh_C15_tree_malformed() {
	good := func() *protocol.FilterNode {
		return &protocol.FilterNode{Key: "a", Cmp: CompareEQ, Val: vString("leaf_val", 1)}
	}
	if vChoice("part", 2) == 1 {
		c15leafNames()
		return
	}
	var f *protocol.FilterNode
	switch vChoice("shape", 9) {
	case 0:
		f = &protocol.FilterNode{Op: OpAnd}
	case 1:
		f = &protocol.FilterNode{Op: OpOr}
	case 2:
		f = &protocol.FilterNode{Op: OpNot}
	case 3:
		f = &protocol.FilterNode{Op: OpNot, Nodes: []*protocol.FilterNode{good(), good()}}
	case 4:
		f = &protocol.FilterNode{Op: "xor", Nodes: []*protocol.FilterNode{good()}}
	case 5:
		f = &protocol.FilterNode{Op: "AND", Nodes: []*protocol.FilterNode{good()}}
	case 6: // malformed node below a well-formed root
		f = &protocol.FilterNode{Op: OpAnd, Nodes: []*protocol.FilterNode{good(), {Op: OpOr}}}
	case 7:
		f = &protocol.FilterNode{Op: OpOr, Nodes: []*protocol.FilterNode{{Op: OpNot, Nodes: []*protocol.FilterNode{good(), good()}}, good()}}
	case 8:
		f = &protocol.FilterNode{Op: OpNot, Nodes: []*protocol.FilterNode{{Op: "nand", Nodes: []*protocol.FilterNode{good()}}}}
	}
	vAssert(!c15refWF(f), "harness: shape is malformed")
	vAssert(Validate(f) != nil, "validate-accepts-exactly-well-formed")
	vCover(true, "malformed-shapes")
}

func c15leafNames() {
	// all operator names, including unknown ones and "", on a single leaf with
	// every operand presence combination
	names := []string{"eq", "neq", "in", "nin", "ex", "nex", "sw", "ew", "ct", "gt", "gte", "lt", "lte", "", "like", "EQ", "e", "eqq"}
	l := &protocol.FilterNode{Cmp: names[vChoice("name", len(names))]}
	l.Key = vString("key", vChoice("klen", 2))
	l.Val = vString("val", vChoice("vlen", 2))
	if vChoice("nvals", 2) == 1 {
		l.Vals = []string{vString("vals", vChoice("vals_len", 2))}
	}
	verr := Validate(l)
	vAssert((verr == nil) == c15refWF(l), "validate-accepts-exactly-well-formed")
	vCover(verr == nil, "leaf-accepted")
	vCover(verr != nil, "leaf-rejected")
}

// C15h: a nil child (representable: the JSON decoder of the protocol package
// appends nil for `"nodes":[null]`) is not a well-formed tree, so Validate
// has to reject it; a panic is not a rejection.
func vh_C15_validate_nil_child() {
	good := &protocol.FilterNode{Key: "a", Cmp: CompareEQ, Val: vString("leaf_val", 1)}
	var f *protocol.FilterNode
	hasNil := true
	switch vChoice("shape", 5) {
	case 0:
		f = &protocol.FilterNode{Op: OpAnd, Nodes: []*protocol.FilterNode{nil}}
	case 1:
		f = &protocol.FilterNode{Op: OpOr, Nodes: []*protocol.FilterNode{good, nil}}
	case 2:
		f = &protocol.FilterNode{Op: OpNot, Nodes: []*protocol.FilterNode{nil}}
	case 3:
		f = &protocol.FilterNode{Op: OpAnd, Nodes: []*protocol.FilterNode{good, {Op: OpOr, Nodes: []*protocol.FilterNode{nil}}}}
	case 4: // control: the same shape as 3 without the nil child is accepted
		f = &protocol.FilterNode{Op: OpAnd, Nodes: []*protocol.FilterNode{good, {Op: OpOr, Nodes: []*protocol.FilterNode{good}}}}
		hasNil = false
	}
	panicked := false
	var err error
	func() {
		defer func() {
			if recover() != nil {
				panicked = true
			}
		}()
		err = Validate(f)
	}()
	vKnown("C15-validate-nil-child", hasNil)
	if hasNil {
		vAssert(!panicked && err != nil, "validate-rejects-nil-child")
	} else {
		vAssert(!panicked && err == nil, "validate-accepts-exactly-well-formed")
	}
}
