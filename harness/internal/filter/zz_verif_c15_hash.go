package filter

import "github.com/centrifugal/protocol"

// C15g: the filter hash is equal for structurally equal trees.
//
// Hash = sha256.Sum256 over the vtproto encoding written into a pooled buffer.
// sha256 is a function, so equal pre-hash bytes give equal hashes; the
// harness replaces crypto/sha256.Sum256 by a recorder (engine-level stub) and
// compares the bytes that the real Hash hands to it. The two trees are built
// separately (distinct nodes, distinct slices, nil vs empty slices) from the
// same symbolic strings; between the two Hash calls other trees are hashed so
// that the pooled buffer (sync.Pool modelled as "Get returns the last Put",
// param pool_reuse=1) is reused with different stale content.

type c15strs struct {
	key, val string
	vals     []string
}

// c15build builds the tree of the given shape; alt selects an alternative
// but structurally equal representation (nil vs empty slices, Vals built by
// append with spare capacity).
func c15build(shape int, s c15strs, alt bool) *protocol.FilterNode {
	leaf := func(cmp string) *protocol.FilterNode {
		f := &protocol.FilterNode{Key: s.key, Cmp: cmp, Val: s.val}
		if alt {
			f.Vals = []string{}
			f.Nodes = []*protocol.FilterNode{}
			f.Key = string([]byte(s.key)) // a copy of the string
		}
		return f
	}
	set := func(cmp string) *protocol.FilterNode {
		f := &protocol.FilterNode{Key: s.key, Cmp: cmp}
		if alt {
			f.Vals = make([]string, 0, 8)
			for _, v := range s.vals {
				f.Vals = append(f.Vals, v)
			}
		} else {
			f.Vals = append([]string(nil), s.vals...)
		}
		return f
	}
	switch shape {
	case 0:
		return leaf(CompareEQ)
	case 1:
		return set(CompareIn)
	case 2:
		return &protocol.FilterNode{Op: OpNot, Nodes: []*protocol.FilterNode{leaf(CompareGT)}}
	case 3:
		return &protocol.FilterNode{Op: OpAnd, Nodes: []*protocol.FilterNode{leaf(CompareStartsWith), set(CompareNotIn)}}
	case 4:
		return &protocol.FilterNode{Op: OpOr, Nodes: []*protocol.FilterNode{
			{Op: OpAnd, Nodes: []*protocol.FilterNode{leaf(CompareEQ), {Key: s.key, Cmp: CompareExists}}},
			{Op: OpNot, Nodes: []*protocol.FilterNode{set(CompareIn)}},
		}}
	}
	return &protocol.FilterNode{} // the empty node: SizeVT() == 0
}

const c15shapes = 6

func vh_C15_hash() {
	var seen [][]byte
	vStub("crypto/sha256.Sum256", func(data []byte) [32]byte {
		seen = append(seen, append([]byte(nil), data...))
		var out [32]byte
		out[0] = byte(len(seen))
		return out
	})
	maxL := vParam("c15_hashlen", 2)
	s := c15strs{
		key: vString("key", vChoice("klen", maxL+1)),
		val: vString("val", vChoice("vlen", maxL+1)),
	}
	for i, n := 0, vChoice("nvals", 3); i < n; i++ {
		s.vals = append(s.vals, vString("vals", vChoice("vals_len", 2)))
	}
	shape := vChoice("shape", c15shapes)
	t1 := c15build(shape, s, false)
	t2 := c15build(shape, s, true)

	// different stale content before each of the two calls
	dirtyA := &protocol.FilterNode{Key: "A", Cmp: "eq", Val: c15rep('A', 130)}
	dirtyB := &protocol.FilterNode{Key: "B", Cmp: "neq", Val: c15rep('B', 140)}
	for _, d := range []*protocol.FilterNode{dirtyA, dirtyB} {
		// put a dirty buffer into every size class the trees can use
		for _, l := range []int{1, 2, 4, 8, 16, 32, 64, 128} {
			dd := &protocol.FilterNode{Key: d.Key[:1], Cmp: "eq", Val: d.Val[:l-1]}
			Hash(dd)
		}
		Hash(d)
		if d == dirtyA {
			Hash(t1)
		} else {
			Hash(t2)
		}
	}
	n := len(seen)
	vAssert(n == 20, "harness: 20 hashes recorded")
	b1, b2 := seen[9], seen[19]
	vAssert(len(b1) == len(b2), "equal-trees-equal-prehash-length")
	vAssert(vBytesEq(b1, b2), "equal-trees-equal-prehash-bytes")
	vAssert(len(b1) == t1.SizeVT(), "prehash-is-the-whole-encoding")
	vCover(len(b1) > 16, "nested-encoding")
	vCover(len(b1) == 0, "empty-node")
}
