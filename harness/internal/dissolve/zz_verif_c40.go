package dissolve

// C40: deferred jobs run until they succeed.
//
// (a) inductive step of the job ring (queueImpl): from ANY ring satisfying the
// representation invariant, one real operation re-establishes the invariant
// and changes the abstract FIFO job sequence exactly as the reference says.
// Jobs are closures (not comparable), so a job is identified by calling it:
// it appends its (symbolic) id to a log.
//
// (b) the Dissolver with 2 workers under the scheduler: jobs with symbolic
// failure counts, Close at a chosen point, bounded preemptions.

import "sync"

type c40err struct{}

func (c40err) Error() string { return "c40: job failed" }

type c40ring struct {
	q   *queueImpl
	log *[]uint8
	seq []uint8 // ids of the queued jobs, oldest first
}

func c40job(log *[]uint8, tag string) (Job, uint8) {
	id := vU8(tag + "_id")
	return func() error { *log = append(*log, id); return nil }, id
}

// c40pre: arbitrary valid ring. Invariant (inductive, holds for newQueue()):
// cap = initCap*2^k, 0<=head<cap, 0<=cnt<=cap, tail=(head+cnt)%cap, and the
// ring is never less than half full unless it has its initial capacity
// (Remove shrinks eagerly; resize relies on it: it cannot shrink an empty ring
// whose head is in the lower half).
func c40pre() *c40ring {
	initCap := initialCapacity
	if vParam("c40_initcaps", 2) > 1 {
		initCap = 1 + vChoice("initcap", 2)
	}
	capacity := initCap << uint(vChoice("caplog", vParam("c40_caplog", 3)))
	q := &queueImpl{initCap: initCap, nodes: make([]Job, capacity)}
	q.cond = sync.NewCond(&q.mu)
	log := &[]uint8{}
	r := &c40ring{q: q, log: log}
	if vChoice("closed", 2) == 1 {
		if capacity != initCap {
			vAssume(false)
		}
		q.closed = true
		q.nodes = nil
		return r
	}
	head := vConcInt(vRange("head", 0, capacity-1))
	cnt := vConcInt(vRange("cnt", 0, capacity))
	if capacity != initCap && cnt <= capacity/2 {
		vAssume(false) // not a reachable/valid ring
	}
	ids := make([]uint8, capacity)
	for j := 0; j < capacity; j++ {
		q.nodes[j], ids[j] = c40job(log, "s") // dead slots keep stale jobs
	}
	q.head = head
	q.cnt = cnt
	q.tail = (head + cnt) % capacity
	for i := 0; i < cnt; i++ {
		r.seq = append(r.seq, ids[(head+i)%capacity])
	}
	return r
}

func c40inv(r *c40ring, want []uint8, wantClosed bool) {
	q := r.q
	vAssert(q.closed == wantClosed, "closed-flag")
	vAssert(q.Closed() == wantClosed, "Closed-exact")
	if wantClosed {
		vAssert(q.cnt == 0 && len(q.nodes) == 0, "closed-queue-empty")
		return
	}
	n := len(q.nodes)
	c := n
	for c > q.initCap && c%2 == 0 {
		c /= 2
	}
	vAssert(c == q.initCap, "capacity=initCap*2^k")
	vAssert(q.head >= 0 && q.head < n, "head-in-range")
	vAssert(q.tail >= 0 && q.tail < n, "tail-in-range")
	vAssert(q.cnt >= 0 && q.cnt <= n, "count-in-range")
	vAssert(q.tail == (q.head+q.cnt)%n, "tail=(head+cnt)%cap")
	vAssert(n == q.initCap || q.cnt > n/2, "more-than-half-full-unless-initial-capacity")
	vAssert(q.cnt == len(want), "count=reference-length (no loss, no duplication)")
	// abstraction: run the queued jobs in ring order, they log their ids
	*r.log = nil
	cnt, head := vConcInt(q.cnt), vConcInt(q.head)
	for i := 0; i < cnt; i++ {
		j := q.nodes[(head+i)%n]
		vAssert(j != nil, "queued-job-non-nil")
		if j == nil {
			return
		}
		_ = j()
	}
	got := *r.log
	same := len(got) == len(want)
	for i := 0; i < len(got) && i < len(want); i++ {
		same = vAnd(same, got[i] == want[i])
	}
	vAssert(same, "fifo-content-in-order")
}

func vh_C40_ring_step() {
	r := c40pre()
	q := r.q
	seq := r.seq
	closed := q.closed
	switch vChoice("op", 5) {
	case 0:
		j, id := c40job(r.log, "a")
		ok := q.Add(j)
		vAssert(ok == !closed, "Add-accepted-iff-open")
		if closed {
			c40inv(r, nil, true)
			return
		}
		c40inv(r, append(append([]uint8{}, seq...), id), false)
		vCover(len(q.nodes) == 2*len(seq) && len(seq) > 1, "add-grew-ring")
	case 1:
		j, ok := q.Remove()
		vAssert(ok == (len(seq) > 0), "Remove-ok-iff-nonempty")
		if !ok {
			vAssert(j == nil, "Remove-empty-returns-nil")
			c40inv(r, nil, closed)
			return
		}
		*r.log = nil
		_ = j()
		vAssert(len(*r.log) == 1 && (*r.log)[0] == seq[0], "Remove-returns-oldest")
		c40inv(r, seq[1:], false)
		vCover(len(q.nodes) == len(seq)-1 && len(seq) > 2, "remove-shrank-ring")
	case 2:
		// Wait on a non-empty or closed queue does not block
		if len(seq) == 0 && !closed {
			// empty and open: Wait blocks until a producer adds a job
			j2, id := c40job(r.log, "w")
			go func() { q.Add(j2) }()
			j, ok := q.Wait()
			vAssert(ok && j != nil, "Wait-returns-the-added-job")
			if ok && j != nil {
				*r.log = nil
				_ = j()
				vAssert(len(*r.log) == 1 && (*r.log)[0] == id, "Wait-returns-the-added-job")
			}
			c40inv(r, nil, false)
			vCover(true, "wait-blocked-until-add")
			return
		}
		j, ok := q.Wait()
		vAssert(ok == !closed, "Wait-ok-iff-open")
		if !ok {
			vAssert(j == nil, "Wait-closed-returns-nil")
			c40inv(r, nil, true)
			return
		}
		*r.log = nil
		_ = j()
		vAssert(len(*r.log) == 1 && (*r.log)[0] == seq[0], "Wait-returns-oldest")
		c40inv(r, seq[1:], false)
	case 3:
		q.Close()
		c40inv(r, nil, true)
	case 4:
		// base case: the queue newQueue returns is a valid empty ring
		nq := newQueue().(*queueImpl)
		c40inv(&c40ring{q: nq, log: r.log}, nil, false)
	}
}

// ---------------------------------------------------------------------------

type c40state struct {
	fails        int // the job fails this many times, then succeeds
	runs         int
	succeeded    bool
	accepted     bool
	submitted    bool // Submit has returned
	afterSuccess int
	afterQuiesce int
}

// vh_C40_dissolver: real Dissolver, c40_workers (default 2) workers, 1..2 jobs, symbolic failure
// counts, Close at a chosen point of the submitting thread, workers
// interleaved by the scheduler with a preemption budget.
func vh_C40_dissolver() {
	vPreempt(vParam("c40_preempt", 2))
	maxFails := vParam("c40_fails", 2)
	minJobs := vParam("c40_minjobs", 1)
	njobs := minJobs + vChoice("njobs", vParam("c40_jobs", 2)-minJobs+1)
	// closeAt: Close is called before submit #closeAt; njobs = after the last
	// submit at once; njobs+1 = after everything has settled.
	closeAt := vChoice("closeat", njobs+2)
	if (vParam("c40_closemask", 15)>>uint(closeAt))&1 == 0 {
		vAssume(false) // close point not explored in this configuration
	}
	d := New(vParam("c40_workers", 2))
	quiesced := false
	st := make([]*c40state, njobs)
	jobs := make([]Job, njobs)
	for k := 0; k < njobs; k++ {
		// the failure count is a solver input, enumerated up front (the job
		// body compares it with the run counter on every run anyway)
		s := &c40state{fails: vConcInt(vRange("fails", 0, maxFails))}
		st[k] = s
		jobs[k] = func() error {
			// checked at once (a job re-run for ever would never reach the end)
			vAssert(!s.succeeded, "never-run-after-success")
			vAssert(!quiesced, "never-run-after-Close-and-settle")
			vAssert(s.accepted || !s.submitted, "refused-job-never-runs")
			if s.succeeded {
				s.afterSuccess++
			}
			if quiesced {
				s.afterQuiesce++
			}
			s.runs++
			if s.runs <= s.fails {
				return c40err{}
			}
			s.succeeded = true
			return nil
		}
	}
	vAssert(d.Run() == nil, "Run-ok")
	closed := false
	for k := 0; k <= njobs; k++ {
		if k == closeAt {
			vAssert(d.Close() == nil, "Close-ok")
			closed = true
		}
		if k < njobs {
			err := d.Submit(jobs[k])
			vAssert((err == nil) == !closed, "Submit-accepted-iff-not-closed")
			st[k].accepted = err == nil
			st[k].submitted = true
		}
	}
	if !closed {
		// no close intervenes: every job runs until it returns nil
		vSettle()
		for k := 0; k < njobs; k++ {
			vAssert(st[k].succeeded, "job-run-until-success")
			vAssert(st[k].runs == st[k].fails+1, "job-run-exactly-fails+1-times")
		}
		vCover(st[0].runs == 3, "job-retried-twice")
		vCover(njobs == 2 && st[0].runs > 1 && st[1].runs > 1, "both-jobs-retried")
		vAssert(d.Close() == nil, "Close-ok")
	}
	vSettle() // workers settle after Close returned
	quiesced = true
	// nothing may run from now on
	extra := &c40state{}
	err := d.Submit(func() error { extra.runs++; return nil })
	vAssert(err != nil, "Submit-after-Close-refused")
	vSettle()
	vAdvance(1000000000)
	vSettle()
	vAssert(extra.runs == 0, "job-submitted-after-Close-never-runs")
	for k := 0; k < njobs; k++ {
		s := st[k]
		vAssert(s.afterSuccess == 0, "never-run-after-success")
		vAssert(s.afterQuiesce == 0, "never-run-after-Close-and-settle")
		vAssert(s.runs <= s.fails+1, "no-extra-runs")
		vAssert(s.accepted || s.runs == 0, "refused-job-never-runs")
		// a job that did not reach success was cut short by Close only
		vAssert(s.succeeded || closeAt <= njobs, "unfinished-only-when-Close-intervened")
		vCover(s.accepted && s.runs > 0 && !s.succeeded, "close-cut-a-retrying-job")
		vCover(s.accepted && s.succeeded && closeAt <= k+1, "job-finished-despite-early-close")
	}
}
