package memstream

import "container/list"

// C17a: memstream.Stream, inductive step from an ARBITRARY valid stream.
//
// Valid stream (the invariant, re-established after every mutating operation):
// the retained items are the m newest offsets top-m+1..top (m may be 0: the
// stream was cleared / expired while its top survives), the list is ordered
// by offset, and index maps exactly the retained offsets to their list
// elements. top is a symbolic uint64, so the step is checked for every stream
// position (below the 2^64 wrap), not only for streams grown from empty.

type vC17Val struct{ tag int }

// vC17Stream builds the arbitrary valid pre-state. vals[k] is the value of the
// item with offset top-m+1+k.
func vC17Stream(maxM int) (s *Stream, top uint64, m int, vals []*vC17Val) {
	m = vChoice("retained", maxM+1)
	top = vU64("top")
	vAssume(top >= uint64(m))      // offsets start at 1: at most top items exist
	vAssume(top < 0xFFFFFFFFFFFFFFFF) // one more Add must not wrap (outside the claim)
	s = &Stream{
		top:     top,
		list:    list.New(),
		index:   make(map[uint64]*list.Element),
		epoch:   "EPOCH0",
		version: AppVersion{Version: vU64("topversion"), Epoch: "ve"},
	}
	for k := 0; k < m; k++ {
		v := &vC17Val{tag: k}
		vals = append(vals, v)
		off := top - uint64(m) + 1 + uint64(k)
		s.index[off] = s.list.PushBack(Item{Offset: off, Value: v})
	}
	return
}

// vC17Valid asserts the representation invariant against the reference
// contents want (oldest first): offsets contiguous up to wantTop, same values,
// index == exactly the retained offsets, each pointing at its own element.
func vC17Valid(s *Stream, wantTop uint64, want []*vC17Val, label string) {
	vAssert(s.top == wantTop, label+": top")
	vAssert(s.list.Len() == len(want), label+": retained count")
	vAssert(len(s.index) == len(want), label+": index size")
	k := 0
	for e := s.list.Front(); e != nil; e = e.Next() {
		if k >= len(want) {
			vFail(label + ": list longer than Len")
			return
		}
		it := e.Value.(Item)
		wantOff := wantTop - uint64(len(want)) + 1 + uint64(k)
		vAssert(it.Offset == wantOff, label+": offsets are the contiguous suffix ending at top")
		vAssert(it.Value == any(want[k]), label+": item value")
		ie, ok := s.index[wantOff]
		vAssert(ok, label+": retained offset indexed")
		vAssert(ie == e, label+": index points at the list element")
		k++
	}
	vAssert(k == len(want), label+": list walk length")
}

// reference for Get: the ideal log restricted to the retained window.
//
//	!useOffset: every retained item in the requested direction
//	forward   : retained items with Offset >= offset, ascending
//	reverse   : retained items with Offset <= offset, descending
//	then the first `limit` of them (limit < 0: all, limit == 0: none).
//
// Returned as per-slot predicates so that the oracle does not branch on the
// symbolic inputs: sel[k] = item k (oldest first) belongs to the result.
func vC17RefSel(top uint64, m int, offset uint64, useOffset bool, limit int, reverse bool) (sel []bool, count int) {
	sel = make([]bool, m)
	inRange := make([]bool, m)
	for k := 0; k < m; k++ {
		off := top - uint64(m) + 1 + uint64(k)
		fwd := off >= offset
		bwd := off <= offset
		dir := vOr(vAnd(reverse, bwd), vAnd(vNot(reverse), fwd))
		inRange[k] = vOr(vNot(useOffset), dir)
	}
	// rank of item k within the in-range items, in travel order
	for k := 0; k < m; k++ {
		rankF, rankR := 0, 0
		for j := 0; j < k; j++ {
			rankF = vIteInt(inRange[j], rankF+1, rankF)
		}
		for j := k + 1; j < m; j++ {
			rankR = vIteInt(inRange[j], rankR+1, rankR)
		}
		rank := vIteInt(reverse, rankR, rankF)
		within := vOr(limit < 0, rank < limit)
		sel[k] = vAnd(inRange[k], within)
	}
	count = 0
	for k := 0; k < m; k++ {
		count = vIteInt(sel[k], count+1, count)
	}
	return
}

func vh_C17_stream_get() {
	maxM := vParam("c17_m", 3)
	s, top, m, vals := vC17Stream(maxM)
	offset := vU64("offset")
	useOffset := vBool("useOffset")
	limit := vInt("limit")
	reverse := vBool("reverse")

	// The broker never asks in reverse for an offset beyond the top + 1 ... it
	// can: see vh_C17_broker_*; here the unit contract is stated for every
	// offset and the solver decides.
	sel, count := vC17RefSel(top, m, offset, useOffset, limit, reverse)

	// Known divergence region (reported; ignored unless listed as open):
	// reverse read from an offset above the top returns nothing instead of
	// the newest items.
	vKnown("C17-reverse-above-top", vAnd(vAnd(useOffset, reverse), offset > top))

	items, gotTop, err := s.Get(offset, useOffset, limit, reverse)
	vAssert(err == nil, "get: no error")
	vAssert(gotTop == top, "get: reports top")
	vAssert(len(items) == count, "get: number of items = |retained ∩ since-range| capped by limit")
	// items in travel order are exactly the selected slots in travel order
	for i := range items {
		// the i-th result must be the selected slot with i selected slots before it (in travel order)
		match := false
		for k := 0; k < m; k++ {
			before := 0
			if reverse {
				for j := k + 1; j < m; j++ {
					before = vIteInt(sel[j], before+1, before)
				}
			} else {
				for j := 0; j < k; j++ {
					before = vIteInt(sel[j], before+1, before)
				}
			}
			off := top - uint64(m) + 1 + uint64(k)
			match = vOr(match, vAnd(vAnd(sel[k], before == i), vAnd(items[i].Offset == off, items[i].Value == any(vals[k]))))
		}
		vAssert(match, "get: i-th item is the i-th selected retained item in travel order")
	}
	// Get is read-only
	vC17Valid(s, top, vals, "get leaves stream unchanged")
	vAssert(s.epoch == "EPOCH0", "get: epoch unchanged")
	vCover(len(items) == 3, "get-three")
	vCover(vAnd(len(items) == 1, m == 3), "get-limited-or-since")
	vCover(vAnd(reverse, len(items) >= 2), "get-reverse-several")
	vCover(vAnd(vAnd(useOffset, vNot(reverse)), vAnd(offset+uint64(m) <= top, len(items) == m)), "get-since-trimmed-falls-to-front")
}

func vh_C17_stream_add() {
	maxM := vParam("c17_m", 3)
	s, top, m, vals := vC17Stream(maxM)
	size := 1 + vChoice("size", vParam("c17_size", 3))
	ver := vU64("version")
	nv := &vC17Val{tag: 100}
	got, err := s.Add(nv, size, ver, "ve2")
	vAssert(err == nil, "add: no error")
	vAssert(got == top+1, "add: returns previous top + 1")
	all := append(append([]*vC17Val{}, vals...), nv)
	keep := len(all)
	if keep > size {
		keep = size
	}
	vC17Valid(s, top+1, all[len(all)-keep:], "add")
	vAssert(s.epoch == "EPOCH0", "add: epoch unchanged")
	vAssert(s.Top() == top+1 && s.Epoch() == "EPOCH0", "add: accessors")
	vCover(m == 3 && size == 1, "add-trims-several")
	vCover(m == 0 && top > 5, "add-after-clear-continues-offsets")
	vCover(m+1 <= size, "add-no-trim")
	_ = m
}

func vh_C17_stream_clear_reset() {
	maxM := vParam("c17_m", 3)
	s, top, _, _ := vC17Stream(maxM)
	op := vChoice("op", 2)
	if op == 0 {
		s.Clear()
		vC17Valid(s, top, nil, "clear keeps top, drops items")
		vAssert(s.epoch == "EPOCH0", "clear: epoch unchanged")
		// then an Add continues the numbering
		nv := &vC17Val{tag: 7}
		got, _ := s.Add(nv, 2, 0, "")
		vAssert(got == top+1, "add after clear continues at top+1")
		vC17Valid(s, top+1, []*vC17Val{nv}, "add after clear")
		vCover(top > 3, "clear-nonempty")
		return
	}
	s.Reset()
	vC17Valid(s, 0, nil, "reset empties and restarts offsets")
	vAssert(s.epoch != "EPOCH0", "reset: new epoch")
	nv := &vC17Val{tag: 7}
	got, _ := s.Add(nv, 2, 0, "")
	vAssert(got == 1, "offsets start at 1 after reset")
	vCover(top > 3, "reset-nonempty")
}

// New(): the base case of the induction.
func vh_C17_stream_new() {
	s := New()
	vC17Valid(s, 0, nil, "new")
	vAssert(len(s.epoch) > 0, "new: epoch set")
	items, top, err := s.Get(vU64("offset"), vBool("useOffset"), vInt("limit"), vBool("reverse"))
	vAssert(err == nil && top == 0 && len(items) == 0, "new: empty history at top 0")
	nv := &vC17Val{}
	got, _ := s.Add(nv, 1+vChoice("size", 3), vU64("v"), "")
	vAssert(got == 1, "offsets start at 1")
	vC17Valid(s, 1, []*vC17Val{nv}, "first add")
	s2 := New()
	vAssert(s2.epoch != s.epoch, "distinct streams get distinct epochs")
}
