package websocket

import (
	"net/http"
	"time"
)

// ---------------------------------------------------------------------------
// C31: close codes, the close frame written by the transport's Close, "first
// close wins", and the pure handshake header helpers. Upgrader.Upgrade itself
// (net/http hijacking, SHA-1 accept key) is outside. Uses vhConn/vhNewConn/
// vhParseWritten/vhBE/vhBytesEqual/vhRefUTF8 from zz_verif_c29.go.
// ---------------------------------------------------------------------------

// vh_C31_close_codes: isValidReceivedCloseCode for EVERY int against RFC 6455
// section 7.4 (+ the IANA "WebSocket Close Code Number Registry").
//
//	must reject: < 1000 (7.4.2 "not used"), 1004 (reserved), 1005, 1006, 1015
//	  ("MUST NOT be set as a status code in a Close control frame"),
//	  1016-2999 (reserved for the protocol, nothing registered), >= 5000 (no
//	  range of 7.4.2 covers them);
//	must accept: 1000-1003, 1007-1011 (7.4.1), 1012, 1013 (IANA), 3000-3999
//	  (libraries/frameworks), 4000-4999 (private use);
//	1014 ("Bad Gateway") is in the IANA registry but not in the RFC: either
//	  answer is tolerated.
func vh_C31_close_codes() {
	code := vInt("code")
	got := isValidReceivedCloseCode(code)
	mustReject := vOr(code < 1000, vOr(code == 1004, vOr(code == 1005, vOr(code == 1006, vOr(vAnd(code >= 1015, code <= 2999), code >= 5000)))))
	mustAccept := vOr(vAnd(code >= 1000, code <= 1003), vOr(vAnd(code >= 1007, code <= 1013), vAnd(code >= 3000, code <= 4999)))
	vAssert(vImplies(mustReject, !got), "codes the RFC forbids on the wire are rejected")
	vAssert(vImplies(mustAccept, got), "codes the RFC/IANA define for the wire are accepted")
	vAssert(vOr(mustReject, vOr(mustAccept, code == 1014)), "reference table is total")
	vCover(vAnd(got, code == 4999), "accept-4999")
	vCover(vAnd(!got, code == 5000), "reject-5000")
	vCover(vAnd(!got, code == 1015), "reject-1015")
	vCover(vAnd(!got, code < 0), "reject-negative")
}

// vh_C31_close_write: what websocketTransport.Close does for a Disconnect
// {code, reason}: FormatCloseMessage(int(code), reason) then WriteControl(
// CloseMessage, msg, now+1s). Symbolic code in [0,65535] minus 1005 (which the
// RFC forbids on the wire and FormatCloseMessage turns into an empty body),
// symbolic reason bytes, reason lengths around the control-frame limit:
// exactly one close frame carrying code||reason is written iff 2+len(reason)
// <= 125; otherwise nothing is written and an error is returned.
func vh_C31_close_write() {
	server := vChoice("server", 2) == 1
	lens := []int{0, 1, 2, 13, 14, 122, 123, 124, 125, 130}
	if vParam("c31_alllens", 0) != 0 {
		lens = nil
		for k := 0; k <= 130; k++ {
			lens = append(lens, k)
		}
	}
	l := lens[vChoice("reasonlen", len(lens))]
	code := vRange("code", 0, 65535)
	vAssume(code != CloseNoStatusReceived)
	reason := vString("reason", l)
	c, nc := vhNewConn(nil, server, 0)
	msg := FormatCloseMessage(code, reason)
	err := c.WriteControl(CloseMessage, msg, time.Now().Add(time.Second))
	fits := 2+l <= 125
	if !fits {
		vAssert(err != nil, "too long for a control frame: error")
		vAssert(len(nc.out) == 0, "too long for a control frame: nothing written")
		vCover(true, "does-not-fit")
		return
	}
	vAssert(err == nil, "fits: no error")
	fs := vhParseWritten(nc.out, server)
	vAssert(len(fs) == 1 && fs[0].op == CloseMessage, "fits: exactly one close frame written")
	p := fs[0].payload
	vAssert(len(p) == 2+l, "close body = 2 + len(reason) bytes")
	vAssert(int(vhBE(p[:2])) == code, "close body carries the disconnect code")
	vAssert(vhBytesEqual(p[2:], []byte(reason)), "close body carries the reason")
	got, incoming := c.CloseCode()
	vAssert(vOr(code == 0, vAnd(got == code, !incoming)), "sent close recorded as outgoing")
	vCover(l == 123, "largest-fitting-reason")
	// a second close is refused (ErrCloseSent) and not written
	err = c.WriteControl(CloseMessage, FormatCloseMessage(CloseGoingAway, ""), time.Now().Add(time.Second))
	vAssert(err == ErrCloseSent && len(nc.out) == 1, "nothing after the close frame")
}

// vh_C31_first_close: recordCloseCode / CloseCode: after any sequence of
// observed closes (symbolic code and direction each), the recorded pair is the
// FIRST one whose code is a representable status (1..65535).
func vh_C31_first_close() {
	c, _ := vhNewConn(nil, true, 0)
	n := vParam("c31_events", 3)
	have := false
	wantCode, wantIn := 0, false
	for k := 0; k < n; k++ {
		code := vInt("code")
		in := vBool("incoming")
		c.recordCloseCode(code, in)
		ok := vAnd(code >= 1, code <= 0xFFFF)
		take := vAnd(vNot(have), ok)
		wantCode = vIteInt(take, code, wantCode)
		wantIn = vOr(vAnd(take, in), vAnd(vNot(take), wantIn))
		have = vOr(have, ok)
		gc, gi := c.CloseCode()
		vAssert(gc == wantCode, "recorded code = first observed")
		vAssert(gi == wantIn, "recorded direction = first observed")
	}
	vCover(vAnd(have, wantIn), "first-was-incoming")
}

// vh_C31_first_close_wire: the same through the real entry points. order 0:
// we send close A, then the peer's close B arrives -> (A, outgoing). order 1:
// the peer's close B arrives (the reader echoes it), then the application
// sends close A -> (B, incoming). order 2: our close A is NOT sent (its write
// deadline has already passed: errWriteTimeout, nothing on the wire), then the
// peer's close B arrives -> B is the first close frame observed.
func vh_C31_first_close_wire() {
	order := vChoice("order", 3)
	a := vRange("sent", 1000, 4999)
	b := vRange("received", 3000, 4999)
	key := vBytes("key", 4)
	body := []byte{byte(b >> 8), byte(b)}
	c, nc := vhNewConn(vhFrameBytes(0x88, body, true, key), true, 0)
	vAssume(a != CloseNoStatusReceived)
	send := func(deadline time.Time) error {
		return c.WriteControl(CloseMessage, FormatCloseMessage(a, ""), deadline)
	}
	recv := func() {
		_, _, err := c.NextReader()
		ce, ok := err.(*CloseError)
		vAssert(ok && ce.Code == b, "peer close received")
	}
	switch order {
	case 0:
		vAssert(send(time.Now().Add(time.Second)) == nil, "close sent")
		recv()
		code, in := c.CloseCode()
		vAssert(code == a && !in, "sent first: recorded (A, outgoing)")
	case 1:
		recv()
		vAssert(send(time.Now().Add(time.Second)) == ErrCloseSent, "second close refused")
		code, in := c.CloseCode()
		vAssert(code == b && in, "received first: recorded (B, incoming)")
	case 2:
		err := send(time.Now().Add(-time.Second))
		vAssert(err != nil && len(nc.out) == 0, "expired deadline: close not sent")
		recv()
		code, in := c.CloseCode()
		vKnown("C31-close-recorded-though-not-sent", true)
		vAssert(code == b && in, "unsent close is not an observed close frame: recorded (B, incoming)")
	}
}

// ---- pure handshake helpers ---------------------------------------------------

// byte-wise equality modulo ASCII case (RFC 4790 i;ascii-casemap), non-branching
func vhRefFoldEq(s, t string) bool {
	if len(s) != len(t) {
		return false
	}
	eq := true
	for k := 0; k < len(s); k++ {
		a, b := s[k], t[k]
		fa := vIteInt(vAnd(a >= 'A', a <= 'Z'), int(a)+32, int(a))
		fb := vIteInt(vAnd(b >= 'A', b <= 'Z'), int(b)+32, int(b))
		eq = vAnd(eq, fa == fb)
	}
	return eq
}

// vh_C31_fold: equalASCIIFold(s, t) is true iff s and t are equal modulo ASCII
// case. mode 0: symbolic s (any bytes) against symbolic ASCII t (what the
// handshake compares header tokens with), |s|,|t| <= c31_fold; mode 1: both
// arbitrary bytes, |s|,|t| <= c31_fold_any.
func vh_C31_fold() {
	m := vParam("c31_fold", 2)
	anyMode := vChoice("mode", 2) == 1
	if anyMode {
		m = vParam("c31_fold_any", 1)
	}
	s := vString("s", vChoice("slen", m+1))
	t := vString("t", vChoice("tlen", m+1))
	if !anyMode {
		for k := 0; k < len(t); k++ {
			vAssume(t[k] < 0x80)
		}
	}
	got := equalASCIIFold(s, t)
	// ill-formed UTF-8 on both sides decodes to U+FFFD on both sides
	vKnown("C31-asciifold-invalid-utf8", vAnd(vNot(vhRefUTF8([]byte(s))), vNot(vhRefUTF8([]byte(t)))))
	vAssert(got == vhRefFoldEq(s, t), "equalASCIIFold = byte equality modulo ASCII case")
	if len(s) > 0 && len(t) > 0 {
		vCover(vAnd(got, s[len(s)-1] != t[len(t)-1]), "equal-by-folding")
	}
}

func vhIsTokenByte(b byte) bool {
	// RFC 2616 token: CHAR except CTLs and separators
	sep := false
	for _, x := range []byte("()<>@,;:\\\"/[]?={} \t") {
		sep = vOr(sep, b == x)
	}
	return vAnd(vAnd(b > 32, b < 127), vNot(sep))
}

// vh_C31_token_list: tokenListContainsValue on one header line of <= c31_hdr
// symbolic bytes against the 1#token reading of RFC 2616 section 2.1 (elements
// separated by commas, optional SP/HT around them, null elements allowed and
// ignored):
//
//	must be true : every element is empty or a token, and some element equals
//	               value (ASCII case-insensitively);
//	must be false: no element equals value.
//	(malformed line with a matching element: not constrained.)
func vh_C31_token_list() {
	m := vParam("c31_hdr", 4)
	line := vString("line", vChoice("len", m+1))
	const value = "a"
	got := tokenListContainsValue(http.Header{"Connection": {line}}, "Connection", value)
	// reference: walk the elements
	wellFormed, found, sawEmpty := true, false, false
	start := 0
	for k := 0; k <= len(line); k++ {
		if k < len(line) && line[k] != ',' { // forks per byte on "is it a comma"
			continue
		}
		el := line[start:k]
		start = k + 1
		lo, hi := 0, len(el)
		for lo < hi && (el[lo] == ' ' || el[lo] == '\t') {
			lo++
		}
		for hi > lo && (el[hi-1] == ' ' || el[hi-1] == '\t') {
			hi--
		}
		el = el[lo:hi]
		if len(el) == 0 {
			if !found {
				sawEmpty = true
			}
			continue
		}
		tok := true
		for j := 0; j < len(el); j++ {
			tok = vAnd(tok, vhIsTokenByte(el[j]))
		}
		wellFormed = vAnd(wellFormed, tok)
		found = vOr(found, vhRefFoldEq(el, value))
	}
	vKnown("C31-tokenlist-null-element", vAnd(sawEmpty, found))
	vAssert(vImplies(vAnd(wellFormed, found), got), "well-formed list containing the value: true")
	vAssert(vImplies(vNot(found), !got), "no element equals the value: false")
	vCover(vAnd(got, len(line) == m), "found-in-list")
}

// vh_C31_challenge_key: isValidChallengeKey(s). A key is valid iff it is the
// base64 (RFC 4648 section 4) encoding of 16 bytes: 24 characters, 22 alphabet
// characters then "==". (Whether the 4 unused bits of the 22nd character must
// be zero is left open by RFC 4648 section 3.5: not constrained.) Lengths
// 0/22/23/25 with symbolic bytes are rejected; for length 24 a window of
// c31_keywin symbolic bytes slides over an otherwise valid key (all windows,
// including the ones over the last data character and the padding).
func vh_C31_challenge_key() {
	if vChoice("wronglen", 2) == 1 {
		n := []int{0, 22, 23, 25}[vChoice("len", 4)]
		vAssert(!isValidChallengeKey(vString("key", n)), "wrong length rejected")
		return
	}
	w := vParam("c31_keywin", 2)
	at := vChoice("window", 24-w+1)
	base := "AAAAAAAAAAAAAAAAAAAAAA=="
	s := base[:at] + vString("key", w) + base[at+w:]
	alpha := func(b byte) bool {
		return vOr(vAnd(b >= 'A', b <= 'Z'), vOr(vAnd(b >= 'a', b <= 'z'), vOr(vAnd(b >= '0', b <= '9'), vOr(b == '+', b == '/'))))
	}
	body := true
	for k := 0; k < 22; k++ {
		body = vAnd(body, alpha(s[k]))
	}
	// 23 or 24 data characters decode to 17/18 bytes
	vKnown("C31-challenge-key-panic", vAnd(body, vAnd(alpha(s[22]), vOr(s[23] == '=', alpha(s[23])))))
	got, panicked := vhChallengeKey(s)
	vAssert(!panicked, "isValidChallengeKey does not panic")
	pad := vAnd(s[22] == '=', s[23] == '=')
	canonical := vOr(s[21] == 'A', vOr(s[21] == 'Q', vOr(s[21] == 'g', s[21] == 'w')))
	vAssert(vImplies(vAnd(body, vAnd(pad, canonical)), got), "canonical base64 of 16 bytes accepted")
	vAssert(vImplies(vNot(vAnd(body, pad)), !got), "anything else of length 24 rejected")
	vCover(got, "accepted")
	vCover(vAnd(!got, body), "rejected-for-padding")
}

func vhChallengeKey(s string) (ok bool, panicked bool) {
	defer func() {
		if recover() != nil {
			panicked = true
		}
	}()
	return isValidChallengeKey(s), false
}

// vh_C31_subprotocol: Upgrader.selectSubprotocol with Subprotocols {"a","bc"}
// and a symbolic Sec-WebSocket-Protocol line: the answer is "" or a protocol
// that the server supports AND the client offered (an element of the comma
// list, surrounding SP/HT ignored); it is non-empty whenever such a protocol
// exists.
func vh_C31_subprotocol() {
	m := vParam("c31_proto", 4)
	line := vString("line", vChoice("len", m+1))
	for k := 0; k < len(line); k++ {
		// net/http only delivers field values made of HT, SP and visible
		// characters (httpguts.ValidHeaderFieldValue); bytes >= 0x80 (obs-text)
		// are not explored: the range loop over a string would be concretized
		// rune by rune
		vAssume(vOr(line[k] == '\t', vAnd(line[k] >= 0x20, line[k] < 0x7f)))
	}
	u := &Upgrader{Subprotocols: []string{"a", "bc"}}
	r := &http.Request{Header: http.Header{"Sec-Websocket-Protocol": {line}}}
	got := u.selectSubprotocol(r, nil)
	offeredA, offeredBC := false, false
	start := 0
	for k := 0; k <= len(line); k++ {
		if k < len(line) && line[k] != ',' {
			continue
		}
		el := line[start:k]
		start = k + 1
		lo, hi := 0, len(el)
		for lo < hi && (el[lo] == ' ' || el[lo] == '\t') {
			lo++
		}
		for hi > lo && (el[hi-1] == ' ' || el[hi-1] == '\t') {
			hi--
		}
		el = el[lo:hi]
		offeredA = vOr(offeredA, vStrEq(el, "a"))
		offeredBC = vOr(offeredBC, vStrEq(el, "bc"))
	}
	isA, isBC := vStrEq(got, "a"), vStrEq(got, "bc")
	vAssert(vOr(len(got) == 0, vOr(isA, isBC)), "answer is empty or a server protocol")
	vAssert(vImplies(isA, offeredA), "selected protocol a was offered")
	vAssert(vImplies(isBC, offeredBC), "selected protocol bc was offered")
	vAssert(vImplies(vOr(offeredA, offeredBC), len(got) > 0), "a common protocol is selected when there is one")
	vCover(isBC, "selected-bc")
}
