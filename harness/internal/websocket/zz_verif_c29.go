package websocket

import (
	"crypto/rand"
	"io"
	"net"
	"time"
)

// ---------------------------------------------------------------------------
// C29: the frame reader (NextReader / advanceFrame / messageReader.Read /
// handleProtocolError / WriteControl) against a reference RFC 6455 decoder,
// over a SYMBOLIC byte stream served by a harness net.Conn.
// permessage-deflate is NOT negotiated (newDecompressionReader == nil).
// ---------------------------------------------------------------------------

// vhConn is the peer: it serves the bytes of in (chunk bytes per Read call,
// 0 = everything at once), then io.EOF, and records every Write.
type vhConn struct {
	in     []byte
	pos    int
	chunk  int
	eof    bool
	out    [][]byte
	closed bool
}

type vhAddr struct{}

func (vhAddr) Network() string { return "vh" }
func (vhAddr) String() string  { return "vh" }

func (c *vhConn) Read(p []byte) (int, error) {
	if c.pos >= len(c.in) {
		c.eof = true
		return 0, io.EOF
	}
	n := len(c.in) - c.pos
	if c.chunk > 0 && n > c.chunk {
		n = c.chunk
	}
	n = copy(p, c.in[c.pos:c.pos+n])
	c.pos += n
	return n, nil
}

func (c *vhConn) Write(p []byte) (int, error) {
	c.out = append(c.out, append([]byte(nil), p...))
	return len(p), nil
}
func (c *vhConn) Close() error                       { c.closed = true; return nil }
func (c *vhConn) LocalAddr() net.Addr                { return vhAddr{} }
func (c *vhConn) RemoteAddr() net.Addr               { return vhAddr{} }
func (c *vhConn) SetDeadline(t time.Time) error      { return nil }
func (c *vhConn) SetReadDeadline(t time.Time) error  { return nil }
func (c *vhConn) SetWriteDeadline(t time.Time) error { return nil }

// vhRand replaces crypto/rand.Reader (whose init does not run in the engine):
// the mask keys used for frames written in the client role are symbolic.
type vhRand struct{}

func (vhRand) Read(p []byte) (int, error) {
	for k := range p {
		p[k] = vByte("rnd")
	}
	return len(p), nil
}

// ---- reference decoder ----------------------------------------------------

const (
	vhEndEOF    = iota // peer stopped sending (clean or mid-frame)
	vhEndProto         // protocol violation: error + close 1002
	vhEndTooBig        // read limit: ErrReadLimit + close 1009
	vhEndClose         // valid close frame received
)

type vhMsg struct {
	typ  int
	data []byte
}

type vhRef struct {
	msgs      []vhMsg // complete messages, in order
	cur       *vhMsg  // message in progress when the stream ended (bytes available so far)
	end       int
	closeCode int
	closeText []byte
	pongs     [][]byte // payloads of the pongs owed for received pings
	// deviations that the RFC calls protocol violations (regions for vKnown)
	close1, lenMSB, nonMinimal, overflow bool
}

func vhBE(b []byte) uint64 {
	var v uint64
	for _, x := range b {
		v = v<<8 | uint64(x)
	}
	return v
}

// RFC 6455 section 7.4 (+ IANA registry): codes an endpoint may RECEIVE in a
// close frame: 1000-1003, 1007-1011 (RFC), 1012, 1013 (registered later),
// 3000-4999 (libraries/applications). 1004, 1005, 1006, 1015 are reserved and
// must never appear on the wire; < 1000 unused; 1016-2999 reserved, nothing
// registered; >= 5000 undefined. 1014 (IANA "Bad Gateway", not in the RFC) is
// left open: the harnesses never send it (see vh_C31_close_codes).
func vhRefCloseCodeOK(code int) bool {
	a := vAnd(code >= 1000, code <= 1003)
	b := vAnd(code >= 1007, code <= 1013)
	c := vAnd(code >= 3000, code <= 4999)
	return vOr(a, vOr(b, c))
}

// RFC 3629 well-formedness of a whole byte string.
func vhRefUTF8(b []byte) bool {
	i := 0
	for i < len(b) {
		c := b[i]
		if c < 0x80 {
			i++
			continue
		}
		var n int
		lo, hi := byte(0x80), byte(0xBF)
		switch {
		case c >= 0xC2 && c <= 0xDF:
			n = 1
		case c == 0xE0:
			n, lo = 2, 0xA0
		case c >= 0xE1 && c <= 0xEC, c == 0xEE, c == 0xEF:
			n = 2
		case c == 0xED:
			n, hi = 2, 0x9F
		case c == 0xF0:
			n, lo = 3, 0x90
		case c >= 0xF1 && c <= 0xF3:
			n = 3
		case c == 0xF4:
			n, hi = 3, 0x8F
		default:
			return false
		}
		if i+n >= len(b) {
			return false
		}
		if b[i+1] < lo || b[i+1] > hi {
			return false
		}
		for k := 2; k <= n; k++ {
			if b[i+k] < 0x80 || b[i+k] > 0xBF {
				return false
			}
		}
		i += n + 1
	}
	return true
}

func vhUnmask(dst []byte, src []byte, key []byte, kpos int) []byte {
	for k, x := range src {
		if key != nil {
			x ^= key[(kpos+k)&3]
		}
		dst = append(dst, x)
	}
	return dst
}

// vhRefHeaderBad: is a frame whose first two bytes are b0, b1 a protocol
// violation (RFC 6455 sections 5.2, 5.4, 5.5), given our role and whether a
// fragmented message is in progress. No extension is negotiated.
func vhRefHeaderBad(b0, b1 byte, server bool, inMsg bool) bool {
	op := int(b0 & 0x0f)
	fin := b0&0x80 != 0
	masked := b1&0x80 != 0
	l7 := int(b1 & 0x7f)
	isCtl := vOr(op == 8, vOr(op == 9, op == 10))
	isNew := vOr(op == 1, op == 2)
	bad := b0&0x70 != 0                                   // RSV1-3 must be 0
	bad = vOr(bad, vNot(vOr(isCtl, vOr(isNew, op == 0)))) // reserved opcodes 3-7, 11-15
	bad = vOr(bad, vAnd(isCtl, vOr(vNot(fin), l7 > 125))) // control: not fragmented, <= 125
	bad = vOr(bad, vAnd(isNew, inMsg))                    // new data frame inside a fragmented message
	bad = vOr(bad, vAnd(op == 0, !inMsg))                 // continuation with nothing to continue
	bad = vOr(bad, masked != server)                      // client->server masked, server->client not
	return bad
}

// vhRefDecode is the reference: what a conforming RFC 6455 endpoint (no
// extension negotiated) extracts from the byte stream in, and how the stream
// ends. server: we are the server (peer frames must be masked); else peer
// frames must not be masked. limit: maximum message size (0 = none).
func vhRefDecode(in []byte, server bool, limit int64) *vhRef {
	r := &vhRef{}
	pos := 0
	var cur *vhMsg
	var curLen uint64 // declared bytes of the message in progress (cannot wrap: each frame < 2^63, checked below)
	for {
		if len(in)-pos < 2 {
			r.end = vhEndEOF
			break
		}
		b0, b1 := in[pos], in[pos+1]
		pos += 2
		op := int(b0 & 0x0f)
		fin := b0&0x80 != 0
		masked := b1&0x80 != 0
		l7 := int(b1 & 0x7f)
		isCtl := vOr(op == 8, vOr(op == 9, op == 10))
		if vhRefHeaderBad(b0, b1, server, cur != nil) {
			r.end = vhEndProto
			break
		}
		n := int64(l7)
		if l7 == 126 {
			if len(in)-pos < 2 {
				r.end = vhEndEOF
				break
			}
			n = int64(vhBE(in[pos : pos+2]))
			pos += 2
			if n < 126 {
				r.nonMinimal = true
				r.end = vhEndProto
				break
			}
		} else if l7 == 127 {
			if len(in)-pos < 8 {
				r.end = vhEndEOF
				break
			}
			v := vhBE(in[pos : pos+8])
			pos += 8
			if v>>63 != 0 {
				r.lenMSB = true
				r.end = vhEndProto
				break
			}
			if v < 65536 {
				r.nonMinimal = true
				r.end = vhEndProto
				break
			}
			n = int64(v)
		}
		var key []byte
		if masked {
			if len(in)-pos < 4 {
				r.end = vhEndEOF
				break
			}
			key = in[pos : pos+4]
			pos += 4
		}
		avail := int64(len(in) - pos)
		if !isCtl {
			curLen += uint64(n)
			if curLen >= 1<<63 {
				// a message of 2^63 bytes or more: beyond any int64 limit
				r.overflow = true
			}
			if limit > 0 && curLen > uint64(limit) {
				r.end = vhEndTooBig
				break
			}
			if r.overflow {
				// no limit configured: the bytes cannot all arrive in a bounded
				// stream; any error is acceptable (the code reports ErrReadLimit)
				r.end = vhEndEOF
				break
			}
			if op != 0 {
				cur = &vhMsg{typ: op}
			}
			if n > avail {
				cur.data = vhUnmask(cur.data, in[pos:], key, 0)
				r.end = vhEndEOF
				break
			}
			nn := vConcInt(int(n))
			cur.data = vhUnmask(cur.data, in[pos:pos+nn], key, 0)
			pos += nn
			if fin {
				r.msgs = append(r.msgs, *cur)
				cur = nil
				curLen = 0
			}
			continue
		}
		if n > avail {
			r.end = vhEndEOF
			break
		}
		nn := vConcInt(int(n))
		payload := vhUnmask(nil, in[pos:pos+nn], key, 0)
		pos += nn
		if op == 9 {
			r.pongs = append(r.pongs, payload)
		} else if op == 8 {
			if nn == 1 {
				r.close1 = true
				r.end = vhEndProto
				break
			}
			r.closeCode = CloseNoStatusReceived
			if nn >= 2 {
				r.closeCode = int(vhBE(payload[:2]))
				r.closeText = payload[2:]
				if !vhRefCloseCodeOK(r.closeCode) || !vhRefUTF8(r.closeText) {
					r.end = vhEndProto
					break
				}
			}
			r.end = vhEndClose
			break
		}
	}
	r.cur = cur
	return r
}

// ---- what the peer got back ------------------------------------------------

type vhFrame struct {
	op      int
	payload []byte
}

// vhParseWritten checks that everything written to the peer is a sequence of
// well-formed single control frames (FIN, RSV 0, len <= 125, masked iff we are
// the client) and returns them unmasked.
func vhParseWritten(out [][]byte, server bool) []vhFrame {
	var fs []vhFrame
	for _, w := range out {
		vAssert(len(w) >= 2, "written: at least a header")
		vAssert(w[0]&0xf0 == 0x80, "written: FIN set, RSV clear")
		masked := w[1]&0x80 != 0
		vAssert(masked == !server, "written: masked iff client")
		n := int(w[1] & 0x7f)
		vAssert(n <= 125, "written: control payload <= 125")
		hdr := 2
		var key []byte
		if masked {
			vAssert(len(w) >= 6, "written: mask key present")
			key = w[2:6]
			hdr = 6
		}
		vAssert(len(w) == hdr+n, "written: length field matches bytes written")
		fs = append(fs, vhFrame{op: int(w[0] & 0x0f), payload: vhUnmask(nil, w[hdr:], key, 0)})
	}
	return fs
}

// ---- driver -----------------------------------------------------------------

type vhGot struct {
	msgs    []vhMsg
	partial *vhMsg // message whose reader failed before EOF
	err     error
}

// vhDrive is the application read loop: NextReader, then Read with a small
// buffer until io.EOF. skip>0: do not consume message number skip-1 (NextReader
// must discard it).
func vhDrive(c *Conn, bufSize int, maxMsgs int) *vhGot {
	g := &vhGot{}
	for k := 0; k < maxMsgs; k++ {
		mt, r, err := c.NextReader()
		if err != nil {
			vAssert(r == nil, "no reader together with an error")
			g.err = err
			return g
		}
		vAssert(r != nil, "reader returned")
		m := &vhMsg{typ: mt}
		for it := 0; ; it++ {
			vAssert(it < 64, "reader makes progress")
			b := make([]byte, bufSize)
			n, err := r.Read(b)
			vAssert(n >= 0 && n <= bufSize, "Read count in range")
			m.data = append(m.data, b[:n]...)
			if err == io.EOF {
				g.msgs = append(g.msgs, *m)
				break
			}
			if err != nil {
				g.partial = m
				g.err = err
				return g
			}
		}
	}
	return g
}

func vhBytesEqual(a, b []byte) bool {
	if len(a) != len(b) {
		return false
	}
	eq := true
	for k := range a {
		eq = vAnd(eq, a[k] == b[k])
	}
	return eq
}

// vhCheck compares what the real reader did with the reference.
func vhCheck(c *Conn, nc *vhConn, g *vhGot, server bool, limit int64, maxMsgs int) {
	ref := vhRefDecode(nc.in, server, limit)

	// known deviations (only effective when listed in known_findings.json)
	vKnown("C29-close-1byte-accepted", ref.close1)
	vKnown("C29-len64-msb-no-close", ref.lenMSB)
	vKnown("C29-nonminimal-length-accepted", ref.nonMinimal)
	vKnown("C29-length-overflow-no-1009", vAnd(ref.overflow, limit > 0))

	if len(g.msgs) == maxMsgs && g.err == nil {
		// the driver stopped after maxMsgs messages: compare those only
		vAssert(len(ref.msgs) >= maxMsgs, "messages delivered = reference (driver bound)")
		ref.msgs = ref.msgs[:maxMsgs]
	} else {
		vAssert(g.err != nil, "stream end reported as an error")
		vAssert(len(g.msgs) == len(ref.msgs), "number of complete messages = reference")
	}
	for k := range g.msgs {
		vAssert(g.msgs[k].typ == ref.msgs[k].typ, "message type = reference")
		vAssert(vhBytesEqual(g.msgs[k].data, ref.msgs[k].data), "message bytes = reference (unmasked, reassembled)")
	}
	if g.partial != nil {
		vAssert(ref.cur != nil, "partial message only when the reference has one in progress")
		vAssert(g.partial.typ == ref.cur.typ, "partial message type = reference")
		vAssert(len(g.partial.data) <= len(ref.cur.data), "partial message not longer than available")
		vAssert(vhBytesEqual(g.partial.data, ref.cur.data[:len(g.partial.data)]), "partial message bytes = prefix of reference")
	}
	fs := vhParseWritten(nc.out, server)
	if g.err == nil {
		// driver bound reached; only pongs may have been written so far
		for _, f := range fs {
			vAssert(f.op == PongMessage, "only pongs written while the stream is fine")
		}
		return
	}
	want := len(ref.pongs)
	if ref.end != vhEndEOF {
		want++
	}
	vAssert(len(fs) == want, "frames written back = pongs owed + final close (none on EOF)")
	for k, p := range ref.pongs {
		vAssert(fs[k].op == PongMessage, "ping answered by a pong")
		vAssert(vhBytesEqual(fs[k].payload, p), "pong echoes the ping payload")
	}
	var last *vhFrame
	if ref.end != vhEndEOF {
		last = &fs[len(fs)-1]
		vAssert(last.op == CloseMessage, "final frame written is a close")
	}
	switch ref.end {
	case vhEndProto:
		vCover(true, "protocol-error")
		vAssert(len(last.payload) >= 2 && vhBE(last.payload[:2]) == CloseProtocolError, "protocol violation answered with close 1002")
		_, isClose := g.err.(*CloseError)
		vAssert(!isClose && g.err != ErrReadLimit, "protocol violation returned as a protocol error")
	case vhEndTooBig:
		vCover(true, "too-big")
		vAssert(g.err == ErrReadLimit, "read limit returns ErrReadLimit")
		vAssert(len(last.payload) >= 2 && vhBE(last.payload[:2]) == CloseMessageTooBig, "read limit answered with close 1009")
	case vhEndClose:
		vCover(true, "close-received")
		ce, isClose := g.err.(*CloseError)
		vAssert(isClose, "received close returned as *CloseError")
		vAssert(ce.Code == ref.closeCode, "CloseError code = received code (1005 when empty)")
		vAssert(vhBytesEqual([]byte(ce.Text), ref.closeText), "CloseError text = received reason")
		if len(ref.closeText) > 0 {
			vCover(true, "close-with-reason")
		}
		if ref.closeCode == CloseNoStatusReceived {
			vAssert(len(last.payload) == 0, "empty close answered with an empty close")
		} else {
			vAssert(len(last.payload) >= 2 && int(vhBE(last.payload[:2])) == ref.closeCode, "close answered with the same code")
		}
	case vhEndEOF:
		vCover(true, "truncated")
	}
	// errors are permanent: nothing more is delivered
	_, r2, err2 := c.NextReader()
	vAssert(r2 == nil && err2 != nil, "no message after the stream was rejected/ended")
}

func vhNewConn(in []byte, server bool, limit int64) (*Conn, *vhConn) {
	rand.Reader = vhRand{}
	nc := &vhConn{in: in, chunk: vParam("c29_chunk", 0)}
	c := newConn(nc, server, 0, 0, nil, nil, nil)
	c.SetReadLimit(limit)
	return c, nc
}

// vhPrefix puts the reader inside a fragmented text message: a concrete first
// fragment "x" (FIN clear) that the driver consumes before the symbolic part.
func vhPrefix(server, mid bool) []byte {
	if !mid {
		return nil
	}
	if server {
		return []byte{0x01, 0x81, 0x10, 0x20, 0x30, 0x40, 'x' ^ 0x10}
	}
	return []byte{0x01, 0x01, 'x'}
}

// vh_C29_header: the accept/reject decision on the first two header bytes.
// ALL 2^16 values of the two bytes (FIN, RSV1-3, opcode, MASK, 7-bit length),
// in both protocol states (between messages / inside a fragmented message),
// in both roles; the stream ends after 0, 1 or 2 bytes, so a correct reader
// answers a bad header with close 1002 + error and a good one with an
// unexpected-EOF error and NO close frame.
func vh_C29_header() {
	server := vChoice("server", 2) == 1
	mid := vChoice("midmessage", 2) == 1
	n := vChoice("nbytes", 3)
	in := append(vhPrefix(server, mid), vBytes("s", n)...)
	limit := int64(vRange("limit", 0, 3))
	c, nc := vhNewConn(in, server, limit)
	g := vhDrive(c, vParam("c29_buf", 2), 3)
	vhCheck(c, nc, g, server, limit, 3)
}

// vh_C29_frame: one frame with a well-formed first two bytes (vh_C29_header
// decides the others) and everything else symbolic: 7/16/64-bit length
// encodings with symbolic extended length, mask key, payload, in both states
// and roles, the stream being cut after every byte position n (the declared
// length is only required to reach the cut, so the frame is complete,
// complete plus one stray byte, or truncated anywhere).
func vh_C29_frame() {
	server := vChoice("server", 2) == 1
	mid := vChoice("midmessage", 2) == 1
	kind := vChoice("lenkind", 3)
	pmax := vParam("c29_payload", 3)
	hdr := 2
	if kind == 1 {
		hdr += 2
	} else if kind == 2 {
		hdr += 8
	}
	if server {
		hdr += 4
	}
	n := 3 + vChoice("nbytes", hdr+pmax-2) // 3 .. hdr+pmax
	s := vBytes("s", n)
	vAssume(!vhRefHeaderBad(s[0], s[1], server, mid))
	l7 := s[1] & 0x7f
	var declared uint64
	switch kind {
	case 0:
		vAssume(l7 < 126)
		declared = uint64(l7)
	case 1:
		vAssume(l7 == 126)
		if n >= 4 {
			declared = vhBE(s[2:4])
		}
	case 2:
		vAssume(l7 == 127)
		if n >= 10 {
			declared = vhBE(s[2:10])
		}
	}
	if n > hdr {
		// the frame reaches the cut (at most one stray byte after it)
		vAssume(declared+1 >= uint64(n-hdr))
	}
	if kind == 0 && n >= hdr+2 && vParam("c29_anycode", 0) == 0 {
		// close frames: the status code is fully symbolic in vh_C29_close (and
		// decided for all codes in vh_C31_close_codes); here one valid and one
		// reserved code keep the map lookup from multiplying every path
		code := vhBE(vhUnmask(nil, s[hdr:hdr+2], vhKey(s, hdr, server), 0))
		vAssume(vOr(s[0]&0x0f != 8, vOr(code == 1000, code == 1005)))
	}
	in := append(vhPrefix(server, mid), s...)
	limit := int64(vRange("limit", 0, 5))
	c, nc := vhNewConn(in, server, limit)
	g := vhDrive(c, vParam("c29_buf", 2), 3)
	vhCheck(c, nc, g, server, limit, 3)
	vCover(kind == 2 && n >= hdr, "64-bit-length-decoded")
	vCover(len(g.msgs) > 0 && mid, "fragments-reassembled")
}

// vhKey returns the mask key that precedes offset hdr (server role) or nil.
func vhKey(s []byte, hdr int, server bool) []byte {
	if !server {
		return nil
	}
	return s[hdr-4 : hdr]
}

// vhFrameBytes encodes one short frame (payload <= 125) the way the peer of
// our role must: masked with key when we are the server.
func vhFrameBytes(b0 byte, payload []byte, server bool, key []byte) []byte {
	out := []byte{b0, byte(len(payload))}
	if server {
		out[1] |= 0x80
		out = append(out, key...)
		return vhUnmask(out, payload, key, 0) // masking = unmasking
	}
	return append(out, payload...)
}

// vh_C29_close: one complete close frame with a FULLY symbolic 16-bit status
// code and a symbolic reason of 0..c29_reason bytes (or an empty / 1-byte
// body), symbolic mask key, both roles: accepted (CloseError with code and
// reason, close echoed) iff the code may appear on the wire and the reason is
// well-formed UTF-8, else close 1002 + error.
func vh_C29_close() {
	server := vChoice("server", 2) == 1
	maxReason := vParam("c29_reason", 1)
	np := vChoice("bodylen", maxReason+3) // 0, 1, 2 (code only), 2+k
	body := vBytes("body", np)
	key := vBytes("key", 4)
	if np >= 2 {
		vAssume(vhBE(body[:2]) != 1014) // left open, see vhRefCloseCodeOK
	}
	in := vhFrameBytes(0x88, body, server, key)
	c, nc := vhNewConn(in, server, 0)
	g := vhDrive(c, 2, 2)
	vhCheck(c, nc, g, server, 0, 2)
	if np >= 2 {
		code := int(vhBE(body[:2]))
		_, isClose := g.err.(*CloseError)
		vCover(vAnd(isClose, code == 4999), "accepted-4999")
		vCover(vAnd(!isClose, code == 1015), "rejected-1015")
		vCover(vAnd(!isClose, vAnd(vhRefCloseCodeOK(code), np > 2)), "rejected-bad-utf8")
		if np > 3 {
			vCover(vAnd(isClose, body[2] >= 0x80), "accepted-multibyte-reason")
		}
	}
}

// vh_C29_stream: SEQUENCES of c29_frames frames. Every frame is locally
// well-formed (RSV clear, defined opcode, control frames final; the rest of the
// header space is vh_C29_header's) but opcode, FIN, mask key and payload bytes
// are symbolic, payload lengths are enumerated 0..c29_spayload, and the read
// limit is symbolic: continuation discipline across frames, reassembly,
// interleaved control frames, pongs, limit accumulation over fragments and
// its reset between messages, what follows a close.
func vh_C29_stream() {
	server := vChoice("server", 2) == 1
	frames := vParam("c29_frames", 3)
	pmax := vParam("c29_spayload", 1)
	var in []byte
	for k := 0; k < frames; k++ {
		b0 := vByte("b0")
		op := b0 & 0x0f
		vAssume(b0&0x70 == 0)
		vAssume(vOr(op <= 2, vAnd(op >= 8, op <= 10)))
		vAssume(vOr(op < 8, b0&0x80 != 0))
		if k == 0 && vParam("c29_first_data", 1) != 0 {
			// [control, x, y] repeats [x, y] after a control frame, which the
			// sequences [data, control, y] already contain
			vAssume(vOr(op == 1, op == 2))
		}
		np := vChoice("plen", pmax+1)
		pl := vBytes("p", np)
		if np >= 2 {
			// close codes are vh_C29_close's subject: one valid, one reserved here
			code := vhBE(pl[:2])
			vAssume(vOr(op != 8, vOr(code == 1000, code == 1005)))
		}
		in = append(in, vhFrameBytes(b0, pl, server, vBytes("key", 4))...)
	}
	cut := vChoice("cut", vParam("c29_cut", 1)) // bytes missing at the end
	in = in[:len(in)-cut]
	limit := int64(vRange("limit", 0, 3))
	c, nc := vhNewConn(in, server, limit)
	g := vhDrive(c, vParam("c29_buf", 2), frames+1)
	vhCheck(c, nc, g, server, limit, frames+1)
	vCover(len(g.msgs) >= 2, "two-messages")
	vCover(len(g.msgs) == 1 && len(nc.out) >= 1 && len(g.msgs[0].data) == 2, "control-inside-fragmented-message")
}

// vh_C29_discard: NextReader must discard what the application left unread of
// the previous message (rest of the current frame and all its continuation
// frames, answering interleaved pings) and deliver the next message intact.
func vh_C29_discard() {
	server := vChoice("server", 2) == 1
	k1, k2 := vBytes("key", 4), vBytes("key", 4)
	p1, p2, p3, p4 := vBytes("p1", 3), vBytes("ping", 1), vBytes("p2", 2), vBytes("p3", 2)
	var in []byte
	in = append(in, vhFrameBytes(0x01, p1, server, k1)...) // text, more to come
	in = append(in, vhFrameBytes(0x89, p2, server, k2)...) // ping
	in = append(in, vhFrameBytes(0x80, p3, server, k1)...) // final continuation
	in = append(in, vhFrameBytes(0x82, p4, server, k2)...) // binary message
	c, nc := vhNewConn(in, server, 0)
	mt, r, err := c.NextReader()
	vAssert(err == nil && mt == TextMessage, "first message starts")
	nread := vChoice("consumed", 5) // bytes the application reads before moving on
	got := make([]byte, nread)
	for k := 0; k < nread; k++ {
		n, err := r.Read(got[k : k+1])
		vAssert(n == 1 && err == nil, "byte of first message")
	}
	want1 := append(append([]byte(nil), p1...), p3...)
	vAssert(vhBytesEqual(got, want1[:nread]), "consumed bytes = reference")
	mt, r, err = c.NextReader()
	vAssert(err == nil && mt == BinaryMessage, "second message delivered after discarding the rest of the first")
	b := make([]byte, 4)
	n, err := io.ReadFull(r, b[:2])
	vAssert(n == 2 && err == nil && vhBytesEqual(b[:2], p4), "second message bytes intact")
	n, err = r.Read(b)
	vAssert(n == 0 && err == io.EOF, "second message ends")
	fs := vhParseWritten(nc.out, server)
	vAssert(len(fs) == 1 && fs[0].op == PongMessage && vhBytesEqual(fs[0].payload, p2), "interleaved ping answered exactly once")
	_, _, err = c.NextReader()
	vAssert(err != nil, "then EOF")
	vCover(nread == 0, "nothing-consumed")
	vCover(nread == 4, "stopped-inside-continuation")
}
