package websocket

import (
	"io"
	"net"
	"time"
)

// C30: messages written by one endpoint are valid RFC 6455 frames on the wire
// and are read back by a real Conn of the opposite role as the same type and
// bytes, in order. Writer and reader are the real code; the net.Conn is a
// harness byte buffer; the mask key source is symbolic.

// ---------------------------------------------------------------- wire

type vC30Buf struct {
	b     []byte
	rpos  int
	chunk int // >0: Read returns at most chunk bytes
	nw    int // number of Write calls
}

// vC30End is one end of a connection: reads from rd, writes into wr.
type vC30End struct {
	net.Conn // nil: anything not overridden below is outside the harness
	rd, wr   *vC30Buf
}

func (e *vC30End) Write(p []byte) (int, error) {
	e.wr.b = append(e.wr.b, p...)
	e.wr.nw++
	return len(p), nil
}

func (e *vC30End) Read(p []byte) (int, error) {
	r := e.rd
	if r.rpos >= len(r.b) {
		return 0, io.EOF
	}
	src := r.b[r.rpos:]
	if r.chunk > 0 && len(src) > r.chunk {
		src = src[:r.chunk]
	}
	n := copy(p, src)
	r.rpos += n
	return n, nil
}

func (e *vC30End) Close() error                       { return nil }
func (e *vC30End) SetDeadline(_ time.Time) error      { return nil }
func (e *vC30End) SetReadDeadline(_ time.Time) error  { return nil }
func (e *vC30End) SetWriteDeadline(_ time.Time) error { return nil }

// ---------------------------------------------------------------- messages

type vC30Msg struct {
	t    int
	data []byte
}

// vC30Same asserts that two message logs are equal (same count, types, bytes,
// order). Counts and lengths are concrete; types and bytes may be symbolic.
func vC30Same(got, want []vC30Msg, what string) {
	vAssert(len(got) == len(want), what+": same number of messages")
	if len(got) != len(want) {
		return
	}
	for k := range want {
		vAssert(got[k].t == want[k].t, what+": same message type")
		vAssert(len(got[k].data) == len(want[k].data), what+": same payload length")
		if len(got[k].data) == len(want[k].data) {
			// block-wise so that a 64K payload never becomes one huge query
			g, w := got[k].data, want[k].data
			for len(g) > 256 {
				vAssert(vBytesEq(g[:256], w[:256]), what+": same payload bytes")
				g, w = g[256:], w[256:]
			}
			vAssert(vBytesEq(g, w), what+": same payload bytes")
		}
	}
}

// ---------------------------------------------------------------- reference decoder

// vC30Decode is the reference RFC 6455 decoder. It asserts the framing rules
// the property names (RSV clear as no extension is negotiated, known opcodes,
// client frames masked / server frames unmasked, minimal 7/16/64-bit length
// encoding, control frames final and <= 125 bytes, fragmentation rules,
// nothing left over) and returns the messages in order of completion.
func vC30Decode(w []byte, fromClient bool, what string) []vC30Msg {
	var msgs []vC30Msg
	var cur *vC30Msg
	pos := 0
	for pos < len(w) {
		if len(w)-pos < 2 {
			vFail(what + ": truncated frame header")
			return msgs
		}
		b0, b1 := w[pos], w[pos+1]
		pos += 2
		vAssert(b0&0x70 == 0, what+": RSV bits clear")
		fin := vConcBool(b0&0x80 != 0)
		op := vConcInt(int(b0 & 0x0f))
		masked := vConcBool(b1&0x80 != 0)
		vAssert(masked == fromClient, what+": client frames masked, server frames unmasked")
		n := vConcInt(int(b1 & 0x7f))
		switch n {
		case 126:
			if len(w)-pos < 2 {
				vFail(what + ": truncated 16-bit length")
				return msgs
			}
			n = vConcInt(int(w[pos])<<8 | int(w[pos+1]))
			pos += 2
			vAssert(n > 125, what+": 16-bit length only for 126..65535")
		case 127:
			if len(w)-pos < 8 {
				vFail(what + ": truncated 64-bit length")
				return msgs
			}
			var n64 uint64
			for k := 0; k < 8; k++ {
				n64 = n64<<8 | uint64(w[pos+k])
			}
			n64 = vConcU64(n64)
			pos += 8
			vAssert(n64>>63 == 0, what+": 64-bit length MSB clear")
			vAssert(n64 > 65535, what+": 64-bit length only for >= 65536")
			if n64 > uint64(len(w)) {
				vFail(what + ": frame longer than the wire")
				return msgs
			}
			n = int(n64)
		}
		var key [4]byte
		if masked {
			if len(w)-pos < 4 {
				vFail(what + ": truncated mask key")
				return msgs
			}
			copy(key[:], w[pos:pos+4])
			pos += 4
		}
		if len(w)-pos < n {
			vFail(what + ": truncated payload")
			return msgs
		}
		payload := make([]byte, n)
		copy(payload, w[pos:pos+n])
		pos += n
		if masked {
			for k := range payload {
				payload[k] ^= key[k&3]
			}
		}
		switch {
		case op >= 8 && op <= 10:
			vAssert(fin, what+": control frame is final")
			vAssert(n <= 125, what+": control frame payload <= 125")
			msgs = append(msgs, vC30Msg{op, payload})
		case op == 1 || op == 2:
			vAssert(cur == nil, what+": no new data message inside a fragmented one")
			cur = &vC30Msg{op, payload}
			if fin {
				msgs = append(msgs, *cur)
				cur = nil
			}
		case op == 0:
			vAssert(cur != nil, what+": continuation continues a message")
			if cur == nil {
				return msgs
			}
			cur.data = append(cur.data, payload...)
			if fin {
				msgs = append(msgs, *cur)
				cur = nil
			}
		default:
			vFail(what + ": reserved opcode")
			return msgs
		}
	}
	vAssert(cur == nil, what+": last message is finished")
	return msgs
}

// ---------------------------------------------------------------- endpoints

type vC30Pair struct {
	w, r         *Conn    // writer endpoint, reader endpoint (opposite role)
	fwd, back    *vC30Buf // w -> r bytes, r -> w bytes (automatic replies)
	wIsServer    bool
	sent         []vC30Msg // what the writer application wrote successfully
	recv         []vC30Msg // what the reader application observed
	closeSent    bool
	nkeys        int
	wbufPayload  int // payload capacity of the writer's frame buffer
	readerClosed bool
}

const vC30MaskFn = "github.com/centrifugal/centrifuge/internal/websocket.newMaskKey"

// vC30NewPair builds two real Conns of opposite roles over harness buffers.
// wbuf is the writer's WriteBufferSize (0 = default 4096).
func vC30NewPair(wIsServer bool, wbuf int, chunk int) *vC30Pair {
	p := &vC30Pair{wIsServer: wIsServer}
	p.fwd = &vC30Buf{chunk: chunk}
	p.back = &vC30Buf{}
	p.w = newConn(&vC30End{rd: p.back, wr: p.fwd}, wIsServer, 0, wbuf, nil, nil, nil)
	p.r = newConn(&vC30End{rd: p.fwd, wr: p.back}, !wIsServer, 128, 0, nil, nil, nil)
	p.wbufPayload = len(p.w.writeBuf) - maxFrameHeaderSize
	p.r.SetPingHandler(func(d []byte) error {
		p.recv = append(p.recv, vC30Msg{PingMessage, append([]byte(nil), d...)})
		return p.r.defaultPingHandler(d)
	})
	p.r.SetPongHandler(func(d []byte) error {
		p.recv = append(p.recv, vC30Msg{PongMessage, append([]byte(nil), d...)})
		return nil
	})
	// the mask key comes from crypto/rand: every key is 4 fresh symbolic bytes
	vStub(vC30MaskFn, func() [4]byte {
		p.nkeys++
		var k [4]byte
		copy(k[:], vBytes("maskkey", 4))
		return k
	})
	return p
}

// readAll drains the reader endpoint with the real ReadMessage loop.
func (p *vC30Pair) readAll() {
	for k := 0; k < 64; k++ {
		mt, data, err := p.r.ReadMessage()
		if err != nil {
			if ce, ok := err.(*CloseError); ok && ce != errUnexpectedEOF {
				// a close message as the reading application sees it
				var d []byte
				if ce.Code != CloseNoStatusReceived {
					d = append(d, byte(ce.Code>>8), byte(ce.Code))
					d = append(d, ce.Text...)
				}
				p.recv = append(p.recv, vC30Msg{CloseMessage, d})
				p.readerClosed = true
				return
			}
			vAssert(err == errUnexpectedEOF, "reader stops only at the end of the wire")
			return
		}
		p.recv = append(p.recv, vC30Msg{mt, data})
	}
	vFail("reader does not terminate")
}

// check runs both oracles.
func (p *vC30Pair) check() {
	dec := vC30Decode(p.fwd.b, !p.wIsServer, "wire")
	vC30Same(dec, p.sent, "reference decoder vs written")
	p.readAll()
	vC30Same(p.recv, p.sent, "peer read vs written")
	// whatever the reading endpoint answered on its own (pong, close echo) is
	// framed by the same writer code in the opposite role
	vC30Decode(p.back.b, p.wIsServer, "reply wire")
}

// note records the outcome of one write API call.
func (p *vC30Pair) note(t int, data []byte, err error, mustSucceed bool) {
	if p.closeSent {
		vAssert(err != nil, "no write succeeds after a close message was sent")
		return
	}
	if mustSucceed {
		vAssert(err == nil, "write succeeds")
	}
	if err == nil {
		p.sent = append(p.sent, vC30Msg{t, append([]byte(nil), data...)})
		if t == CloseMessage {
			p.closeSent = true
		}
	}
}

var vC30Types = []int{TextMessage, BinaryMessage, PingMessage, PongMessage, CloseMessage}

// vC30Type picks a message type: each of the five valid ones, or (when
// withBad) any other int, symbolically.
func vC30Type(withBad bool) (int, bool) {
	n := len(vC30Types)
	if withBad {
		n++
	}
	k := vChoice("type", n)
	if k < len(vC30Types) {
		return vC30Types[k], true
	}
	t := vInt("badtype")
	vAssume(t != TextMessage && t != BinaryMessage && t != PingMessage && t != PongMessage && t != CloseMessage)
	return t, false
}

// vC30Payload makes n symbolic payload bytes. A close body the reading side
// can represent is empty or a valid close code followed by UTF-8 text (kept
// ASCII here). c30_allcodes=1: any valid code, symbolically (the receiver's
// code table forks the path per entry); 0: 1000 or any code in 3000..4999.
func vC30Payload(t int, n int) []byte {
	return vC30PayloadC(t, n, vParam("c30_allcodes", 0) == 1)
}

func vC30PayloadC(t int, n int, allCodes bool) []byte {
	d := vBytes("payload", n)
	if t == CloseMessage && n >= 2 {
		code := int(d[0])<<8 | int(d[1])
		private := vAnd(code >= 3000, code <= 4999)
		if allCodes {
			vAssume(vOr(vOr(vAnd(code >= 1000, code <= 1003), vAnd(code >= 1007, code <= 1013)), private))
		} else if vChoice("closecode", 2) == 0 {
			d[0], d[1] = CloseNormalClosure>>8, CloseNormalClosure&0xff
		} else {
			vAssume(private)
		}
		for _, c := range d[2:] {
			vAssume(c < 0x80)
		}
	}
	return d
}

var vC30WbufSizes = []int{1, 2, 0, 3, 5}

func vC30Wbuf(name string, n int) int {
	return vC30WbufSizes[vChoice(name, n)]
}

// vC30Fits: a control message needs a single frame, so through the buffered
// writer it must fit the write buffer; data messages always go through.
func (p *vC30Pair) fits(t int, n int) bool {
	return !isControl(t) || (n <= p.wbufPayload && n <= maxControlFramePayloadSize)
}

// ---------------------------------------------------------------- harnesses

// vh_C30_stream: one message through NextWriter, written in <= 3 pieces with
// Write or WriteString, then Close; small write buffers force fragmentation.
func vh_C30_stream() {
	maxLen := vParam("c30_len", 6)
	wIsServer := vChoice("writerIsServer", 2) == 1
	wbuf := vC30Wbuf("wbuf", vParam("c30_wbufs", 3))
	t, valid := vC30Type(true)
	p := vC30NewPair(wIsServer, wbuf, 0)
	if !valid {
		_, err := p.w.NextWriter(t)
		vAssert(err == errBadWriteOpCode, "invalid message type is rejected")
		vAssert(len(p.fwd.b) == 0, "nothing written for an invalid type")
		vCover(true, "bad-type")
		return
	}
	n := vChoice("len", maxLen+1)
	if t == CloseMessage && n == 1 {
		return // a 1-byte close body does not exist
	}
	a := vChoice("split1", n+1)
	b := n
	if isData(t) { // control messages cannot be fragmented: two pieces are enough
		b = a + vChoice("split2", n-a+1)
	}
	// which pieces go through WriteString: pieces 1 and 3, or piece 2
	strFirst := vChoice("writeStringFirst", 2) == 1
	data := vC30Payload(t, n)

	wr, err := p.w.NextWriter(t)
	vAssert(err == nil, "NextWriter succeeds")
	if err != nil {
		return
	}
	pieces := [][]byte{data[:a], data[a:b], data[b:]}
	var werr error
	for k, pc := range pieces {
		var m int
		if (k%2 == 0) == strFirst {
			m, werr = wr.(io.StringWriter).WriteString(string(pc))
		} else {
			m, werr = wr.Write(pc)
		}
		if werr != nil {
			break
		}
		vAssert(m == len(pc), "Write reports all bytes written")
	}
	if werr == nil {
		werr = wr.Close()
	}
	p.note(t, data, werr, p.fits(t, n))
	if werr != nil {
		vAssert(werr == errInvalidControlFrame, "only oversize control messages fail")
		vCover(true, "control-too-big-for-buffer")
	}
	vCover(isData(t) && p.fwd.nw >= 3, "fragmented>=3")
	vCover(isData(t) && !wIsServer && p.nkeys >= 2, "client-fragments-fresh-keys")
	vCover(isControl(t) && werr == nil && n > 0, "control-via-nextwriter")
	p.check()
}

// vC30Src is an io.Reader without WriteTo: it hands out its data in chunks of
// at most chunk bytes (0 = whatever fits) and reports io.EOF either together
// with the last bytes or on a separate call - both allowed by io.Reader.
type vC30Src struct {
	data    []byte
	chunk   int
	eofWith bool
}

func (s *vC30Src) Read(p []byte) (int, error) {
	if len(s.data) == 0 {
		return 0, io.EOF
	}
	n := len(p)
	if s.chunk > 0 && n > s.chunk {
		n = s.chunk
	}
	if n > len(s.data) {
		n = len(s.data)
	}
	copy(p, s.data[:n])
	s.data = s.data[n:]
	if len(s.data) == 0 && s.eofWith {
		return n, io.EOF
	}
	return n, nil
}

// vh_C30_readfrom: one data message streamed into the writer of NextWriter
// through io.ReaderFrom (what io.Copy uses), optionally after a Write piece
// and followed by another; the source delivers 1, 2 or all bytes per Read
// and signals EOF with or after its last bytes.
func vh_C30_readfrom() {
	maxLen := vParam("c30_len", 6)
	wIsServer := vChoice("writerIsServer", 2) == 1
	wbuf := vC30Wbuf("wbuf", vParam("c30_wbufs", 3))
	t := vC30Types[vChoice("type", 2)]
	p := vC30NewPair(wIsServer, wbuf, 0)
	n := vChoice("len", maxLen+1)
	a := vChoice("split1", n+1)
	b := a + vChoice("split2", n-a+1)
	data := vC30Payload(t, n)
	src := &vC30Src{data: append([]byte(nil), data[a:b]...), chunk: []int{0, 1, 2}[vChoice("srcChunk", 3)], eofWith: vChoice("eofWithData", 2) == 1}

	wr, err := p.w.NextWriter(t)
	vAssert(err == nil, "NextWriter succeeds")
	if err != nil {
		return
	}
	_, werr := wr.Write(data[:a])
	if werr == nil {
		rf, ok := wr.(io.ReaderFrom)
		vAssert(ok, "message writer implements io.ReaderFrom")
		_, werr = rf.ReadFrom(src) // the returned count is not part of the property
	}
	if werr == nil {
		_, werr = wr.Write(data[b:])
	}
	if werr == nil {
		werr = wr.Close()
	}
	p.note(t, data, werr, true)
	vCover(b-a > 0 && src.eofWith, "eof-with-last-bytes")
	vCover(b-a > p.wbufPayload, "source-larger-than-buffer")
	vCover(a > 0 && b < n && b > a, "readfrom-between-writes")
	p.check()
}

// vh_C30_apis: one message through WriteMessage, WriteControl or a
// PreparedMessage (no compression), every type, both roles; the reader's
// transport delivers the bytes whole or one byte at a time.
func vh_C30_apis() {
	maxLen := vParam("c30_len", 6)
	wIsServer := vChoice("writerIsServer", 2) == 1
	api := vChoice("api", 3)
	wbuf := 0
	if api == 0 {
		wbuf = vC30Wbuf("wbuf", vParam("c30_wbufs", 3))
	}
	chunk := vChoice("readChunk", 2)
	t, valid := vC30Type(true)
	n := 0
	if valid {
		n = vChoice("len", maxLen+1)
		if t == CloseMessage && n == 1 {
			return
		}
	}
	p := vC30NewPair(wIsServer, wbuf, chunk)
	data := vC30Payload(t, n)
	switch api {
	case 0:
		err := p.w.WriteMessage(t, data)
		if !valid {
			vAssert(err == errBadWriteOpCode, "invalid message type is rejected")
		}
		// the server's single-frame path takes a control payload of any legal
		// size; the buffered client path needs it to fit the buffer
		p.note(t, data, err, valid && (p.fits(t, n) || wIsServer))
		vCover(err == nil && isControl(t) && n > p.wbufPayload, "server-control-beyond-buffer")
		vCover(err == nil && isData(t) && p.fwd.nw >= 3, "writemessage-fragmented")
	case 1:
		var dl time.Time
		switch vChoice("deadline", 3) {
		case 1:
			dl = time.Now().Add(time.Second)
		case 2:
			dl = time.Now().Add(-time.Second)
			vCover(true, "deadline-passed")
		}
		err := p.w.WriteControl(t, data, dl)
		if !isControl(t) {
			vAssert(err == errBadWriteOpCode, "WriteControl takes control types only")
		}
		p.note(t, data, err, isControl(t) && dl.IsZero())
		vCover(err == nil && !dl.IsZero(), "control-with-deadline")
	case 2:
		pm, err := NewPreparedMessage(t, data)
		if !valid {
			vAssert(err == errBadWriteOpCode, "invalid message type is rejected")
			vAssert(pm == nil, "no prepared message for an invalid type")
			break
		}
		vAssert(err == nil && pm != nil, "prepared message is built")
		if pm == nil {
			return
		}
		// the same prepared message twice: the cached frame is sent again
		for k := 0; k < 2; k++ {
			err = p.w.WritePreparedMessage(pm)
			p.note(t, data, err, true)
		}
		vCover(t != CloseMessage, "prepared-twice")
	}
	p.check()
}

// vh_C30_seq: a sequence of messages through a mix of the write APIs on one
// connection, including a control message sent while a streamed data message
// is half written, and writes after a close message. The reader's transport
// delivers 3 bytes per Read so frames straddle reads.
func vh_C30_seq() {
	nmsg := vParam("c30_seq", 2)
	wIsServer := vChoice("writerIsServer", 2) == 1
	wbuf := vC30Wbuf("wbuf", vParam("c30_seqwbufs", 3))
	p := vC30NewPair(wIsServer, wbuf, 3)
	lens := []int{0, 1, 3}
	interleaved, afterClose, unclosed := false, false, false
	for k := 0; k < nmsg; k++ {
		if p.closeSent {
			afterClose = true
		}
		switch vChoice("op", 6) {
		case 0: // WriteMessage, text or binary
			t := TextMessage + vChoice("binary", 2)
			d := vC30Payload(t, lens[vChoice("len", 3)])
			p.note(t, d, p.w.WriteMessage(t, d), true)
		case 1: // streamed data message with a ping in the middle
			n := lens[vChoice("len", 3)]
			d := vC30Payload(BinaryMessage, n)
			ping := vC30Payload(PingMessage, 1)
			wr, err := p.w.NextWriter(BinaryMessage)
			if p.closeSent {
				vAssert(err != nil, "no writer after a close message was sent")
				break
			}
			vAssert(err == nil, "NextWriter succeeds")
			if err != nil {
				return
			}
			_, err1 := wr.Write(d[:(n+1)/2])
			errc := p.w.WriteControl(PingMessage, ping, time.Time{})
			_, err2 := wr.Write(d[(n+1)/2:])
			vAssert(err1 == nil && err2 == nil, "Write succeeds")
			// the ping is complete on the wire before the data message is
			p.note(PingMessage, ping, errc, true)
			p.note(BinaryMessage, d, wr.Close(), true)
			interleaved = true
		case 2: // WriteControl ping or pong
			t := PingMessage + vChoice("pong", 2)
			d := vC30Payload(t, 2*vChoice("len", 2))
			p.note(t, d, p.w.WriteControl(t, d, time.Time{}), true)
		case 3: // prepared text message
			d := vC30Payload(TextMessage, 1+vChoice("len", 2))
			pm, err := NewPreparedMessage(TextMessage, d)
			vAssert(err == nil, "prepared message is built")
			if err != nil {
				return
			}
			p.note(TextMessage, d, p.w.WritePreparedMessage(pm), true)
		case 4: // close
			d := vC30PayloadC(CloseMessage, 3*vChoice("len", 2), false)
			p.note(CloseMessage, d, p.w.WriteControl(CloseMessage, d, time.Time{}), true)
		case 5: // a writer the application never closes: the next message closes it
			d := vC30Payload(TextMessage, lens[vChoice("len", 3)])
			d2 := vC30Payload(BinaryMessage, 1)
			wr, err := p.w.NextWriter(TextMessage)
			if p.closeSent {
				vAssert(err != nil, "no writer after a close message was sent")
				break
			}
			vAssert(err == nil, "NextWriter succeeds")
			if err != nil {
				return
			}
			_, err1 := wr.Write(d)
			vAssert(err1 == nil, "Write succeeds")
			err2 := p.w.WriteMessage(BinaryMessage, d2)
			p.note(TextMessage, d, err2, true) // completed by the next message's start
			p.note(BinaryMessage, d2, err2, true)
			unclosed = true
		}
	}
	vCover(interleaved && len(p.sent) >= 3, "control-inside-fragmented-message")
	vCover(afterClose, "write-after-close")
	vCover(unclosed, "writer-closed-by-next-message")
	vCover(len(p.sent) == nmsg, "all-delivered")
	p.check()
}

// vC30SafeMask is the portable byte-at-a-time masking (mask_safe.go); the
// length harness substitutes it for maskBytes, whose word-at-a-time path for
// buffers >= 16 bytes uses unsafe pointer arithmetic (outside this engine).
func vC30SafeMask(key [4]byte, pos int, b []byte) int {
	for i := range b {
		b[i] ^= key[pos&3]
		pos++
	}
	return pos & 3
}

var vC30Lens = []int{125, 126, 127, 65535, 65536}

// vh_C30_lengths: header length encodings at the 7/16/64-bit boundaries. The
// payload is zero bytes except a symbolic first and last byte; frame lengths
// of exactly 125, 126, 127, 65535 and 65536 are produced through the write
// buffer (buffer size == length), through the unbuffered server paths
// (WriteMessage remainder, large Write) and by fragmentation.
func vh_C30_lengths() {
	wIsServer := vChoice("writerIsServer", 2) == 1
	L := vC30Lens[vChoice("length", vParam("c30_nlens", len(vC30Lens)))]
	api := vChoice("api", 4)
	wbufs := []int{L, 1, 125, 126, 0}
	if L > 4096 {
		// 64K payloads: one frame through a buffer of exactly that size, the
		// default 4096 buffer (client: 16 fragments; server: unbuffered
		// remainder), and for a server the 1-byte buffer (everything goes
		// the unbuffered way). A client with a tiny buffer would just emit
		// tens of thousands of identical small frames.
		wbufs = []int{L, 0}
		if wIsServer {
			wbufs = append(wbufs, 1)
		}
		if vParam("c30_lenfull", 0) == 0 {
			// quick tier: buffered single frame (both roles), unbuffered
			// server paths; prepared messages and the rest in thorough
			switch {
			case api == 2:
				return
			case wIsServer && api == 0:
				wbufs = []int{L, 1}
			case wIsServer:
				wbufs = []int{1}
			case api == 0:
				wbufs = []int{L}
			default:
				return
			}
		}
	}
	wbuf := 0
	if api <= 1 {
		wbuf = wbufs[vChoice("wbuf", len(wbufs))]
	}
	vStub("github.com/centrifugal/centrifuge/internal/websocket.maskBytes", vC30SafeMask)
	p := vC30NewPair(wIsServer, wbuf, 0)
	data := make([]byte, L)
	data[0] = vByte("first")
	data[L-1] = vByte("last")
	switch api {
	case 0:
		p.note(BinaryMessage, data, p.w.WriteMessage(BinaryMessage, data), true)
	case 1:
		wr, err := p.w.NextWriter(TextMessage)
		vAssert(err == nil, "NextWriter succeeds")
		if err != nil {
			return
		}
		m, err := wr.Write(data)
		vAssert(err == nil && m == L, "Write succeeds")
		p.note(TextMessage, data, wr.Close(), true)
	case 2:
		pm, err := NewPreparedMessage(BinaryMessage, data)
		vAssert(err == nil, "prepared message is built")
		if err != nil {
			return
		}
		p.note(BinaryMessage, data, p.w.WritePreparedMessage(pm), true)
	case 3:
		if L > 126 {
			return
		}
		err := p.w.WriteControl(PingMessage, data, time.Time{})
		if L > maxControlFramePayloadSize {
			vAssert(err == errInvalidControlFrame, "control payload of 126 bytes is rejected")
			vCover(true, "control-126-rejected")
		}
		p.note(PingMessage, data, err, L <= maxControlFramePayloadSize)
		vCover(err == nil, "control-125")
	}
	// which header forms appeared on the wire
	w := p.fwd.b
	if len(w) >= 2 {
		n7 := int(w[1] & 0x7f)
		vCover(n7 == 125, "first-frame-7bit-125")
		vCover(n7 == 126 && len(w) >= 4 && w[2] == 0 && w[3] == 126, "first-frame-16bit-126")
		vCover(n7 == 126 && len(w) >= 4 && w[2] == 0xff && w[3] == 0xff, "first-frame-16bit-65535")
		vCover(n7 == 127 && len(w) >= 10 && w[7] == 1 && w[8] == 0 && w[9] == 0, "first-frame-64bit-65536")
	}
	p.check()
}
