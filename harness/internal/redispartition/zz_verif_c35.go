package redispartition

// C35: sharded PUB/SUB partition tags are Redis-compatible and balanced.

// c35tab is the CRC16 table published in Redis' src/crc16.c (CCITT/XMODEM,
// polynomial 0x1021), copied here as the independent reference: Redis Cluster
// computes HASH_SLOT = crc16(key) & 0x3FFF with
//     crc = (crc << 8) ^ crc16tab[((crc >> 8) ^ *buf++) & 0x00FF].
var c35tab = [256]uint16{
	0x0000, 0x1021, 0x2042, 0x3063, 0x4084, 0x50a5, 0x60c6, 0x70e7,
	0x8108, 0x9129, 0xa14a, 0xb16b, 0xc18c, 0xd1ad, 0xe1ce, 0xf1ef,
	0x1231, 0x0210, 0x3273, 0x2252, 0x52b5, 0x4294, 0x72f7, 0x62d6,
	0x9339, 0x8318, 0xb37b, 0xa35a, 0xd3bd, 0xc39c, 0xf3ff, 0xe3de,
	0x2462, 0x3443, 0x0420, 0x1401, 0x64e6, 0x74c7, 0x44a4, 0x5485,
	0xa56a, 0xb54b, 0x8528, 0x9509, 0xe5ee, 0xf5cf, 0xc5ac, 0xd58d,
	0x3653, 0x2672, 0x1611, 0x0630, 0x76d7, 0x66f6, 0x5695, 0x46b4,
	0xb75b, 0xa77a, 0x9719, 0x8738, 0xf7df, 0xe7fe, 0xd79d, 0xc7bc,
	0x48c4, 0x58e5, 0x6886, 0x78a7, 0x0840, 0x1861, 0x2802, 0x3823,
	0xc9cc, 0xd9ed, 0xe98e, 0xf9af, 0x8948, 0x9969, 0xa90a, 0xb92b,
	0x5af5, 0x4ad4, 0x7ab7, 0x6a96, 0x1a71, 0x0a50, 0x3a33, 0x2a12,
	0xdbfd, 0xcbdc, 0xfbbf, 0xeb9e, 0x9b79, 0x8b58, 0xbb3b, 0xab1a,
	0x6ca6, 0x7c87, 0x4ce4, 0x5cc5, 0x2c22, 0x3c03, 0x0c60, 0x1c41,
	0xedae, 0xfd8f, 0xcdec, 0xddcd, 0xad2a, 0xbd0b, 0x8d68, 0x9d49,
	0x7e97, 0x6eb6, 0x5ed5, 0x4ef4, 0x3e13, 0x2e32, 0x1e51, 0x0e70,
	0xff9f, 0xefbe, 0xdfdd, 0xcffc, 0xbf1b, 0xaf3a, 0x9f59, 0x8f78,
	0x9188, 0x81a9, 0xb1ca, 0xa1eb, 0xd10c, 0xc12d, 0xf14e, 0xe16f,
	0x1080, 0x00a1, 0x30c2, 0x20e3, 0x5004, 0x4025, 0x7046, 0x6067,
	0x83b9, 0x9398, 0xa3fb, 0xb3da, 0xc33d, 0xd31c, 0xe37f, 0xf35e,
	0x02b1, 0x1290, 0x22f3, 0x32d2, 0x4235, 0x5214, 0x6277, 0x7256,
	0xb5ea, 0xa5cb, 0x95a8, 0x8589, 0xf56e, 0xe54f, 0xd52c, 0xc50d,
	0x34e2, 0x24c3, 0x14a0, 0x0481, 0x7466, 0x6447, 0x5424, 0x4405,
	0xa7db, 0xb7fa, 0x8799, 0x97b8, 0xe75f, 0xf77e, 0xc71d, 0xd73c,
	0x26d3, 0x36f2, 0x0691, 0x16b0, 0x6657, 0x7676, 0x4615, 0x5634,
	0xd94c, 0xc96d, 0xf90e, 0xe92f, 0x99c8, 0x89e9, 0xb98a, 0xa9ab,
	0x5844, 0x4865, 0x7806, 0x6827, 0x18c0, 0x08e1, 0x3882, 0x28a3,
	0xcb7d, 0xdb5c, 0xeb3f, 0xfb1e, 0x8bf9, 0x9bd8, 0xabbb, 0xbb9a,
	0x4a75, 0x5a54, 0x6a37, 0x7a16, 0x0af1, 0x1ad0, 0x2ab3, 0x3a92,
	0xfd2e, 0xed0f, 0xdd6c, 0xcd4d, 0xbdaa, 0xad8b, 0x9de8, 0x8dc9,
	0x7c26, 0x6c07, 0x5c64, 0x4c45, 0x3ca2, 0x2c83, 0x1ce0, 0x0cc1,
	0xef1f, 0xff3e, 0xcf5d, 0xdf7c, 0xaf9b, 0xbfba, 0x8fd9, 0x9ff8,
	0x6e17, 0x7e36, 0x4e55, 0x5e74, 0x2e93, 0x3eb2, 0x0ed1, 0x1ef0,
}

// C35a: one-step lemma. The bit-wise crc16 of this package advances the CRC
// state exactly like one step of Redis' table-driven CRC16, for EVERY 16-bit
// state and EVERY byte.
//
// crc16 has no entry point with an initial state, so an arbitrary state is
// produced by the real function itself: the state after two bytes (b0,b1) is
// crc16([b0 b1]), and obligation 1 shows that this map is injective on its
// 2^16-element domain, hence onto all 2^16 states. crc16 is a left fold over
// the bytes starting from 0, so crc16(d ++ [b]) is the bit-wise step applied
// to crc16(d) and b; obligation 2 equates it with the table step. By induction
// over the length, crc16(tag) is Redis' CRC16 of tag for tags of any length
// (base: both start from 0, checked by the known answer and the empty tag).
func vh_C35_crc_step() {
	b0, b1, b2 := vU8("b0"), vU8("b1"), vU8("b2")
	a0, a1 := vU8("a0"), vU8("a1")
	s := crc16([]byte{b0, b1})
	t := crc16([]byte{a0, a1})
	vAssert(vImplies(s == t, vAnd(a0 == b0, a1 == b1)), "two-byte-states-cover-all-65536-states")
	got := crc16([]byte{b0, b1, b2})
	want := (s << 8) ^ c35tab[byte(s>>8)^b2]
	vAssert(got == want, "bitwise-step-equals-redis-table-step")
	// the slot is the CRC modulo 16384, as in Redis (crc & 0x3FFF)
	vAssert(TagSlot(string([]byte{b0, b1})) == int(s&0x3FFF), "slot-is-crc-and-0x3FFF")
	// base cases and the standard check value of CRC-16/XMODEM
	vAssert(crc16(nil) == 0, "empty-input-is-zero-state")
	vAssert(crc16([]byte("123456789")) == 0x31C3, "known-answer-123456789")
	vAssert(TagSlot("123456789") == 0x31C3, "known-answer-slot")
	vCover(s == 0xFFFF, "state-ffff-reached")
	vCover(s&0x8000 != 0, "high-bit-state")
}

var c35sizes = []int{16, 32, 64, 128, 256, 512, 1024, 2048, 4096}

// C35b: for every precomputed partition count the bundled tags are usable as
// Redis hash tags ("{tag}" hashes exactly tag) and map to pairwise distinct
// slots. Once the count is fixed nothing is left to quantify over: this is a
// CONCRETE run of the real FindTags/TagSlot through the interpreter.
func vh_C35_distinct_slots() {
	maxP := vParam("c35_maxp", 4096)
	sizes := PrecomputedSizes()
	vAssert(len(sizes) == len(c35sizes), "supported-sizes-are-16..4096")
	for n, P := range sizes {
		vAssert(n < len(c35sizes) && P == c35sizes[n], "supported-sizes-are-16..4096")
		if P > maxP {
			continue
		}
		tags, err := FindTags(P)
		vAssert(err == nil && len(tags) == P, "one-tag-per-partition")
		var seen [totalSlots]bool
		for _, tag := range tags {
			ok := len(tag) > 0
			for k := 0; k < len(tag); k++ {
				if tag[k] == '{' || tag[k] == '}' {
					ok = false
				}
			}
			vAssert(ok, "tag-is-a-valid-hash-tag")
			s := TagSlot(tag)
			vAssert(s >= 0 && s < totalSlots, "slot-in-range")
			vAssert(!seen[s], "slots-distinct")
			seen[s] = true
		}
	}
	vCover(true, "ran")
}

// C35c: balance. Partition count P concrete (one path per P), slots concrete
// (TagSlot of the bundled tags, computed by the real code), cluster size n
// SYMBOLIC in [1,P], node indices j,k SYMBOLIC in [0,n): with the real
// SlotToNode, count_j <= count_k + 1, i.e. per-node counts differ by at most
// one, and every partition lands on an existing node.
func vh_C35_balance() {
	from := vParam("c35_from", 0)
	P := c35sizes[from+vChoice("P", vParam("c35_nsizes", 2)-from)]
	tags, err := FindTags(P)
	vAssert(err == nil && len(tags) == P, "one-tag-per-partition")
	n := 1 + int(vU8("n_minus_1")) // 1 + zero-extended: syntactically >= 1 and small
	vAssume(n <= P)
	j, k := int(vU8("j")), int(vU8("k"))
	vAssume(j < n && k < n)
	cj, ck := 0, 0
	inRange := true
	for _, tag := range tags {
		node := SlotToNode(TagSlot(tag), n)
		inRange = vAnd(inRange, vAnd(node >= 0, node < n))
		cj += vIteInt(node == j, 1, 0)
		ck += vIteInt(node == k, 1, 0)
	}
	vAssert(inRange, "every-partition-on-an-existing-node")
	vAssert(cj <= ck+1, "per-node-counts-differ-by-at-most-one")
	vCover(vAnd(n == P, cj == 1), "one-partition-per-node-when-n-equals-P")
	vCover(vAnd(n > 1, cj == ck+1), "uneven-split")
}

// C35c': well-formedness of the node mapping used above: for EVERY slot and
// EVERY cluster size n in [1,4096], SlotToNode(slot, n) is an existing node,
// slot 0 is on node 0 and the last slot on node n-1 (so all n ranges are used).
func vh_C35_node_range() {
	maxP := vParam("c35_rangep", 4096)
	slot := int(vU16("slot"))
	vAssume(slot < totalSlots)
	n := 1 + int(vU16("n_minus_1"))
	vAssume(n <= maxP)
	node := SlotToNode(slot, n)
	vAssert(vAnd(node >= 0, node < n), "node-index-in-range")
	vAssert(SlotToNode(0, n) == 0, "first-slot-on-first-node")
	vAssert(SlotToNode(totalSlots-1, n) == n-1, "last-slot-on-last-node")
	vCover(node == n-1, "last-node")
}

// C35c'': the node mapping IS the even contiguous split, stated without
// SlotToNode's own case split: for every cluster size n in [1, c35_contig_n]
// (one path per n) and EVERY slot (symbolic), the node j = SlotToNode(slot, n)
// satisfies j*sn + min(j,r) <= slot < (j+1)*sn + min(j+1,r), with
// sn = 16384/n and r = 16384%n (the first r nodes own one slot more).
func vh_C35_node_contiguous() {
	n := 1 + vChoice("n_minus_1", vParam("c35_contig_n", 64))
	slot := int(vU16("slot"))
	vAssume(slot < totalSlots)
	node := SlotToNode(slot, n)
	vAssert(vAnd(node >= 0, node < n), "node-index-in-range")
	sn, r := totalSlots/n, totalSlots%n
	start := node*sn + vIteInt(node < r, node, r)
	end := (node+1)*sn + vIteInt(node+1 < r, node+1, r)
	vAssert(vAnd(start <= slot, slot < end), "slot-inside-the-contiguous-range-of-its-node")
	vCover(n == 13, "thirteen-nodes")
}
