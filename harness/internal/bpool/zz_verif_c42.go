package bpool

// C42a: the index arithmetic that makes pooled buffers large enough, for
// EVERY capacity and EVERY requested length (full 32-bit range, symbolic).
// Put stores a buffer of capacity c at index prev(c); Get for length l reads
// index next(l). Invariant I(idx): every buffer in pool idx has cap >= 2^idx.
func vh_C42_index_lemmas() {
	// put side: 1 <= c <= max  =>  prev(c) in range and 2^prev(c) <= c
	c := vU32("cap")
	vAssume(c >= 1 && c <= maxBufferLength)
	pi := prevLogBase2(c)
	vAssert(pi < uint32(len(pools)), "put-index-in-range")
	vAssert((uint32(1)<<pi) <= c, "put-keeps-invariant: 2^idx <= cap")
	// get side: 1 <= l <= max  =>  next(l) in range and 2^next(l) >= l
	l := vU32("len")
	vAssume(l >= 1 && l <= maxBufferLength)
	gi := nextLogBase2(l)
	vAssert(gi < uint32(len(pools)), "get-index-in-range")
	vAssert((uint32(1)<<gi) >= l, "get-large-enough: 2^idx >= length")
	// same for the byte-slices pool helpers
	c2 := vU32("cap2")
	vAssume(c2 >= 1 && c2 <= maxByteSlicesBufLength)
	p2 := prevLogBase2ByteSlices(c2)
	vAssert(p2 < uint32(len(byteSlicesBufPools)), "bs-put-index-in-range")
	vAssert((uint32(1)<<p2) <= c2, "bs-put-keeps-invariant")
	l2 := vU32("len2")
	vAssume(l2 >= 1 && l2 <= maxByteSlicesBufLength)
	g2 := nextLogBase2ByteSlices(l2)
	vAssert(g2 < uint32(len(byteSlicesBufPools)), "bs-get-index-in-range")
	vAssert((uint32(1)<<g2) >= l2, "bs-get-large-enough")
	vCover(pi == 18, "put-top-bucket")
	vCover(gi == 0, "get-bottom-bucket")
}

var c42caps = []int{1, 2, 3, 4, 5, 7, 8, 9, 15, 16, 17, 31, 32, 33, 63, 64, 65}

// C42b: the real Put/Get pair. A dirty buffer of (concrete, small or
// boundary) capacity is returned to the pool, then a buffer is requested for
// a SYMBOLIC length; sync.Pool is modelled as "Get returns what was put".
func vh_C42_bytebuffer_putget() {
	ci := vChoice("capidx", len(c42caps))
	c := c42caps[ci]
	n := vChoice("dirtylen", 3) // 0, 1 or c bytes of old content
	if n == 2 {
		n = c
	}
	bb := &ByteBuffer{B: make([]byte, n, c)}
	for k := range bb.B {
		bb.B[k] = 0xAA
	}
	PutByteBuffer(bb)
	l := vInt("length")
	vAssume(l >= 0) // a requested length is not negative (see DESIGN.md C42)
	got := GetByteBuffer(l)
	vAssert(got != nil, "non-nil")
	vAssert(len(got.B) == 0, "empty")
	vAssert(cap(got.B) >= l, "capacity>=length")
	vCover(got == bb, "reused-pooled-buffer")
	vCover(got != bb, "fresh-buffer")
}

func vh_C42_byteslices_putget() {
	ci := vChoice("capidx", len(c42caps))
	c := c42caps[ci]
	n := vChoice("dirtylen", 3)
	if n == 2 {
		n = c
	}
	buf := &ByteSlicesBuf{B: make([][]byte, n, c)}
	for k := range buf.B {
		buf.B[k] = []byte{1}
	}
	PutByteSlicesBuf(buf)
	l := vInt("length")
	got := GetByteSlicesBuf(l)
	vAssert(got != nil, "non-nil")
	vAssert(len(got.B) == 0, "empty")
	vAssert(cap(got.B) >= l, "capacity>=length")
	if got == buf {
		full := got.B[:cap(got.B)]
		for k := range full {
			vAssert(full[k] == nil, "no-stale-element")
		}
	}
	vCover(got == buf, "reused-pooled-buffer")
	vCover(got != buf, "fresh-buffer")
}
