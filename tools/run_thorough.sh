#!/bin/sh
# run_thorough.sh fwd|rev : runs the thorough tier of every check not yet claimed by another runner
cd /verif
if [ "$1" = rev ]; then list=$(ls -r harness/registry/C*.json); else list=$(ls harness/registry/C*.json); fi
for f in $list; do
  id=$(basename $f .json)
  mkdir /tmp/thor_claim_$id 2>/dev/null || continue
  t0=$(date +%s)
  VERIF_REPO=${VERIF_REPO:-/repo} ./check $id thorough > /tmp/thor_$id.log 2>&1; rc=$?
  echo "$id exit=$rc $(( $(date +%s) - t0 ))s | $(tail -1 /tmp/thor_$id.log | cut -c1-140)" >> /tmp/thorough_all.log
done
