#!/bin/sh
cd /verif
for f in harness/registry/C*.json; do
  id=$(basename $f .json)
  t0=$(date +%s)
  VERIF_REPO=/tmp/thorough-repo ./check $id thorough > /tmp/thor_$id.log 2>&1; rc=$?
  echo "$id exit=$rc $(( $(date +%s) - t0 ))s | $(tail -1 /tmp/thor_$id.log | cut -c1-140)" >> /tmp/thorough_all.log
done
