#!/usr/bin/env python3
"""Regenerates /verif/MANIFEST.json from harness/registry.json and tools/na.json."""
import json, os
V = os.path.dirname(os.path.dirname(os.path.abspath(__file__)))
reg = {}
rd = os.path.join(V, "harness", "registry")
for f in sorted(os.listdir(rd)):
    if f.endswith(".json"):
        reg[f[:-5]] = json.load(open(os.path.join(rd, f)))
na = json.load(open(os.path.join(V, "tools", "na.json")))
props = [json.loads(l) for l in open(os.path.join(V, "properties.jsonl"))]
checks = []
for p in props:
    pid = p["id"]
    if pid not in reg or reg[pid].get("disabled"):
        continue
    e = reg[pid]
    b = e.get("bounds", {})
    checks.append({
        "property_id": pid,
        "quick_cmd": "./check %s quick" % pid,
        "thorough_cmd": "./check %s thorough" % pid,
        "evidence_file": "/verif/evidence/%s.json" % pid,
        "replay_cmd_template": "./check %s --replay {path}" % pid,
        "engine": "gosym",
        "technique": e.get("technique", "bounded symbolic execution of the real Go SSA (own executor) with z3; counterexamples replayed on the native build"),
        "level_claimed": {
            "category": "other",
            "text": "Bounded symbolic execution of the real code with an SMT solver: within the stated bounds every feasible path is explored and every assertion is discharged for all inputs on it; nothing is claimed outside the bounds. " + e.get("claim", ""),
            "design_ref": "DESIGN.md section 5, " + pid,
        },
        "level_note": "bounds: quick: %s; thorough: %s. outside the claim: %s. trusted: go/ssa, the gosym executor and its models, z3, the harness oracle." % (
            b.get("quick", "-"), b.get("thorough", "-"), "; ".join(e.get("outside", [])) or "-"),
    })
claimed = {c["property_id"] for c in checks}
nalist = [{"property_id": p["id"], "reason": na.get(p["id"], "check not built yet in this round; see DESIGN.md")} for p in props if p["id"] not in claimed]
m = {
    "version": 1,
    "setup_cmd": "cd /verif/engine && GOFLAGS=-mod=mod GOPROXY=off GOSUMDB=off GOTOOLCHAIN=local go1.26.8 build -o /verif/bin/gosym ./cmd/gosym",
    "hooks": {
        "guard": "verif",
        "enable": "none needed: harnesses are injected as go/packages overlays (symbolic run) and go test -overlay (native replay); nothing is written under /repo",
        "baseline_off_cmd": "cd /repo && go test -mod=mod -vet=off -count=1 -timeout 25m ./...",
        "source_commits": [],
        "add_only": True,
    },
    "engines": [{
        "name": "gosym", "path": "/verif/engine",
        "serves_properties": sorted(claimed),
        "kind_free_text": "symbolic executor for Go SSA (fork of x/tools go/ssa/interp v0.50.0) + z3 over stdin; fork by re-execution; deterministic scheduler and virtual time; native replay through go test -overlay",
    }],
    "checks": checks,
    "not_applicable": nalist,
    "notes": "Every check is decided by the solver over all values within the stated bounds; exit 2 means inconclusive and is never registered at a bound where it occurs on the unchanged tree.",
}
json.dump(m, open(os.path.join(V, "MANIFEST.json"), "w"), indent=1)
print("checks:", len(checks), "n/a:", len(nalist))
