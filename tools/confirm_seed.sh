#!/bin/sh
# confirm_seed.sh <seed dir> : re-verifies a seeded change in a scratch worktree.
# demo passes on clean code; with the patch: builds, package tests pass, demo fails.
d="$(cd "$1" && pwd)"; id=$(basename "$d")
wt=/tmp/confirm-$id
export GOFLAGS=-mod=mod GOPROXY=off
pkg=$(python3 -c "import json;print(json.load(open('$d/meta.json')).get('package','.'))")
git -C /repo worktree remove --force $wt >/dev/null 2>&1
git -C /repo worktree add --detach $wt HEAD >/dev/null 2>&1 || exit 3
cp "$d/zz_seed_demo_test.go" "$wt/$pkg/"
log="$d/confirm.log"; : > "$log"
cd $wt
echo "== demo on clean code" >> "$log"
go test -count=1 -vet=off -run 'TestSeedDemo' ./$pkg/ >> "$log" 2>&1; r1=$?
git apply "$d/patch.diff" || { echo "patch does not apply" >> "$log"; exit 3; }
echo "== build with patch" >> "$log"
go build ./... >> "$log" 2>&1 && go test -count=1 -run '^$' ./... >> "$log" 2>&1; r2=$?
echo "== demo with patch" >> "$log"
go test -count=1 -vet=off -run 'TestSeedDemo' ./$pkg/ >> "$log" 2>&1; r3=$?
echo "== existing tests of $pkg with patch (demo skipped)" >> "$log"
go test -count=1 -vet=off -timeout 60m -skip 'TestSeedDemo' ./$pkg/ > "$log.suite" 2>&1; r4=$?
cat "$log.suite" >> "$log"
if [ $r4 != 0 ]; then
  # wall-clock tests flake on a loaded machine: re-run the failed top-level tests alone
  names=$(grep -E '^--- FAIL: ' "$log.suite" | awk '{print $3}' | grep -v / | sort -u | tr '\n' '|' | sed 's/|$//')
  if [ -n "$names" ]; then
    echo "== re-running failed tests alone: $names" >> "$log"
    go test -count=1 -vet=off -timeout 30m -run "^($names)\$" ./$pkg/ >> "$log" 2>&1 && r4=0
  fi
fi
rm -f "$log.suite"
cd /; git -C /repo worktree remove --force $wt
echo "RESULT demo_clean=$r1 build=$r2 demo_patched=$r3 existing_tests=$r4" | tee -a "$log"
[ $r1 = 0 ] && [ $r2 = 0 ] && [ $r3 != 0 ] && [ $r4 = 0 ]
