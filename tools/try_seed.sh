#!/bin/sh
# try_seed.sh <seed-name> : applies seeded/<name>/patch.diff to /repo, runs the property's quick check, reverts.
s="$1"; id=${s%-*}
cd /verif
git -C /repo apply /verif/seeded/$s/patch.diff || { echo "$s: patch does not apply"; exit 3; }
./check $id quick > /tmp/try_$s.log 2>&1; rc=$?
git -C /repo checkout -- .
echo "$s check_exit=$rc $(grep -m1 -A1 VIOLATION /tmp/try_$s.log | tr '\n' ' ' | cut -c1-300)"
