#!/bin/sh
# try_seed.sh <seed-name> : applies seeded/<name>/patch.diff to a scratch worktree of /repo (never to /repo itself),
# runs the property's quick check against it (VERIF_REPO), removes the patch again.
# NOTE: the run rewrites evidence/<ID>.json; re-run ./check <ID> quick on /repo afterwards.
s="$1"; id=${s%-*}
wt=/tmp/seedtry-repo
cd /verif
[ -d $wt ] || git -C /repo worktree add --detach $wt HEAD >/dev/null 2>&1 || exit 3
git -C $wt checkout -q --detach $(git -C /repo rev-parse HEAD) && git -C $wt checkout -- . 
git -C $wt apply /verif/seeded/$s/patch.diff || { echo "$s: patch does not apply"; exit 3; }
VERIF_REPO=$wt ./check $id quick > /tmp/try_$s.log 2>&1; rc=$?
git -C $wt checkout -- .
echo "$s check_exit=$rc $(grep -m1 -A1 VIOLATION /tmp/try_$s.log | tr '\n' ' ' | cut -c1-300)"
