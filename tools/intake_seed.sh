#!/bin/sh
# intake_seed.sh <name>...: copy from /tmp/seedout, try against the check
for s in "$@"; do
  mkdir -p /verif/seeded/$s; cp /tmp/seedout/$s/patch.diff /tmp/seedout/$s/zz_seed_demo_test.go /tmp/seedout/$s/meta.json /verif/seeded/$s/ 2>/dev/null
  /verif/tools/try_seed.sh $s
done
