#!/bin/sh
# mkws.sh <name>: private workspace for a harness author:
#   /tmp/hw-<name>/verif  (copy of /verif)   /tmp/hw-<name>/repo (git worktree of /repo)
set -e
n="$1"
d="/tmp/hw-$n"
rm -rf "$d/verif"
mkdir -p "$d"
rsync -a --exclude .git --exclude evidence --exclude replay /verif/ "$d/verif/"
mkdir -p "$d/verif/evidence" "$d/verif/replay"
if [ ! -d "$d/repo" ]; then
  git -C /repo worktree add --detach "$d/repo" HEAD >/dev/null 2>&1
fi
echo "$d"
