#!/bin/sh
# run_all.sh [quick|thorough]: every registered check, sequentially; summary on stdout
tier=${1:-quick}
cd /verif
for f in harness/registry/C*.json; do
  id=$(basename $f .json)
  t0=$(date +%s)
  ./check $id $tier > /tmp/all_$id.log 2>&1; rc=$?
  echo "$id exit=$rc $(( $(date +%s) - t0 ))s $(grep -c KNOWN-FINDING /tmp/all_$id.log) known | $(tail -1 /tmp/all_$id.log | cut -c1-120)"
done
